#!/usr/bin/env python3
"""Run (part of) the pinned suite on /repo and compare with BASELINE.json:
   tools/basecmp.py [pytest args/paths...]   (no args = whole suite, -n 14)
prints stable_pass tests that did not pass."""
import json, subprocess, sys, tempfile, os, xml.etree.ElementTree as ET
b = json.load(open('/root/.vp/BASELINE.json'))
stable = set(b['stable_pass'])
out = tempfile.mktemp(suffix='.xml', dir='/dev/shm')
args = sys.argv[1:]
cmd = ['/venv/bin/python', '-m', 'pytest', '-q', '-p', 'no:cacheprovider', '--timeout=900',
       '--continue-on-collection-errors', '--junitxml=' + out]
if not any(a.startswith('-n') for a in args):
    cmd += ['-n', '14']
cmd += args
env = dict(os.environ); env.pop('BREEZY_VERIF', None)
r = subprocess.run(cmd, cwd=os.environ.get('BASECMP_CWD', '/repo'), env=env, stdout=subprocess.PIPE, stderr=subprocess.STDOUT, text=True)
print(r.stdout[-600:])
passed, failed, seen = set(), set(), set()
for tc in ET.parse(out).getroot().iter('testcase'):
    tid = (tc.get('classname') or '') + '::' + (tc.get('name') or '')
    seen.add(tid)
    if tc.find('failure') is not None or tc.find('error') is not None:
        failed.add(tid)
    elif tc.find('skipped') is None:
        passed.add(tid)
os.unlink(out)
reg = sorted((seen & stable) - passed)
print('ran', len(seen), 'of which stable_pass', len(seen & stable), 'regressions', len(reg))
for t in reg[:40]:
    print('  REGRESSION', t)
if not args:
    missing = stable - seen
    print('stable tests not seen:', len(missing))
sys.exit(1 if reg else 0)
