#!/bin/bash
# Scratch worktrees of /repo for sensitivity experiments (never touches /repo's files).
#   tools/mutant.sh new <name> [patch]   -> prints the worktree path (/dev/shm/vf-mut/<name>)
#   tools/mutant.sh rm <name>
#   tools/mutant.sh run <name> <ID> [check args...]   -> VERIF_REPO=<worktree> ./check <ID> ...
set -e
here="$(cd "$(dirname "$0")/.." && pwd)"
base=/dev/shm/vf-mut
cmd="$1"; name="$2"; shift 2 || true
wt="$base/$name"
case "$cmd" in
  new)
    mkdir -p "$base"
    git -C /repo worktree add --detach "$wt" HEAD >/dev/null 2>&1
    # bring over uncommitted-but-tracked state? no: HEAD only.
    for f in /repo/breezy/*.so; do cp "$f" "$wt/breezy/"; done
    mkdir -p "$wt/target"
    if [ -f /repo/target/.verif-stamp ]; then cp /repo/target/.verif-stamp "$wt/target/"; fi
    if [ -n "$1" ]; then git -C "$wt" apply "$1"; fi
    echo "$wt"
    ;;
  rm)
    git -C /repo worktree remove --force "$wt" 2>/dev/null || rm -rf "$wt"
    git -C /repo worktree prune
    ;;
  run)
    id="$1"; shift
    cd "$here" && VERIF_REPO="$wt" ./check "$id" "$@"
    ;;
  *) echo "usage: $0 new|rm|run <name> ..."; exit 2;;
esac
