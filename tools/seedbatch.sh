#!/bin/bash
# tools/seedbatch.sh <out.jsonl> <seed dirs...> : run seedeval --keep sequentially, append compact results
out=$1; shift
for d in "$@"; do
  echo "=== $d" >> $out.log
  /verif/tools/seedeval.py "$d" --keep --seeds 1,2 --jobs 4 >> $out.log 2>&1
  python3 - "$d" >> $out <<'PY'
import json,sys,os
d=sys.argv[1]; name=os.path.basename(d)
p='/verif/seeded/%s/meta.json'%name
if os.path.exists(p):
    m=json.load(open(p)); ev=m.get('evaluation',{})
    print(json.dumps({"name":name,"confirmed":True,"caught":ev.get("caught"),"checks":{c:{s:(v["rc"],v["signatures"][:2]) for s,v in cs.items()} for c,cs in ev.get("checks",{}).items()},"regress":ev.get("tests",{}).get("regressions")}))
else:
    print(json.dumps({"name":name,"confirmed":False}))
PY
done
echo DONE >> $out
