#!/usr/bin/env python3
"""Merge known_findings.d/<ID>.json (staging, written while a check is developed)
into known_findings.json for the given property ids (or all), removing the staging file."""
import json, os, sys
ROOT = os.path.dirname(os.path.dirname(os.path.abspath(__file__)))
main = os.path.join(ROOT, "known_findings.json")
data = json.load(open(main))
have = {(e["signature"], e["status"]) for e in data["findings"]}
d = os.path.join(ROOT, "known_findings.d")
ids = [a.upper() for a in sys.argv[1:]]
for fn in sorted(os.listdir(d)):
    if not fn.endswith(".json"):
        continue
    if ids and fn[:-5].upper() not in ids:
        continue
    for e in json.load(open(os.path.join(d, fn))).get("findings", []):
        if (e["signature"], e["status"]) not in have:
            data["findings"].append(e)
            have.add((e["signature"], e["status"]))
            print("merged", e["signature"])
    os.unlink(os.path.join(d, fn))
with open(main, "w") as f:
    json.dump(data, f, indent=1, ensure_ascii=False)
    f.write("\n")
