#!/venv/bin/python
"""Regenerate /verif/MANIFEST.json from the property modules in vf/props.

A property is claimed iff its module exists and sets REGISTERED = True (done only
after the check was quiet on the unchanged tree at several seeds and was shown to
fail on deliberately broken copies, DESIGN.md section 8)."""
import importlib
import json
import os
import sys

ROOT = os.path.dirname(os.path.dirname(os.path.abspath(__file__)))
sys.path.insert(0, ROOT)

UNCLAIMED_DEFAULT = ("generated-search check designed in DESIGN.md section 5 but "
                     "not yet built and validated on the unchanged tree; not claimed "
                     "(the technique applies)")


def main():
    props = [json.loads(l) for l in open(os.path.join(ROOT, "properties.jsonl"))]
    checks, na, engines = [], [], {}
    for p in props:
        pid = p["id"]
        try:
            mod = importlib.import_module("vf.props." + pid.lower())
        except ModuleNotFoundError:
            mod = None
        if mod is None or not getattr(mod, "REGISTERED", False):
            reason = getattr(mod, "UNCLAIMED_REASON", None) or UNCLAIMED_DEFAULT
            na.append({"property_id": pid, "reason": reason})
            continue
        checks.append({
            "property_id": pid,
            "quick_cmd": "./check %s --tier quick" % pid,
            "thorough_cmd": "./check %s --tier thorough" % pid,
            "evidence_file": "evidence/%s.json" % pid,
            "replay_cmd_template": "./check %s --replay {path}" % pid,
            "engine": "vf",
            "level_claimed": {
                "category": mod.LEVEL,
                "text": mod.LEVEL_TEXT,
                "design_ref": "DESIGN.md section 5, %s" % pid,
            },
            "level_note": mod.LEVEL_NOTE,
            "technique": mod.TECHNIQUE,
        })
    manifest = {
        "version": 1,
        "setup_cmd": ("./check setup && (/venv/bin/pip install -q --no-index "
                      "--find-links /opt/veriftools/wheels --target .deps "
                      "jsonschema atheris || true)"),
        "hooks": {
            "guard": "BREEZY_VERIF",
            "enable": ("no hooks in /repo are needed: checks import breezy from "
                       "/repo's working tree, rebuild the Rust extensions when "
                       "their sources changed (vf/env.py:ensure_built) and attach "
                       "at the transport / os / socket seams from the harness "
                       "side; BREEZY_VERIF=1 is exported by every check for "
                       "future hooks"),
            "baseline_off_cmd": ("cd /repo && env -u BREEZY_VERIF /venv/bin/python "
                                 "-m pytest -ra -q -p no:cacheprovider "
                                 "--timeout=900 --continue-on-collection-errors "
                                 "--junitxml=<file>"),
            "source_commits": [],
            "add_only": True,
        },
        "engines": [{
            "name": "vf",
            "path": "vf/",
            "serves_properties": [c["property_id"] for c in checks],
            "kind_free_text": ("Hypothesis-driven generated search (seeded, "
                               "sharded over processes) with model / round-trip / "
                               "differential / metamorphic oracles, exhaustive "
                               "enumeration of small finite domains, fault / crash "
                               "/ schedule enumeration at the transport seam; "
                               "failures are shrunk and saved as replay files"),
        }],
        "checks": checks,
        "not_applicable": na,
        "notes": ("Checks are ./check <ID> --tier quick|thorough (VERIF_SEED, "
                  "VERIF_TIER, VERIF_JOBS honoured); exit 0 held / only known "
                  "findings, 1 VIOLATION, 2 harness error. known_findings.json "
                  "lists open findings (suppressed by exact signature, printed as "
                  "KNOWN-FINDING) and fixed ones (suppress nothing). regress/<ID>/ "
                  "holds saved cases replayed before every search. Properties in "
                  "not_applicable are not claimed in this round; the reason says "
                  "why."),
    }
    with open(os.path.join(ROOT, "MANIFEST.json"), "w") as f:
        json.dump(manifest, f, indent=1)
        f.write("\n")
    print("claimed:", len(checks), "unclaimed:", len(na))
    # validate
    sys.path.append(os.path.join(ROOT, ".deps"))
    try:
        import jsonschema
        jsonschema.validate(manifest, json.load(open("/root/.vp/MANIFEST.schema.json")))
        print("manifest valid")
    except ImportError:
        print("jsonschema unavailable; not validated")


if __name__ == "__main__":
    main()
