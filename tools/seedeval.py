#!/usr/bin/env python3
"""Confirm an independently written seeded defect and run our checks against it.

  tools/seedeval.py /tmp/seed/out/b1/C39-1 [--checks C39,C40] [--seeds 1,2] [--keep]

Steps (all in a scratch worktree of /repo HEAD under /dev/shm/vf-mut, never in /repo):
  1. demo.py exits 0 on the clean worktree;
  2. patch.diff applies; demo.py exits non-zero with it;
  3. the pinned test modules closest to the touched files show no regression
     against BASELINE.json (stable_pass tests that stop passing);
  4. ./check <ID> --tier quick with VERIF_REPO=<worktree> at the given seeds: caught / missed.
With --keep the confirmed change is copied to /verif/seeded/<name>/ with the results in meta.json.
"""
import argparse
import json
import os
import shutil
import subprocess
import sys
import xml.etree.ElementTree as ET

ROOT = os.path.dirname(os.path.dirname(os.path.abspath(__file__)))


def sh(cmd, cwd=None, env=None, timeout=3600):
    r = subprocess.run(cmd, shell=isinstance(cmd, str), cwd=cwd, env=env,
                       stdout=subprocess.PIPE, stderr=subprocess.STDOUT,
                       text=True, timeout=timeout)
    return r.returncode, r.stdout


def related_tests(wt, files):
    out = []
    for f in files:
        if not f.endswith(".py") or "/tests/" in f:
            continue
        base = os.path.basename(f)[:-3]
        d = os.path.dirname(f)
        for cand in ("breezy/tests/test_%s.py" % base,
                     "%s/tests/test_%s.py" % (d, base),
                     "breezy/bzr/tests/test_%s.py" % base,
                     "breezy/tests/blackbox/test_%s.py" % base):
            if os.path.exists(os.path.join(wt, cand)) and cand not in out:
                out.append(cand)
    return out


def run_tests(wt, tests):
    if not tests:
        return {"ran": 0, "regressions": [], "note": "no related test module"}
    base = json.load(open("/root/.vp/BASELINE.json"))
    stable = set(base["stable_pass"])
    xml = "/dev/shm/seedeval.%d.xml" % os.getpid()
    env = dict(os.environ)
    env.pop("BREEZY_VERIF", None)
    env["PYTHONPATH"] = wt
    rc, out = sh(["/venv/bin/python", "-m", "pytest", "-q", "-p",
                  "no:cacheprovider", "--timeout=900", "-n", "4",
                  "--continue-on-collection-errors", "--junitxml=" + xml] +
                 tests, cwd=wt, env=env)
    passed, seen = set(), set()
    try:
        for tc in ET.parse(xml).getroot().iter("testcase"):
            tid = (tc.get("classname") or "") + "::" + (tc.get("name") or "")
            seen.add(tid)
            if tc.find("failure") is None and tc.find("error") is None and \
                    tc.find("skipped") is None:
                passed.add(tid)
        os.unlink(xml)
    except Exception as e:  # noqa: BLE001
        return {"ran": 0, "regressions": ["could not parse junit: %s" % e],
                "tail": out[-500:]}
    reg = sorted((seen & stable) - passed)
    return {"ran": len(seen), "stable_seen": len(seen & stable),
            "regressions": reg, "tests": tests}


def main():
    ap = argparse.ArgumentParser()
    ap.add_argument("dir")
    ap.add_argument("--checks")
    ap.add_argument("--seeds", default="1,2")
    ap.add_argument("--jobs", default="4")
    ap.add_argument("--keep", action="store_true")
    ap.add_argument("--no-tests", action="store_true")
    a = ap.parse_args()
    d = os.path.abspath(a.dir)
    name = os.path.basename(d)
    meta = json.load(open(os.path.join(d, "meta.json")))
    pid = meta.get("property") or name.split("-")[0]
    checks = a.checks.split(",") if a.checks else [pid]
    mut = "seedeval-%s-%d" % (name, os.getpid())
    rc, out = sh([os.path.join(ROOT, "tools/mutant.sh"), "new", mut])
    wt = out.strip().splitlines()[-1]
    res = {"dir": d, "property": pid}
    try:
        env = dict(os.environ, PYTHONPATH=wt, PYTHONHASHSEED="0")
        rc0, o0 = sh(["/venv/bin/python", os.path.join(d, "demo.py")], cwd=wt,
                     env=env, timeout=900)
        res["demo_clean_rc"] = rc0
        rc, o = sh(["git", "apply", os.path.join(d, "patch.diff")], cwd=wt)
        res["patch_applies"] = rc == 0
        if rc != 0:
            res["error"] = o[-500:]
            print(json.dumps(res, indent=1))
            return 2
        rc1, o1 = sh(["/venv/bin/python", os.path.join(d, "demo.py")], cwd=wt,
                     env=env, timeout=900)
        res["demo_patched_rc"] = rc1
        res["demo_patched_tail"] = o1[-400:]
        rcf, files = sh(["git", "diff", "--name-only"], cwd=wt)
        files = files.split()
        res["files"] = files
        rust = any(f.endswith(".rs") for f in files)
        res["rust"] = rust
        if not a.no_tests:
            res["tests"] = run_tests(wt, related_tests(wt, files))
        res["checks"] = {}
        for c in checks:
            res["checks"][c] = {}
            for s in a.seeds.split(","):
                env2 = dict(os.environ, VERIF_REPO=wt)
                rc, o = sh([os.path.join(ROOT, "check"), c, "--tier", "quick",
                            "--seed", s, "--jobs", a.jobs], cwd=ROOT, env=env2,
                           timeout=3600)
                sigs = [ln.strip()[len("signature="):] for ln in o.splitlines()
                        if ln.strip().startswith("signature=")]
                res["checks"][c][s] = {"rc": rc, "signatures": sigs[:4],
                                       "summary": o.strip().splitlines()[-1][:200]
                                       if o.strip() else ""}
        res["confirmed"] = (rc0 == 0 and rc1 != 0 and
                            not (res.get("tests") or {}).get("regressions"))
        res["caught"] = any(v["rc"] == 1 for c in res["checks"].values()
                            for v in c.values())
        print(json.dumps(res, indent=1)[:3000])
        if a.keep and res["confirmed"]:
            dst = os.path.join(ROOT, "seeded", name)
            os.makedirs(dst, exist_ok=True)
            for fn in ("patch.diff", "demo.py"):
                if os.path.abspath(d) != os.path.abspath(dst):
                    shutil.copy(os.path.join(d, fn), os.path.join(dst, fn))
            if "evaluation" in meta and os.path.abspath(d) == os.path.abspath(dst):
                meta.setdefault("earlier_evaluations", []).append(
                    meta["evaluation"])
            meta["evaluation"] = {k: res[k] for k in (
                "demo_clean_rc", "demo_patched_rc", "files", "tests", "checks",
                "caught") if k in res}
            meta["ran"] = ("tools/seedeval.py: demo on clean and patched "
                           "scratch worktree, related pinned test modules vs "
                           "BASELINE.json, ./check <ID> --tier quick with "
                           "VERIF_REPO=<patched worktree>")
            with open(os.path.join(dst, "meta.json"), "w") as f:
                json.dump(meta, f, indent=1)
    finally:
        sh([os.path.join(ROOT, "tools/mutant.sh"), "rm", mut])
    return 0


if __name__ == "__main__":
    sys.exit(main())
