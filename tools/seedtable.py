#!/usr/bin/env python3
"""Print a markdown table of /verif/seeded/*/meta.json: what each independently seeded change breaks,
what it needs to manifest, and which check signatures caught it."""
import glob, json, os
rows = []
for p in sorted(glob.glob(os.path.join(os.path.dirname(__file__), "..", "seeded", "*", "meta.json"))):
    m = json.load(open(p)); name = os.path.basename(os.path.dirname(p))
    ev = m.get("evaluation", {})
    sigs = []
    for c, cs in ev.get("checks", {}).items():
        for s, v in cs.items():
            for g in v.get("signatures", []):
                if g not in sigs: sigs.append(g)
    caught = ev.get("caught")
    note = m.get("note", "")
    needs = (m.get("needs") or "").replace("\n", " ").replace("|", "/")
    rows.append("| %s | %s | %s | %s |" % (name, ", ".join(m.get("files") or ev.get("files") or []), needs[:160],
                (("caught after strengthening (%s): " % ev["first_result"] if ev.get("first_result") else "caught: ") +
                 "; ".join(s.split("/", 1)[-1] for s in sigs[:2] or sum(
                     [v[1] if isinstance(v, list) else v.get("signatures", [])
                      for v in ev.get("after_strengthening", {}).get("checks", {}).get(name[:3], {}).values()], [])[:1]))
                if caught else ("MISSED" + (" - " + note if note else ""))))
print("| seeded change | files | needs | result (quick tier, seeds 1-2) |\n|---|---|---|---|")
print("\n".join(rows))
