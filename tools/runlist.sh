#!/bin/bash
# tools/runlist.sh <tier> <seed> <ID>... : run the given checks once each (per-check time limit 30 min), one status line per check
tier=$1; seed=$2; shift 2
cd "$(dirname "$0")/.."
for id in "$@"; do
  start=$(date +%s)
  out=$(timeout 1800 ./check $id --tier $tier --seed $seed 2>&1)
  rc=$?
  echo "$id rc=$rc $(( $(date +%s) - start ))s $(echo "$out" | grep -E '^(OK|FAILED|ERROR)' | tail -1 | cut -c1-160)"
  if [ $rc -ne 0 ]; then echo "$out" | grep -E "^(VIOLATION|  signature|HARNESS)" | head -8 | cut -c1-300; fi
done
echo ALLDONE
