#!/bin/bash
# tools/runall.sh [tier] [seed] : run every registered check once, print a one-line status per check
tier=${1:-quick}; seed=${2:-1}
cd "$(dirname "$0")/.."
for id in $(python3 -c "
import json; print(' '.join(c['property_id'] for c in json.load(open('MANIFEST.json'))['checks']))"); do
  start=$(date +%s)
  out=$(./check $id --tier $tier --seed $seed 2>&1)
  rc=$?
  echo "$id rc=$rc $(( $(date +%s) - start ))s $(echo "$out" | grep -E '^(OK|FAILED|ERROR)' | tail -1 | cut -c1-160)"
  if [ $rc -ne 0 ]; then echo "$out" | grep -E "^(VIOLATION|  signature|HARNESS)" | head -6 | cut -c1-300; fi
done
echo ALLDONE
