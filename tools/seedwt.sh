#!/bin/bash
# tools/seedwt.sh new <name> | rm <name>  : scratch worktree of /repo HEAD under /tmp/seed for independent breakage authors
set -e
name="$2"; wt="/tmp/seed/$name"
case "$1" in
  new) mkdir -p /tmp/seed; git -C /repo worktree add --detach "$wt" HEAD >/dev/null 2>&1
       for f in /repo/breezy/*.so; do cp "$f" "$wt/breezy/"; done; echo "$wt";;
  rm)  git -C /repo worktree remove --force "$wt" 2>/dev/null || rm -rf "$wt"; git -C /repo worktree prune;;
esac
