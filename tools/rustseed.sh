#!/bin/bash
# tools/rustseed.sh <seed dir> <ID> : evaluate a seeded change that touches Rust sources in a scratch
# worktree with its own copy of the cargo target dir (never touches /repo).
d=$1; id=$2; name=rust-$(basename $d)
wt=$(/verif/tools/mutant.sh new $name)
cp -a /repo/target/. $wt/target/ 2>/dev/null
rm -f $wt/target/.verif-stamp
cd $wt && PYTHONPATH=$wt /venv/bin/python $d/demo.py > /dev/null 2>&1; echo "demo clean rc=$?"
git -C $wt apply $d/patch.diff || { echo "patch does not apply"; /verif/tools/mutant.sh rm $name; exit 2; }
cd /verif && VERIF_REPO=$wt ./check setup
cd $wt && PYTHONPATH=$wt /venv/bin/python $d/demo.py > /dev/null 2>&1; echo "demo patched rc=$?"
for s in 1 2; do cd /verif && VERIF_REPO=$wt ./check $id --seed $s --jobs 4 2>&1 | grep -E "^(VIOLATION|  signature|OK|FAILED|ERROR)" | head -4; done
/verif/tools/mutant.sh rm $name
