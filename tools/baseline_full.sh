#!/bin/bash
# Exact pinned-suite command (serial, guard off), junit to $1, then compare with BASELINE.json
out=${1:-/dev/shm/baseline_full.xml}
cd /repo && env -u BREEZY_VERIF /venv/bin/python -m pytest -ra -q -p no:cacheprovider --timeout=900 --continue-on-collection-errors --junitxml=$out > ${out%.xml}.log 2>&1
python3 - "$out" <<'PY'
import json, sys, xml.etree.ElementTree as ET
b = json.load(open('/root/.vp/BASELINE.json')); stable = set(b['stable_pass'])
passed, seen = set(), set()
for tc in ET.parse(sys.argv[1]).getroot().iter('testcase'):
    tid = (tc.get('classname') or '') + '::' + (tc.get('name') or ''); seen.add(tid)
    if tc.find('failure') is None and tc.find('error') is None and tc.find('skipped') is None: passed.add(tid)
reg = sorted(stable - passed)
print('seen', len(seen), 'stable', len(stable), 'stable-not-passed', len(reg))
for t in reg[:60]: print('  REGRESSION', t)
PY
