"""What a property module sees of the framework.

A property module (vf/props/cNN.py) defines

    PROPERTY = "C18"
    LEVEL = "exploration"            # evidence level
    RULE = "..."                     # generator + non-triviality rule, in words
    ASSUMPTIONS = ["..."]
    TECHNIQUE = "..."
    def kinds(tier): return [Kind(...), ...]

Cases are JSON-serialisable values (dict / list / str / int / bool / None;
bytes are carried as latin-1 strings via b2s / s2b).
"""

import dataclasses
from typing import Any, Callable, Optional


@dataclasses.dataclass
class Outcome:
    status: str                    # ok | trivial | rejected | violation
    label: Optional[str] = None    # non-triviality class (None = trivial)
    signature: Optional[str] = None
    detail: Any = None
    reason: Optional[str] = None   # for rejected
    n: int = 1                     # evaluations this outcome stands for (blocks)
    nt: Optional[int] = None       # distinct non-trivial cases in the block


def ok(label=None, n=1, nt=None):
    """The property held on this case; label names its non-trivial class.

    A case may be a *block* of n raw inputs enumerated inside run() (cheap pure
    functions over big finite domains): pass n = inputs evaluated and nt = how
    many of them were non-trivial (distinct by construction)."""
    return Outcome("ok", label=label, n=n, nt=nt)


def trivial():
    return Outcome("trivial")


def rejected(reason, label=None):
    """The subject refused the input in a documented way (an outcome)."""
    return Outcome("rejected", reason=reason, label=label)


def violation(signature, detail=None, label=None):
    """The property is broken on this case.

    signature: short stable id of the failing class, "<ID>/<what>".
    """
    return Outcome("violation", signature=signature, detail=detail,
                   label=label)


@dataclasses.dataclass
class Kind:
    name: str
    run: Callable                 # run(case, env) -> Outcome
    strategy: Any = None          # hypothesis strategy (or callable(tier))
    enumerate: Optional[Callable] = None  # enumerate(tier) -> iterable of cases
    examples: Any = None          # {"quick": n, "thorough": n} total budget
    exhaustive: bool = False      # enumerate covers a finite space completely
    setup: Optional[Callable] = None      # setup(env) once per shard
    teardown: Optional[Callable] = None
    max_shards: Optional[int] = None
    hash_cases: bool = True       # False: enumeration is distinct by construction
    shrink_s: Any = None          # {"quick": s, "thorough": s}


def b2s(b):
    return b.decode("latin-1")


def s2b(s):
    return s.encode("latin-1")


class Inconclusive(Exception):
    """The case cannot be judged (e.g. the subject did not repeat the recorded
    operation sequence on the second run): counted, never a violation."""


class Expect(Exception):
    """Raised by oracle helpers: Expect(signature, detail) -> violation."""

    def __init__(self, signature, detail=None):
        Exception.__init__(self, signature)
        self.signature = signature
        self.detail = detail


def check(cond, signature, detail=None):
    if not cond:
        raise Expect(signature, detail)
