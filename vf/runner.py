"""Search driver: shards, Hypothesis wiring, violation capture, evidence."""

import hashlib
import importlib
import json
import math
import os
import signal
import subprocess
import sys
import time
import traceback

from . import env as venv
from .api import Expect, Inconclusive, Kind, Outcome

ROOT = venv.VERIF_ROOT
SITE = os.path.join(sys.prefix, "lib")


def load_property(pid):
    return importlib.import_module("vf.props." + pid.lower())


# ---------------------------------------------------------------- findings

def load_findings():
    p = os.path.join(ROOT, "known_findings.json")
    if not os.path.exists(p):
        return {}
    with open(p) as f:
        data = json.load(f)
    out = {}
    entries = list(data.get("findings", []))
    # per-property staging files written while a check is being developed;
    # merged into known_findings.json (tools/merge_findings.py) before release
    d = os.path.join(ROOT, "known_findings.d")
    if os.path.isdir(d):
        for fn in sorted(os.listdir(d)):
            if fn.endswith(".json"):
                with open(os.path.join(d, fn)) as f:
                    entries.extend(json.load(f).get("findings", []))
    for e in entries:
        if e.get("status") == "open":
            out[e["signature"]] = e
    return out


# ---------------------------------------------------------------- helpers

def canon(case):
    return json.dumps(case, sort_keys=True, separators=(",", ":"),
                      ensure_ascii=True, default=_default)


def _default(o):
    if isinstance(o, (bytes, bytearray)):
        return bytes(o).decode("latin-1")
    if isinstance(o, (set, frozenset)):
        return sorted(o)
    if isinstance(o, tuple):
        return list(o)
    return repr(o)


def case_hash(case):
    return hashlib.sha1(canon(case).encode()).hexdigest()[:16]


def jsonable(x, limit=6000):
    try:
        s = canon(x)
    except Exception:
        s = repr(x)
    if len(s) > limit:
        return {"truncated": s[:limit], "length": len(s)}
    return json.loads(s)


class CaseTimeout(BaseException):
    pass


def _alarm(signum, frame):
    raise CaseTimeout()


def classify_exception(pid, exc):
    """-> ("violation", signature, detail) or ("harness", None, detail)."""
    tb = traceback.extract_tb(exc.__traceback__)
    repo = os.path.abspath(venv.REPO) + os.sep
    vdir = os.path.abspath(os.path.join(ROOT, "vf")) + os.sep
    subject = None
    third = None
    for fr in tb:
        fn = os.path.abspath(fr.filename)
        if fn.startswith(repo):
            subject = fr
        elif "site-packages" in fn and not fn.startswith(vdir):
            base = fn.split("site-packages" + os.sep, 1)[1].split(os.sep)[0]
            if base not in ("hypothesis", "_hypothesis_pytestplugin.py"):
                third = fr
    detail = "".join(traceback.format_exception(type(exc), exc,
                                                 exc.__traceback__))[-3000:]
    fr = subject or third
    if fr is None:
        return "harness", None, detail
    fn = os.path.abspath(fr.filename)
    if fn.startswith(repo):
        rel = fn[len(repo):]
    else:
        rel = fn.split("site-packages" + os.sep, 1)[1]
    sig = "%s/exc:%s@%s:%s" % (pid, type(exc).__name__, rel, fr.name)
    return "violation", sig, detail


# ---------------------------------------------------------------- shard

class Shard:
    def __init__(self, mod, tier, seed, shard, nshards, only_kind=None):
        self.mod = mod
        self.pid = mod.PROPERTY
        self.tier = tier
        self.seed = seed
        self.shard = shard
        self.nshards = nshards
        self.only_kind = only_kind
        self.findings = load_findings()
        self.env = venv.CaseEnv(tier, seed, shard)
        self.frag = {
            "evaluations": 0, "hashes": [], "extra_distinct": 0,
            "labels": {}, "rejected": {}, "statuses": {},
            "known": {}, "violations": [], "harness": [],
            "samples": [], "inconclusive": 0, "kinds": {},
            "exhaustive_kinds": [], "regress": 0,
        }
        self._hashes = set()
        self._sample_best = {}
        self.case_timeout = int(os.environ.get(
            "VERIF_CASE_TIMEOUT", getattr(mod, "CASE_TIMEOUT", 300)))

    # -- one case ---------------------------------------------------------
    def run_case(self, kind, case, from_regress=False):
        """Returns an Outcome (status 'violation' only for unknown signatures
        are raised by callers); records everything in the fragment."""
        fr = self.frag
        t0 = time.time()
        out = None
        old = signal.signal(signal.SIGALRM, _alarm)
        signal.alarm(self.case_timeout)
        try:
            try:
                out = kind.run(case, self.env)
                if out is None:
                    out = Outcome("ok")
            except Expect as e:
                out = Outcome("violation", signature=e.signature,
                              detail=e.detail)
            except CaseTimeout:
                tsig = getattr(self.mod, "TIMEOUT_SIGNATURE", None)
                if tsig:
                    # the property module declares that a case of its (small)
                    # size that does not finish is a defect of the subject
                    out = Outcome("violation", signature=tsig,
                                  detail="no result after %d s" %
                                  self.case_timeout)
                else:
                    fr["inconclusive"] += 1
                    out = Outcome("inconclusive")
            except Inconclusive:
                fr["inconclusive"] += 1
                out = Outcome("inconclusive")
            except BaseException as e:  # noqa: BLE001 - classified below
                # BaseException: pyo3's PanicException (a Rust panic in an
                # extension module) derives from it and must not kill the shard
                if isinstance(e, (KeyboardInterrupt, SystemExit)):
                    raise
                what, sig, detail = classify_exception(self.pid, e)
                if what == "harness":
                    fr["harness"].append({"kind": kind.name,
                                          "case": jsonable(case),
                                          "detail": detail})
                    out = Outcome("harness", detail=detail)
                else:
                    out = Outcome("violation", signature=sig, detail=detail)
        finally:
            signal.alarm(0)
            signal.signal(signal.SIGALRM, old)
            try:
                self.env.end_case()
            except Exception:
                pass
        n_rep = max(1, int(getattr(out, "n", 1) or 1))
        fr["evaluations"] += n_rep
        k = fr["kinds"].setdefault(kind.name, {"evaluations": 0,
                                               "nontrivial": 0})
        k["evaluations"] += n_rep
        fr["statuses"][out.status] = fr["statuses"].get(out.status, 0) + 1
        if out.status == "rejected":
            r = out.reason or "?"
            fr["rejected"][r] = fr["rejected"].get(r, 0) + 1
        if out.label is not None and out.status in ("ok", "rejected",
                                                    "violation"):
            nt_rep = getattr(out, "nt", None)
            fr["labels"][out.label] = fr["labels"].get(out.label, 0) + (
                nt_rep if nt_rep is not None else 1)
            k["nontrivial"] += nt_rep if nt_rep is not None else 1
            if nt_rep is not None:
                fr["extra_distinct"] += nt_rep
            elif kind.hash_cases:
                h = case_hash(case)
                if h not in self._hashes:
                    self._hashes.add(h)
            else:
                fr["extra_distinct"] += 1
            self._sample(kind, case, out)
        if out.status == "violation":
            known = self.findings.get(out.signature)
            if known is not None:
                e = fr["known"].setdefault(out.signature, {
                    "count": 0, "what": known.get("what", ""),
                    "example": jsonable(case, 1500)})
                e["count"] += 1
                out.status = "known"
        out.wall = time.time() - t0
        return out

    def _sample(self, kind, case, out):
        key = (kind.name, out.label)
        size = len(canon(case))
        cur = self._sample_best.get(key)
        if cur is None:
            self._sample_best[key] = [size, case, out.status, size, case]
        else:
            if size > cur[3]:
                cur[3] = size
                cur[4] = case

    # -- kinds ------------------------------------------------------------
    def run_all(self):
        kinds = self.mod.kinds(self.tier)
        if self.shard == 0:
            self.run_regress(kinds)
        for kind in kinds:
            if self.only_kind and kind.name != self.only_kind:
                continue
            n = self.nshards
            if kind.max_shards:
                n = min(n, kind.max_shards)
            if self.shard >= n:
                continue
            if kind.setup:
                kind.setup(self.env)
            try:
                if kind.enumerate is not None:
                    self.run_enumerated(kind, n)
                else:
                    self.run_hypothesis(kind, n)
            finally:
                if kind.teardown:
                    try:
                        kind.teardown(self.env)
                    except Exception:
                        pass
        self.finish()

    def run_regress(self, kinds):
        d = os.path.join(ROOT, "regress", self.pid)
        if not os.path.isdir(d):
            return
        by = {k.name: k for k in kinds}
        for fn in sorted(os.listdir(d)):
            if not fn.endswith(".json"):
                continue
            with open(os.path.join(d, fn)) as f:
                rec = json.load(f)
            kind = by.get(rec.get("kind"))
            if kind is None:
                continue
            if kind.setup:
                kind.setup(self.env)
            try:
                out = self.run_case(kind, rec["case"], from_regress=True)
            finally:
                if kind.teardown:
                    kind.teardown(self.env)
            self.frag["regress"] += 1
            if out.status == "violation":
                self.add_violation(kind, rec["case"], out, "regress:" + fn)

    def add_violation(self, kind, case, out, origin):
        self.frag["violations"].append({
            "kind": kind.name, "case": json.loads(canon(case)),
            "signature": out.signature,
            "detail": out.detail if isinstance(out.detail, str)
            else jsonable(out.detail, 4000),
            "origin": origin})

    def run_enumerated(self, kind, n):
        it = kind.enumerate(self.tier)
        seen_sigs = set()
        for i, case in enumerate(it):
            if i % n != self.shard:
                continue
            out = self.run_case(kind, case)
            if out.status == "violation" and out.signature not in seen_sigs:
                seen_sigs.add(out.signature)
                self.add_violation(kind, case, out, "enumerated")
                if len(seen_sigs) >= 5:
                    return
            if out.status == "harness":
                return
        if kind.exhaustive:
            self.frag["exhaustive_kinds"].append(kind.name)

    def run_hypothesis(self, kind, n):
        import hypothesis
        from hypothesis import HealthCheck, Phase, given, settings
        total = (kind.examples or {}).get(self.tier, 100)
        per = max(1, int(math.ceil(total / float(n))))
        strat = kind.strategy(self.tier) if callable(kind.strategy) \
            and not hasattr(kind.strategy, "example") else kind.strategy
        shrink_budget = (kind.shrink_s or {}).get(
            self.tier, 40 if self.tier == "quick" else 240)
        state = {"best": None, "t_first": None, "stop": False,
                 "harness": False}
        shard = self

        class Found(Exception):
            pass

        def test(case):
            if state["stop"]:
                return
            if state["t_first"] is not None and \
                    time.time() - state["t_first"] > shrink_budget:
                state["stop"] = True
                return
            out = shard.run_case(kind, case)
            if out.status == "harness":
                state["harness"] = True
                state["stop"] = True
                return
            if out.status == "violation":
                size = len(canon(case))
                if state["t_first"] is None:
                    state["t_first"] = time.time()
                    state["sig"] = out.signature
                # shrink towards the same failure class
                if out.signature == state.get("sig"):
                    if state["best"] is None or size <= state["best"][0]:
                        state["best"] = (size, json.loads(canon(case)), out)
                    raise Found(out.signature)

        phases = [Phase.generate, Phase.shrink]
        st = settings(max_examples=per, deadline=None, database=None,
                      derandomize=False, report_multiple_bugs=False,
                      suppress_health_check=list(HealthCheck),
                      phases=phases, print_blob=False,
                      verbosity=hypothesis.Verbosity.quiet)
        seedval = (self.seed * 1000003 + self.shard * 7919 +
                   (int(hashlib.sha1(kind.name.encode()).hexdigest()[:6], 16)
                    )) & 0x7FFFFFFF
        wrapped = hypothesis.seed(seedval)(st(given(strat)(test)))
        try:
            wrapped()
        except Found:
            pass
        except CaseTimeout:
            raise
        except BaseException as e:  # Flaky, Unsatisfiable, etc.
            if state["best"] is None:
                name = type(e).__name__
                if name in ("Unsatisfiable",):
                    self.frag["harness"].append({
                        "kind": kind.name, "case": None,
                        "detail": "hypothesis: " + repr(e)})
                elif name in ("Flaky", "FlakyFailure", "FlakyStrategyDefinition"):
                    self.frag["harness"].append({
                        "kind": kind.name, "case": None,
                        "detail": "hypothesis flaky: " + repr(e)[:2000]})
                else:
                    self.frag["harness"].append({
                        "kind": kind.name, "case": None,
                        "detail": "".join(traceback.format_exception(
                            type(e), e, e.__traceback__))[-3000:]})
        if state["best"] is not None:
            size, case, out = state["best"]
            self.add_violation(kind, case, out, "hypothesis")

    def finish(self):
        fr = self.frag
        fr["hashes"] = sorted(self._hashes)
        samples = []
        for (kname, label), cur in sorted(self._sample_best.items(),
                                          key=lambda kv: str(kv[0])):
            samples.append({"kind": kname, "label": label,
                            "case": jsonable(cur[1], 3000)})
            if cur[4] is not cur[1]:
                samples.append({"kind": kname, "label": label,
                                "largest": True,
                                "case": jsonable(cur[4], 3000)})
        fr["samples"] = samples[:24]


def shard_main(pid, tier, seed, shard, nshards, frag_path, only_kind=None):
    venv.bootstrap()
    mod = load_property(pid)
    # the subject sometimes writes debris into the current directory
    # (e.g. ",,bogus-inv" from Repository.check): keep it out of /verif
    cwd = os.path.join(venv.scratch_root(), "cwd")
    os.makedirs(cwd, exist_ok=True)
    os.chdir(cwd)
    s = Shard(mod, tier, seed, shard, nshards, only_kind)
    try:
        s.run_all()
    except CaseTimeout:
        s.frag["inconclusive"] += 1
        s.finish()
    except Exception as e:  # noqa: BLE001
        s.frag["harness"].append({"kind": None, "case": None,
                                  "detail": "".join(traceback.format_exception(
                                      type(e), e, e.__traceback__))[-4000:]})
        s.finish()
    tmp = frag_path + ".tmp"
    with open(tmp, "w") as f:
        json.dump(s.frag, f)
    os.replace(tmp, frag_path)
    return 0


# ---------------------------------------------------------------- parent

def default_jobs(tier):
    j = os.environ.get("VERIF_JOBS")
    if j:
        return max(1, int(j))
    return 8 if tier == "quick" else 16


def write_replay(pid, v, seed, tier):
    d = os.path.join(ROOT, "replays", pid)
    if os.environ.get("VERIF_REPO"):
        # sensitivity experiments on scratch copies: keep their replays apart
        d = os.path.join(ROOT, "replays", "_scratch", pid)
    os.makedirs(d, exist_ok=True)
    h = case_hash([v["kind"], v["case"]])
    p = os.path.join(d, h + ".json")
    with open(p, "w") as f:
        json.dump({"property": pid, "kind": v["kind"], "case": v["case"],
                   "signature": v["signature"], "detail": v["detail"],
                   "seed": seed, "tier": tier, "origin": v.get("origin")},
                  f, indent=1, sort_keys=True)
    return p


def parent_main(pid, tier, seed, jobs=None, only_kind=None):
    t0 = time.time()
    pid = pid.upper()
    try:
        venv.ensure_built()
    except venv.HarnessError as e:
        print("HARNESS-ERROR property=%s %s" % (pid, e))
        return 2
    mod = load_property(pid)
    jobs = jobs or default_jobs(tier)
    maxj = getattr(mod, "MAX_JOBS", None)
    if maxj:
        jobs = min(jobs, maxj)
    fragdir = os.path.join(venv.scratch_root(), "frag")
    os.makedirs(fragdir, exist_ok=True)
    timeout = int(os.environ.get("VERIF_SHARD_TIMEOUT",
                                 "1500" if tier == "quick" else "14400"))
    procs = []
    for i in range(jobs):
        fp = os.path.join(fragdir, "%d.json" % i)
        cmd = [sys.executable, "-m", "vf.cli", pid, "--tier", tier, "--seed",
               str(seed), "--shard", str(i), "--nshards", str(jobs),
               "--frag", fp]
        if only_kind:
            cmd += ["--kind", only_kind]
        logf = open(os.path.join(fragdir, "%d.log" % i), "w")
        procs.append((i, fp, subprocess.Popen(cmd, cwd=ROOT, stdout=logf,
                                              stderr=subprocess.STDOUT),
                      logf))
    frags = []
    problems = []
    inconclusive_shards = 0
    deadline = time.time() + timeout
    for i, fp, p, logf in procs:
        try:
            p.wait(timeout=max(1, deadline - time.time()))
        except subprocess.TimeoutExpired:
            p.kill()
            p.wait()
            inconclusive_shards += 1
        logf.close()
        if os.path.exists(fp):
            with open(fp) as f:
                frags.append(json.load(f))
        elif p.returncode not in (None, -9):
            with open(logf.name) as f:
                problems.append("shard %d exited %s: %s" % (
                    i, p.returncode, f.read()[-3000:]))
        elif p.returncode == -9 and not os.path.exists(fp):
            pass
    return finish_parent(mod, pid, tier, seed, frags, problems,
                         inconclusive_shards, t0, partial=bool(only_kind))


def finish_parent(mod, pid, tier, seed, frags, problems, inconclusive_shards,
                  t0, partial=False):
    ev = 0
    hashes = set()
    extra = 0
    labels = {}
    rejected = {}
    statuses = {}
    kinds = {}
    known = {}
    violations = []
    harness = list({"detail": p} for p in problems)
    samples = []
    inconclusive = 0
    regress = 0
    exhaustive_kinds = {}
    for fr in frags:
        ev += fr["evaluations"]
        hashes.update(fr["hashes"])
        extra += fr["extra_distinct"]
        for k, v in fr["labels"].items():
            labels[k] = labels.get(k, 0) + v
        for k, v in fr["rejected"].items():
            rejected[k] = rejected.get(k, 0) + v
        for k, v in fr["statuses"].items():
            statuses[k] = statuses.get(k, 0) + v
        for k, v in fr["kinds"].items():
            e = kinds.setdefault(k, {"evaluations": 0, "nontrivial": 0})
            e["evaluations"] += v["evaluations"]
            e["nontrivial"] += v["nontrivial"]
        for k, v in fr["known"].items():
            e = known.setdefault(k, {"count": 0, "what": v["what"],
                                     "example": v["example"]})
            e["count"] += v["count"]
        violations.extend(fr["violations"])
        harness.extend(fr["harness"])
        inconclusive += fr["inconclusive"]
        regress += fr.get("regress", 0)
        for k in fr["exhaustive_kinds"]:
            exhaustive_kinds[k] = exhaustive_kinds.get(k, 0) + 1
        samples.extend(fr["samples"])
    # keep a small, varied sample list
    seen = set()
    keep = []
    for s in samples:
        key = (s["kind"], s["label"], s.get("largest", False))
        if key in seen:
            continue
        seen.add(key)
        keep.append(s)
    samples = keep[:16]
    distinct = len(hashes) + extra
    n_expected_shards = {}
    all_kinds = mod.kinds(tier)
    fully_exhaustive = bool(all_kinds) and all(
        k.exhaustive for k in all_kinds) and not violations
    wall = time.time() - t0
    # distinct violations by signature
    by_sig = {}
    for v in violations:
        by_sig.setdefault(v["signature"], v)
    coverage = {
        "evaluations": ev,
        "distinct_nontrivial": distinct,
        "rule": mod.RULE,
        "samples": samples if samples else [],
        "labels": labels,
        "kinds": kinds,
        "outcomes": statuses,
        "rejected": rejected,
        "known_findings_hit": {k: v["count"] for k, v in known.items()},
        "inconclusive_cases": inconclusive,
        "inconclusive_shards": inconclusive_shards,
        "regress_cases_replayed": regress,
        "exhaustive": fully_exhaustive,
        "exhaustive_kinds": sorted(
            k.name for k in all_kinds if k.exhaustive and
            exhaustive_kinds.get(k.name, 0) > 0),
        "shards": len(frags),
    }
    evidence = {
        "property_id": pid,
        "tier": tier,
        "seed": int(seed),
        "level": mod.LEVEL,
        "coverage": coverage,
        "assumptions": list(getattr(mod, "ASSUMPTIONS", [])),
        "wall_s": round(wall, 2),
        "violations": len(by_sig),
    }
    rc = 0
    lines = []
    for sig, v in sorted(known.items()):
        lines.append("KNOWN-FINDING: property=%s %s (%s; %d cases this run)" % (
            pid, sig, v["what"], v["count"]))
    if harness:
        rc = 2
        for h in harness[:3]:
            lines.append("HARNESS-ERROR property=%s %s" % (
                pid, str(h.get("detail"))[-1500:]))
    if by_sig:
        rc = 1
        for sig, v in sorted(by_sig.items()):
            path = write_replay(pid, v, seed, tier)
            lines.append("VIOLATION property=%s replay=%s" % (pid, path))
            lines.append("  signature=%s" % sig)
            d = v["detail"] if isinstance(v["detail"], str) else json.dumps(
                v["detail"])
            lines.append("  detail=%s" % (d or "")[-800:].replace("\n", "\n    "))
    if rc == 0:
        floor = max(2, int(getattr(mod, "NONTRIVIAL_FLOOR", {}).get(tier, 2)))
        if partial:
            floor = 2          # --kind runs exercise part of the property only
        if ev < 1 or distinct < floor or not samples:
            rc = 2
            lines.append("HARNESS-ERROR property=%s too few non-trivial cases "
                         "(evaluations=%d distinct_nontrivial=%d floor=%d)" % (
                             pid, ev, distinct, floor))
    # runs against a scratch copy of the repository (sensitivity experiments,
    # VERIF_REPO) or on part of a property (--kind) must not replace the
    # evidence of the real check
    edir = "evidence"
    if os.environ.get("VERIF_REPO") or partial:
        edir = os.path.join("replays", "_scratch_evidence")
    os.makedirs(os.path.join(ROOT, edir), exist_ok=True)
    ep = os.path.join(ROOT, edir, pid + ".json")
    err = validate_evidence(evidence)
    if err and rc == 0:
        rc = 2
        lines.append("HARNESS-ERROR property=%s evidence invalid: %s" % (pid,
                                                                       err))
    with open(ep + ".tmp", "w") as f:
        json.dump(evidence, f, indent=1, sort_keys=True)
    os.replace(ep + ".tmp", ep)
    for ln in lines:
        print(ln)
    print("%s property=%s tier=%s seed=%s evaluations=%d distinct_nontrivial=%d "
          "known=%d inconclusive=%d/%d wall=%.1fs" % (
              {0: "OK", 1: "FAILED", 2: "ERROR"}[rc], pid, tier, seed, ev,
              distinct, len(known), inconclusive, inconclusive_shards, wall))
    return rc


def validate_evidence(evidence):
    schema_p = "/root/.vp/EVIDENCE.schema.json"
    deps = os.path.join(ROOT, ".deps")
    if os.path.isdir(deps) and deps not in sys.path:
        sys.path.append(deps)  # last: never shadows /venv's own packages
    try:
        import jsonschema
    except Exception:
        jsonschema = None
    if jsonschema is not None and os.path.exists(schema_p):
        with open(schema_p) as f:
            schema = json.load(f)
        try:
            jsonschema.validate(evidence, schema)
        except Exception as e:  # noqa: BLE001
            return str(e)[:500]
        return None
    c = evidence["coverage"]
    if c["evaluations"] < 1 or c["distinct_nontrivial"] < 2:
        return "counts below schema minimum"
    if not isinstance(c["samples"], list) or not c["samples"]:
        return "no samples"
    return None


def replay_main(pid, path):
    pid = pid.upper()
    try:
        venv.ensure_built()
    except venv.HarnessError as e:
        print("HARNESS-ERROR property=%s %s" % (pid, e))
        return 2
    venv.bootstrap()
    mod = load_property(pid)
    with open(path) as f:
        rec = json.load(f)
    tier = rec.get("tier", "quick")
    s = Shard(mod, tier, rec.get("seed", 0), 0, 1)
    by = {k.name: k for k in mod.kinds(tier)}
    kind = by[rec["kind"]]
    if kind.setup:
        kind.setup(s.env)
    try:
        out = s.run_case(kind, rec["case"])
    finally:
        if kind.teardown:
            kind.teardown(s.env)
    if out.status == "violation":
        print("VIOLATION property=%s replay=%s" % (pid, os.path.abspath(path)))
        print("  signature=%s" % out.signature)
        print("  detail=%s" % str(out.detail)[-1500:])
        return 1
    if out.status == "known":
        print("KNOWN-FINDING: property=%s %s" % (pid, out.signature))
        return 0
    if out.status == "harness":
        print("HARNESS-ERROR property=%s %s" % (pid, out.detail))
        return 2
    print("OK property=%s replay held: status=%s label=%s" % (
        pid, out.status, out.label))
    return 0
