import argparse
import os
import sys


def main(argv=None):
    ap = argparse.ArgumentParser(prog="check")
    ap.add_argument("property")
    ap.add_argument("--tier", default=os.environ.get("VERIF_TIER") or "quick",
                    choices=["quick", "thorough"])
    ap.add_argument("--seed", type=int,
                    default=int(os.environ.get("VERIF_SEED") or "1"))
    ap.add_argument("--jobs", type=int, default=None)
    ap.add_argument("--replay")
    ap.add_argument("--kind")
    ap.add_argument("--shard", type=int)
    ap.add_argument("--nshards", type=int)
    ap.add_argument("--frag")
    a = ap.parse_args(argv)
    from . import runner
    if a.property == "setup":
        from . import env
        try:
            env.ensure_built(verbose=True)
        except env.HarnessError as e:
            print("HARNESS-ERROR", e)
            return 2
        return 0
    if a.shard is not None:
        return runner.shard_main(a.property.upper(), a.tier, a.seed, a.shard,
                                 a.nshards, a.frag, a.kind)
    if a.replay:
        return runner.replay_main(a.property, a.replay)
    return runner.parent_main(a.property, a.tier, a.seed, a.jobs, a.kind)


if __name__ == "__main__":
    try:
        rc = main()
    except SystemExit:
        raise
    except BaseException:  # noqa: BLE001
        import traceback
        traceback.print_exc()
        print("HARNESS-ERROR unexpected exception in the runner")
        rc = 2
    sys.stdout.flush()
    sys.exit(rc)
