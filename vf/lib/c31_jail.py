"""Enforcing transport of C31 (safety interlock + observation point).

``JailTransport`` decorates the local transport of the served directory and
sits *underneath* everything the smart server builds (chroot, userdir filter,
request handlers).  Before any operation is handed to the real transport, every
path argument is resolved (abspath -> local path -> realpath) and compared with
the served directory of the current case:

* inside  -> logged, executed;
* outside -> recorded in ``STATE.escapes`` and REFUSED (PermissionDenied) - the
  attempt is the violation, it is never carried out, so a confinement bug in
  the subject (checks run as root) cannot touch the host.

Every callable attribute of the transport API is wrapped generically (all str
arguments and all strs inside list/tuple arguments are treated as relpaths),
so an operation added to the API later cannot bypass the check silently.
"""

import functools
import os

import dromedary
from dromedary import errors as te
from dromedary import urlutils
from dromedary.decorator import TransportDecorator

PREFIX = "vfjail+"


class JailState:
    def __init__(self, served, scratch):
        self.served = os.path.realpath(served)
        self.scratch = os.path.realpath(scratch)
        self.log = []        # (op, relpath, real path) of executed operations
        self.escapes = []    # (op, relpath, real path) of refused operations
        self.unresolvable = []
        self.ops = 0
        self.max_ops = 5000

    def inside(self, real):
        return real == self.served or real.startswith(self.served + "/")


STATE = None


def set_state(state):
    global STATE
    STATE = state


# attributes that never touch the file system / take no relpath
_PASSIVE = {
    "abspath", "relpath", "external_url", "is_readonly", "listable",
    "recommended_page_size", "get_segment_parameters",
    "set_segment_parameter", "_get_segment_parameters",
    "_set_segment_parameters", "_get_url_prefix", "_can_roundtrip_unix_modebits",
    "disconnect", "_report_activity", "_update_pb", "_get_total",
    "_coalesce_offsets", "_sort_expand_and_combine", "_translate_error",
    "_reuse_for", "_redirected_to", "_pump", "_iterate_over",
    "_seek_and_read", "local_abspath", "clone", "hooks",
    "_bytes_to_read_before_seek", "_max_readv_combine",
}


def _resolve(decorated, rel):
    url = decorated.abspath(rel)
    path = urlutils.local_path_from_url(url)
    return os.path.realpath(path)


def _check(self, op, rel):
    st = STATE
    if st is None:
        raise te.PermissionDenied(rel, "vf jail: no active case")
    st.ops += 1
    if st.ops > st.max_ops:
        # a request that never stops asking (seen under mutations: a prefix
        # creation loop): starve it, the case reports it as 'runaway'
        raise te.PermissionDenied(rel, "vf jail: operation budget exhausted")
    try:
        real = _resolve(self._decorated, rel)
    except ValueError as e:      # embedded NUL: no OS call can reach it
        st.unresolvable.append((op, rel, repr(e)))
        raise te.PermissionDenied(rel, "vf jail: unresolvable path") from e
    if not st.inside(real):
        st.escapes.append((op, rel, real))
        raise te.PermissionDenied(rel, "vf jail: outside the served directory")
    st.log.append((op, rel, real))


def _paths_in(value):
    if isinstance(value, str):
        yield value
    elif isinstance(value, (list, tuple)):
        for v in value:
            if isinstance(v, str):
                yield v
            elif isinstance(v, (list, tuple)):
                for w in v:
                    if isinstance(w, str):
                        yield w


def _wrap(name, inner):
    @functools.wraps(inner)
    def guarded(self, *args, **kwargs):
        seen = False
        for a in list(args) + list(kwargs.values()):
            for rel in _paths_in(a):
                seen = True
                _check(self, name, rel)
        if not seen:
            _check(self, name, ".")
        return inner(self, *args, **kwargs)
    guarded._vf_guarded = True
    return guarded


class JailTransport(TransportDecorator):
    """See module docstring."""

    def __init__(self, url, _decorated=None, _from_transport=None):
        TransportDecorator.__init__(self, url, _decorated, _from_transport)
        _check(self, "open", ".")

    @classmethod
    def _get_url_prefix(cls):
        return PREFIX

    def clone(self, offset=None):
        if offset is not None:
            _check(self, "clone", offset)
        return TransportDecorator.clone(self, offset)

    def local_abspath(self, relpath):
        # nothing above this transport may learn a local path and go around it
        raise te.NotLocalUrl(self.abspath(relpath))

    def external_url(self):
        # in-process only (keeps BzrServerFactory from deriving a local path
        # on its own: the harness passes get_base_path explicitly)
        raise te.InProcessTransport(self)


def _guard_all():
    for name in dir(JailTransport):
        if name.startswith("__") or name in _PASSIVE:
            continue
        attr = getattr(JailTransport, name)
        if not callable(attr) or isinstance(attr, type):
            continue
        raw = None
        for klass in JailTransport.__mro__:
            if name in klass.__dict__:
                raw = klass.__dict__[name]
                break
        if isinstance(raw, (classmethod, staticmethod)):
            continue
        if getattr(attr, "_vf_guarded", False):
            continue
        setattr(JailTransport, name, _wrap(name, attr))


_guard_all()
_registered = False


def register():
    global _registered
    if not _registered:
        dromedary.register_transport(PREFIX, JailTransport)
        _registered = True


def guarded_names():
    return sorted(n for n in dir(JailTransport)
                  if getattr(getattr(JailTransport, n, None), "_vf_guarded",
                             False))


def open_jail(served):
    """-> JailTransport on the served directory (STATE must be set)."""
    register()
    url = PREFIX + urlutils.local_path_to_url(served)
    if not url.endswith("/"):
        url += "/"
    return JailTransport(url)
