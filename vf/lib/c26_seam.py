"""Lock-directory helpers on top of vf/seam/ft.py, shared by C26 and C27.

* PlanController: a ft.Controller whose behaviour is a *plan*
  {operation index: action}; several faults, or faults followed by a crash,
  in one run (ft.Controller supports one crash or one fault).
* deterministic(): patches breezy.lockdir.rand_chars (per-actor counters) and
  breezy.lockdir.time (ft.VirtualTime) for the duration of a case, so that a
  case is a pure function of its JSON value.
* fabricated holder infos, readers for the on-disk lock state.
"""

import contextlib
import os

from vf.seam import ft

DEAD_PID = 0x7FFFFFF0      # > any pid_max: kill(pid, 0) is ESRCH for certain
ALIVE_PID = 1              # init is always there (kill(1,0) succeeds as root)


class PlanController(ft.Controller):
    """mode 'plan': plan = {idx: ("crash", when, partial) | ("fault", exc)}.

    exc is an exception class taking a path / message, or an instance.
    Operations are counted like in ft's crash/fault modes (mutating ones, plus
    reads when count_reads is set)."""

    def __init__(self, plan=None, count_reads=False, only_under=None):
        ft.Controller.__init__(self, mode="plan", count_reads=count_reads,
                               only_under=only_under)
        self.plan = dict(plan or {})
        self.fired_at = []

    def before(self, name, path, size=None, mutating=True):
        if not mutating and not self.count_reads:
            return None
        if self.only_under is not None and self.only_under not in path:
            return None
        if self.dead:
            raise ft.Crash("process is dead (%s %s)" % (name, path))
        idx = self.count
        self.count += 1
        self.log.append((idx, name, path, size))
        act = self.plan.get(idx)
        if act is None:
            return None
        self.fired = True
        self.fired_at.append((idx, name))
        if act[0] == "crash":
            when = act[1]
            if when == "before":
                self.dead = True
                raise ft.Crash("crash before op %d %s %s" % (idx, name, path))
            if when == "partial" and name in ft.NON_ATOMIC:
                return ("partial", act[2] or 0)
            return "after"
        exc = act[1]
        if isinstance(exc, type):
            raise exc(path)
        raise exc


@contextlib.contextmanager
def controller(c):
    """Install an already built Controller (ft.session builds its own)."""
    old = ft.CURRENT
    ft.CURRENT = c
    try:
        yield c
    finally:
        ft.CURRENT = old


@contextlib.contextmanager
def seam_off():
    """Operations of 'another process': not counted, not faulted, not dead."""
    old = ft.CURRENT
    ft.CURRENT = None
    try:
        yield
    finally:
        ft.CURRENT = old


class Names:
    """Replacement for breezy.lockdir.rand_chars: <actor><counter>, padded with
    'x' to the requested length; distinct on every call."""

    def __init__(self):
        self.n = {}

    def __call__(self, num):
        a = ft.current_actor() or "m"
        i = self.n.get(a, 0)
        self.n[a] = i + 1
        s = "%s%d" % (str(a).lower(), i)
        return (s + "x" * num)[:max(num, len(s))]


@contextlib.contextmanager
def deterministic(scheduler=None):
    """No real randomness / clock inside breezy.lockdir for this block."""
    from breezy import lockdir
    old_rand, old_time = lockdir.rand_chars, lockdir.time
    vt = ft.VirtualTime(scheduler)
    lockdir.rand_chars = Names()
    lockdir.time = vt
    try:
        yield vt
    finally:
        lockdir.rand_chars = old_rand
        lockdir.time = old_time


def our_identity():
    """(hostname, user) exactly as LockHeldInfo.for_this_process records."""
    from breezy.lockdir import LockHeldInfo
    i = LockHeldInfo.for_this_process({})
    return i.hostname, i.user


def info_bytes(host, user, pid, nonce):
    """An info file as another process would have written it."""
    def f(v):
        return "null" if v is None else str(v)
    return ("pid: %s\nuser: %s\nnonce: %s\nhostname: %s\nstart_time:\n"
            "  secs_since_epoch: 1000000000\n  nanos_since_epoch: 0\n" % (
                f(pid), f(user), f(nonce), f(host))).encode("utf-8")


def write_held(root, content, lock="lock"):
    """Fabricate <root>/<lock>/held/info with the given bytes (plain os)."""
    d = os.path.join(root, lock, "held")
    os.makedirs(d, exist_ok=True)
    with open(os.path.join(d, "info"), "wb") as f:
        f.write(content)


def held_content(root, lock="lock"):
    """bytes of held/info, None if held/ is absent, False if held/ exists
    without an info file."""
    d = os.path.join(root, lock, "held")
    if not os.path.isdir(d):
        return None
    p = os.path.join(d, "info")
    if not os.path.exists(p):
        return False
    with open(p, "rb") as f:
        return f.read()


def parse_nonce(content):
    """nonce (bytes) of an info file content; None if absent / unparsable."""
    from breezy import errors
    from breezy.lockdir import LockHeldInfo
    if not content:
        return None
    try:
        return LockHeldInfo.from_info_file_bytes(content).nonce
    except errors.LockCorrupt:
        return None


def disk_nonce(root, lock="lock"):
    c = held_content(root, lock)
    return parse_nonce(c) if c else None


def steal_stack(on):
    """A config stack for LockDir.get_config with locks.steal_dead = on."""
    from breezy import config
    return config.MemoryStack(
        b"locks.steal_dead = %s\n" % (b"True" if on else b"False"))


# ------------------------------------------------------------------ C26
# A seam transport that (a) calls HOOK(transport, name, relpath, dst) right
# before an operation is carried out - i.e. after the scheduler gave the baton
# back, so the hook sees the disk exactly as the operation will - and (b) can
# imitate the server bug documented in LockDir._attempt_lock (Launchpad's sftp
# server, bug 498378): renaming a directory onto an existing directory
# "succeeds" by moving it inside.

LOCK_PREFIX = "vfl+"
HOOK = None
RENAME_INTO = False


class LockSeamTransport(ft.SeamTransport):
    @classmethod
    def _get_url_prefix(cls):
        return LOCK_PREFIX

    def _do(self, name, rel, fn, size=None, mutating=True, partial_fn=None):
        def fn2():
            h = HOOK
            if h is not None:
                h(self, name, rel, None)
            return fn()
        return ft.SeamTransport._do(self, name, rel, fn2, size, mutating,
                                    partial_fn)

    def rename(self, a, b):
        def fn():
            h = HOOK
            if h is not None:
                h(self, "rename", a, b)
            if RENAME_INTO:
                import stat as _stat
                from dromedary import errors as de
                try:
                    st = self._decorated.stat(b)
                except de.PathError:
                    st = None
                if st is not None and _stat.S_ISDIR(st.st_mode):
                    return self._decorated.rename(
                        a, b + "/" + a.rstrip("/").rsplit("/", 1)[-1])
            return self._decorated.rename(a, b)
        return ft.SeamTransport._do(self, "rename", a, fn)


_lock_installed = False


def lock_transport(path):
    """A fresh vfl+file:// transport object for `path`."""
    global _lock_installed
    import dromedary
    from breezy import transport as _t, urlutils
    if not _lock_installed:
        dromedary.register_transport(LOCK_PREFIX, LockSeamTransport)
        _lock_installed = True
    return _t.get_transport(LOCK_PREFIX + urlutils.local_path_to_url(path))


@contextlib.contextmanager
def lock_hook(fn, rename_into=False):
    global HOOK, RENAME_INTO
    old = (HOOK, RENAME_INTO)
    HOOK, RENAME_INTO = fn, rename_into
    try:
        yield
    finally:
        HOOK, RENAME_INTO = old


# ------------------------------------------------------------- strict rename
# Local POSIX rename() silently replaces an *empty* destination directory;
# memory, sftp, smart and most remote transports refuse any existing
# destination.  LockDir is written for the strict behaviour ("exactly one
# attempt to claim the lock will succeed"), so lock states are also exercised
# on a seam transport that refuses to rename onto anything that exists.

STRICT_PREFIX = "vfs+"


class StrictRenameTransport(ft.SeamTransport):
    @classmethod
    def _get_url_prefix(cls):
        return STRICT_PREFIX

    def rename(self, a, b):
        def fn():
            from dromedary import errors as de
            try:
                self._decorated.stat(b)
            except de.NoSuchFile:
                return self._decorated.rename(a, b)
            raise de.FileExists(b)
        return ft.SeamTransport._do(self, "rename", a, fn)


_strict_installed = False


def strict_transport(path):
    """vfs+file:// transport for path: counted / faulted like vf+, and rename
    fails with FileExists when the destination exists."""
    global _strict_installed
    import dromedary
    from breezy import transport as _t, urlutils
    if not _strict_installed:
        dromedary.register_transport(STRICT_PREFIX, StrictRenameTransport)
        _strict_installed = True
    return _t.get_transport(STRICT_PREFIX + urlutils.local_path_to_url(path))
