"""C05 helpers: a policy-driven cooperative scheduler (the running actor keeps
the baton except at generated switch points, lock sleeps and termination),
the shared-repository fixture and the observation wrappers."""

import os
import shutil
import threading

from vf.seam import ft

T0 = 1000000000
COMMITTER = "Verif Tester <verif@example.com>"


def interesting(op, path):
    """Transport operations around which a switch is worth generating."""
    if "pack-names" in path or "/lock" in path or "obsolete_packs" in path:
        return True
    if op in ("move", "rename", "delete") and (
            "/packs/" in path or "/indices/" in path or "/upload/" in path):
        return True
    return False


class PolicyScheduler:
    """switch_steps: {global step index: k}; switch_ops: {(actor, n): k} - when
    `actor` is about to perform its n-th interesting transport operation the
    baton goes to the k-th other live actor.  A sleeping actor (lock poll)
    always hands over.  Everything else: no pre-emption."""

    def __init__(self, switch_steps=None, switch_ops=None, max_steps=60000):
        self.switch_steps = dict(switch_steps or {})
        self.switch_ops = dict(switch_ops or {})
        self.max_steps = max_steps
        self.sems = {}
        self.done = set()
        self.main = threading.Semaphore(0)
        self.errors = {}
        self.trace = []
        self.opcount = {}
        self.writers = {}         # pack name -> actors that wrote its indices
        self.sleeping = set()
        self.pending = None
        self.steps = 0
        self.switches = 0
        self.exhausted = False

    def yield_point(self, desc):
        a = ft.current_actor()
        if a is None or a not in self.sems:
            return
        op, path = desc[0], str(desc[1])
        if op == "sleep":
            self.sleeping.add(a)
        else:
            self.trace.append((a, op, path))
            if len(self.trace) > 400:
                del self.trace[:200]
            if op == "open_write_stream" and "/indices/" in path:
                stem = path.rsplit("/", 1)[-1].split(".", 1)[0]
                self.writers.setdefault(stem, set()).add(a)
            if interesting(op, path):
                n = self.opcount[a] = self.opcount.get(a, 0) + 1
                k = self.switch_ops.get((a, n))
                if k is not None:
                    self.pending = k
        self.main.release()
        self.sems[a].acquire()
        if self.exhausted:
            raise ft.Crash("schedule step bound exceeded")

    def run(self, actors):
        threads = []
        for name, fn in actors.items():
            self.sems[name] = threading.Semaphore(0)

            def body(name=name, fn=fn):
                ft._tl.actor = name
                self.sems[name].acquire()
                try:
                    if not self.exhausted:
                        fn()
                    self.errors[name] = None
                except BaseException as e:  # noqa: BLE001 - handed to caller
                    self.errors[name] = e
                finally:
                    self.done.add(name)
                    ft._tl.actor = None
                    self.main.release()
            th = threading.Thread(target=body, daemon=True)
            threads.append(th)
            th.start()
        names = sorted(actors)
        last = None
        while True:
            live = [a for a in names if a not in self.done]
            if not live:
                break
            if self.steps >= self.max_steps:
                self.exhausted = True
                for a in live:
                    self.sems[a].release()
                    self.main.acquire()
                continue
            k = self.pending
            self.pending = None
            if k is None:
                k = self.switch_steps.get(self.steps)
            others = [a for a in live if a != last]
            if last in live and last not in self.sleeping and (
                    k is None or not others):
                a = last
            elif others:
                # rotate from the actor after `last`
                if last in names:
                    i = names.index(last)
                    order = [x for x in names[i + 1:] + names[:i]
                             if x in others]
                else:
                    order = others
                a = order[(k or 0) % len(order)]
                if last in live and last not in self.sleeping:
                    self.switches += 1
            else:
                a = last
            self.sleeping.discard(a)
            last = a
            self.steps += 1
            self.sems[a].release()
            self.main.acquire()
        for th in threads:
            th.join(10)
        return self.errors


# ------------------------------------------------------------------ fixture

def rev_p(i):
    return b"p%d" % i


def rev_x(i):
    return b"x%d" % i


def _snap(bb, parents, acts, rid, ts):
    bb.build_snapshot(parents, acts, revision_id=rid, timestamp=ts,
                      timezone=0, committer=COMMITTER,
                      message="m " + rid.decode("ascii"))


def build_template(root, fmt, npacks):
    """<root>/src: outside branch p0..p(n-1), x0..x2; <root>/shared: shared
    repository with one pack per p-revision and branches b1..b3 at p(n-1)."""
    from breezy import controldir, transport as _t
    from breezy.branchbuilder import BranchBuilder
    from vf.lib import bz
    from vf.lib.c04_crash import no_autopack
    src = bz.init_branch(root + "/src", fmt)
    bb = BranchBuilder(branch=src)
    bb.start_series()
    try:
        _snap(bb, None, [("add", ("", b"root-id", "directory", None)),
                         ("add", ("f", b"f-id", "file", b"p0\n")),
                         ("add", ("g", b"g-id", "file", b"g\n"))],
              rev_p(0), T0)
        for i in range(1, npacks):
            _snap(bb, [rev_p(i - 1)], [("modify", ("f", rev_p(i) + b"\n"))],
                  rev_p(i), T0 + i)
    finally:
        bb.finish_series()
    shared = root + "/shared"
    os.makedirs(shared)
    f = bz.fmt(fmt)
    cd = f.initialize_on_transport(_t.get_transport(shared))
    repo = cd.create_repository(shared=True)
    with no_autopack():
        for i in range(npacks):
            repo.fetch(src.repository, rev_p(i))
    for b in ("b1", "b2", "b3"):
        os.makedirs(shared + "/" + b)
        br = controldir.ControlDir.create_branch_convenience(
            shared + "/" + b, format=f, force_new_tree=False)
        br.generate_revision_history(rev_p(npacks - 1))
    bb = BranchBuilder(branch=src)
    bb.start_series()
    try:
        prev = rev_p(npacks - 1)
        for i in range(3):
            _snap(bb, [prev], [("modify", ("f", rev_x(i) + b"\n"))],
                  rev_x(i), T0 + 100 + i)
            prev = rev_x(i)
    finally:
        bb.finish_series()


def template(env, fmt, npacks):
    """Built once per shard process and copied per case."""
    from vf import env as venv
    key = ("c05", fmt, npacks)
    if key not in env.shared:
        root = os.path.join(venv.scratch_root(), "c05-%s-%d" % (fmt, npacks))
        if os.path.exists(root):
            shutil.rmtree(root)
        os.makedirs(root)
        build_template(root, fmt, npacks)
        env.shared[key] = root
    return env.shared[key]


def disk_nodes(path):
    """{(name, value)} of <path>/.bzr/repository/pack-names, parsed with the
    trusted-base index reader of the repository's format (plain transport)."""
    from breezy import repository as _r, transport as _t
    repo = _r.Repository.open(path)
    t = _t.get_transport(os.path.join(path, ".bzr", "repository"))
    cls = repo._pack_collection._index_class
    return {(key[0].decode("ascii"), value) for _i, key, value in
            cls(t, "pack-names", None).iter_all_entries()}
