"""C02 helpers: reference model of last-changed revisions / per-file parents,
the repository-side observations, and a late-bound script interpreter that
builds histories with real merges (merge_from_branch), reverts after merge,
identical parallel changes, kind changes and cherry-picks in one shared
repository.

The model is independent of breezy: it is fed (a) the revision DAG and (b) for
every revision the entries {file_id: key} of the tree that was committed, where
key = (kind, parent_id, name, sha1-or-symlink-target, exec).  (b) comes from the
spec's tree models (spec kind) or from a snapshot of the working tree taken from
disk just before commit (script kind) - never from the committed inventory.
"""

import hashlib
import os
import stat

from ..api import check
from . import bz
from . import graphmodel as gm
from . import treemodel as tm


# ------------------------------------------------------------------ the model

def key_of_model_entry(e):
    if e["kind"] == "file":
        return ("file", e["parent"], e["name"],
                hashlib.sha1(bz.cbytes(e["content"])).hexdigest(),
                bool(e["exec"]))
    if e["kind"] == "symlink":
        return ("symlink", e["parent"], e["name"], e["content"], None)
    return ("directory", e["parent"], e["name"], None, None)


def keys_of_model(model):
    return {fid: key_of_model_entry(e) for fid, e in model.items()}


class PerFileModel:
    """rev -> {fid: (key, last_changed, heads)}; heads is the ordered tuple of
    per-file parents that a *new* version recorded at that revision must have
    (also computed for carried-over entries, where it is (last_changed,)).

    Heads are the maximal candidates in the PER-FILE graph (text versions and
    their recorded parents) - the semantics Repository.check() verifies. The
    revision graph gives the same answer except when a file id is absent from
    an intermediate revision (dropped by a merge) and kept through another
    parent: then an older version is an ancestor by revision but not by
    per-file history. `alt` records the revision-graph answer where it differs
    so that the failure class can be named."""

    def __init__(self):
        self.graph = {}      # rev -> tuple(parents incl. ghosts)
        self.ent = {}        # rev -> {fid: (key, lc, heads)}
        self.features = {}   # rev -> set of feature names (non-triviality)
        self.tgraph = {}     # fid -> {rev: tuple(per-file parent revs)}
        self.alt = {}        # (rev, fid) -> (lc, heads) by revision-graph heads

    def add(self, rid, parents, ghosts, entries):
        """parents: present parents in order (first = left-hand)."""
        self.graph[rid] = tuple(parents) + tuple(ghosts)
        out = {}
        feats = set()
        if ghosts:
            feats.add("ghost-parent")
        for fid in sorted(entries):
            key = entries[fid]
            cands = []
            pents = []
            for p in parents:
                pe = self.ent[p].get(fid)
                if pe is not None:
                    cands.append(pe[1])
                    pents.append(pe)
            cands = list(dict.fromkeys(cands))
            tg = self.tgraph.setdefault(fid, {})
            hs = gm.heads(tg, cands)

            def decide(heads):
                if len(heads) == 1:
                    for pe in pents:
                        if pe[1] == heads[0]:
                            return heads[0] if pe[0] == key else rid
                return rid
            lc = decide(hs)
            hs_rev = gm.heads(self.graph, cands)
            if hs_rev != hs:
                feats.add("revision-graph-heads-differ")
                self.alt[(rid, fid)] = (decide(hs_rev), tuple(hs_rev))
            out[fid] = (key, lc, tuple(hs))
            if lc == rid:
                tg[rid] = tuple(hs)
            if len(parents) > 2 and fid != tm.ROOT_ID:
                left0 = self.ent[parents[0]].get(fid)
                rest = [self.ent[q][fid][1] for q in parents[1:]
                        if fid in self.ent[q]]
                if any(rest.count(v) > 1 and (left0 is None or left0[1] != v)
                       for v in rest):
                    feats.add("octopus-shared-version")
            if len(parents) > 1 and fid != tm.ROOT_ID:
                left = self.ent[parents[0]].get(fid)
                if len(hs) >= 2:
                    feats.add("per-file-fork")
                    if len({pe[0] for pe in pents}) == 1 and pents[0][0] == key:
                        feats.add("identical-parallel-change")
                    if len(hs) >= 3:
                        feats.add("three-heads")
                elif len(cands) >= 2:
                    feats.add("dominated-candidate")
                if len(hs) == 1 and left is not None and left[1] != hs[0]:
                    # the single head comes from a merged (non-left) parent
                    if lc == hs[0]:
                        feats.add("carried-from-merged-parent")
                    elif left[0] == key:
                        feats.add("merged-change-reverted")
                    else:
                        feats.add("changed-after-merge")
                if left is None and pents and lc == rid:
                    feats.add("merged-add-changed")
            if parents and fid != tm.ROOT_ID:
                pk = self.ent[parents[0]].get(fid)
                if pk is not None and pk[0] != key:
                    a, b = pk[0], key
                    if a[0] != b[0]:
                        feats.add("kind-change")
                    elif a[3] == b[3] and a[1:3] == b[1:3] and a[4] != b[4]:
                        feats.add("exec-only")
                    elif a[3] == b[3] and a[4] == b[4]:
                        feats.add("rename-only")
        self.ent[rid] = out
        self.features[rid] = feats
        return out

    def all_features(self):
        out = set()
        for f in self.features.values():
            out |= f
        return out

    def text_keys(self, rich_root):
        """{(fid, rev): heads} for every version the model says is recorded."""
        out = {}
        for rid, ents in self.ent.items():
            for fid, (key, lc, hs) in ents.items():
                if fid == tm.ROOT_ID and not rich_root:
                    continue
                if lc == rid:
                    out[(fid, rid)] = hs
        return out


NT_PRIORITY = ["octopus-shared-version", "revision-graph-heads-differ", "identical-parallel-change", "merged-change-reverted",
               "three-heads", "per-file-fork", "changed-after-merge",
               "carried-from-merged-parent"]


def label_of(features):
    """Non-triviality class: DESIGN NT = a real per-file fork, a reverted
    merge or an identical parallel change (plus the neighbouring single-head
    merge classes, which exercise the same carry-over branch)."""
    nt = [f for f in NT_PRIORITY if f in features]
    if not nt:
        return None
    extra = [f for f in ("kind-change", "exec-only", "rename-only",
                         "ghost-parent") if f in features]
    return "+".join(nt[:2] + extra[:1])


# ------------------------------------------------------------------ observing

def _s(b):
    return b.decode("utf-8") if isinstance(b, bytes) else b


def observed_entries(tree):
    """{fid: (key, recorded revision)} of a revision tree (root included)."""
    out = {}
    with tree.lock_read():
        for path, ie in tree.iter_entries_by_dir():
            fid = _s(ie.file_id)
            parent = _s(ie.parent_id)
            if ie.kind == "file":
                key = ("file", parent, ie.name,
                       hashlib.sha1(tree.get_file_text(path)).hexdigest(),
                       bool(ie.executable))
            elif ie.kind == "symlink":
                key = ("symlink", parent, ie.name, ie.symlink_target, None)
            else:
                key = (ie.kind, parent, ie.name, None, None)
            out[fid] = (key, _s(ie.revision), path)
    return out


def check_repository(repo, model, revmap, tag, rich_root=None, fmt=None):
    """All C02 observations of `repo` against the model. revmap maps model
    revision ids to the ids in the repository (identity for bzr formats)."""
    pre = "C02/" + (tag + "-" if tag else "")
    inv = {v: k for k, v in revmap.items()}
    with repo.lock_read():
        if rich_root is None:
            rich_root = repo.supports_rich_root()
        for rid in model.ent:
            got_parents = tuple(_s(p) for p in repo.get_revision(
                bz.enc(revmap[rid])).parent_ids)
            if got_parents != tuple(model.graph[rid]):
                # the model was fed a DAG the builder did not produce
                # (e.g. set_parent_ids dropped a redundant parent)
                raise RuntimeError(
                    "harness: revision %s has parents %r, model assumed %r" % (
                        rid, got_parents, model.graph[rid]))
            tree = repo.revision_tree(bz.enc(revmap[rid]))
            obs = observed_entries(tree)
            exp = model.ent[rid]
            check(set(obs) == set(exp), pre + "recorded-ids-differ-from-committed-tree",
                  [rid, sorted(set(obs) ^ set(exp))])
            for fid in sorted(exp):
                key, lc, hs = exp[fid]
                okey, orev, path = obs[fid]
                check(tuple(okey) == tuple(key),
                      pre + "recorded-entry-differs-from-committed-tree",
                      [rid, fid, okey, key])
                if fid == tm.ROOT_ID and not rich_root:
                    continue
                orev = inv.get(orev, orev)
                alt = model.alt.get((rid, fid))
                if orev != lc:
                    if alt is not None and alt[0] == orev:
                        # known for knit (its builder uses the revision graph
                        # by construction); a pack-based format doing the
                        # same is a different, new failure
                        sig = "last-changed-follows-revision-graph-heads"
                        if fmt != "knit":
                            sig = "pack-format-" + sig
                    elif lc == rid:
                        sig = "last-changed-carried-over-but-new-version-expected"
                    elif orev == rid:
                        sig = "last-changed-new-version-but-entry-unchanged"
                    else:
                        sig = "last-changed-wrong-ancestor"
                    check(False, pre + sig,
                          {"rev": rid, "file": fid, "path": path, "got": orev,
                           "want": lc, "heads": hs, "key": key,
                           "parents": model.graph[rid]})
                got2 = _s(tree.get_file_revision(path))
                check(inv.get(got2, got2) == lc,
                      pre + "get_file_revision-differs-from-entry",
                      [rid, fid, got2, lc])
        want = model.text_keys(rich_root)
        have = set()
        for k in repo.texts.keys():
            have.add((_s(k[0]), inv.get(_s(k[1]), _s(k[1]))))
        missing = sorted(set(want) - have)
        extra = sorted(have - set(want))
        check(not missing, pre + "text-version-missing", missing[:5])
        check(not extra, pre + "text-version-unreferenced", extra[:5])
        keys = [(bz.enc(f), bz.enc(revmap[r])) for f, r in sorted(want)]
        pm = repo.texts.get_parent_map(keys)
        order = {r: i for i, r in enumerate(model.ent)}
        for (f, r) in sorted(want, key=lambda k: (order[k[1]], k[0])):
            got = pm.get((bz.enc(f), bz.enc(revmap[r])))
            check(got is not None, pre + "text-version-missing", [f, r])
            gotp = tuple((_s(p[0]), inv.get(_s(p[1]), _s(p[1]))) for p in got)
            wantp = tuple((f, h) for h in want[(f, r)])
            if gotp != wantp:
                alt = model.alt.get((r, f))
                if alt is not None and gotp == tuple((f, h) for h in alt[1]):
                    sig = "text-parents-follow-revision-graph-heads"
                    if fmt != "knit":
                        sig = "pack-format-" + sig
                elif sorted(gotp) == sorted(wantp):
                    sig = "text-parents-order"
                elif set(wantp) < set(gotp):
                    sig = "text-parents-include-non-heads"
                elif set(gotp) < set(wantp):
                    sig = "text-parents-missing-head"
                else:
                    sig = "text-parents-wrong"
                check(False, pre + sig,
                      {"file": f, "rev": r, "got": gotp, "want": wantp,
                       "parents": model.graph[r]})
    res = repo.check(None)
    check(not res.inconsistent_parents, pre + "check-inconsistent-parents",
          [[_s(x) if isinstance(x, bytes) else [_s(y) for y in x] for x in i]
           for i in res.inconsistent_parents][:5])
    check(not res.unreferenced_versions, pre + "check-unreferenced-versions",
          sorted((_s(a), _s(b)) for a, b in res.unreferenced_versions)[:5])
    check(not res.missing_parent_links, pre + "check-missing-parent-links",
          sorted(_s(k) for k in res.missing_parent_links)[:5])
    check(not res._report_items, pre + "check-reports-problems",
          list(res._report_items)[:5])
    bad = getattr(res, "revs_with_bad_parents_in_index", None)
    check(not bad, pre + "check-bad-revision-index-parents", repr(bad)[:500])


def fetch_copy(repo, path, format):
    """Fetch everything into a fresh repository of the same format."""
    target = bz.init_repo(path, format)
    target.fetch(repo)
    return target


# ---------------------------------------------------------- script interpreter
#
# case = {"fmt", "nbr": 2|3, "base": [tm add ops], "steps": [step, ...]}
# late-bound edit ops (indices are taken modulo the candidates at run time,
# candidates = sorted file ids currently versioned in that tree):
#   ["mod", k, text]  ["line", k, pos, text]  ["chmod", k]  ["delete", k]
#   ["rename", k, dk, name]  ["add", id, dk, name, kind, content, exec]
#   ["kind", k]   (file <-> symlink, empty directory -> file; id preserved)
# steps:
#   ["edit", b, lops]
#   ["twin", b1, b2, lops]        same edit (by file id) on two branches
#   ["merge", dst, src, back, on_conflict, revert, lops]
#        back: merge src tip's `back`-th left-hand ancestor (criss-cross)
#        on_conflict: "keep" (commit the conflicted tree as it is) | "abort"
#        revert: None | "all" | [k, ...]  files reverted to basis before commit
#   ["cherry", dst, src, back]    merge of one revision (range parent..rev)
#   ["pull", dst, src]

BR = ["a", "b", "c"]


class StopScript(Exception):
    pass


class Script:
    def __init__(self, case, root):
        self.case = case
        self.root = root
        self.fmt = case["fmt"]
        self.model = PerFileModel()
        self.n = 0
        self.trees = []
        self.stats = {"merges": 0, "conflicted": 0, "aborted": 0,
                      "reverts": 0, "cherry": 0, "pulls": 0, "twins": 0}
        self.repo = None
        self.setup_failure = None

    # -- bookkeeping
    def _entries_from_disk(self, wt):
        """{fid: key} of what a full commit of wt records, read from the
        dirstate's versioning data (ids, names, parents) and from DISK
        (kind, bytes, exec bit, link target). None if a versioned path is
        missing or of an unsupported kind (caller avoids committing that)."""
        out = {}
        with wt.lock_read():
            for path, ie in wt.iter_entries_by_dir():
                fid = _s(ie.file_id)
                ap = os.path.join(wt.basedir, path)
                try:
                    st_ = os.lstat(ap)
                except OSError:
                    return None
                parent = _s(ie.parent_id)
                if stat.S_ISLNK(st_.st_mode):
                    out[fid] = ("symlink", parent, ie.name, os.readlink(ap),
                                None)
                elif stat.S_ISDIR(st_.st_mode):
                    out[fid] = ("directory", parent, ie.name, None, None)
                elif stat.S_ISREG(st_.st_mode):
                    with open(ap, "rb") as f:
                        data = f.read()
                    out[fid] = ("file", parent, ie.name,
                                hashlib.sha1(data).hexdigest(),
                                bool(st_.st_mode & 0o100))
                else:
                    return None
        return out

    def _sane(self, wt, entries):
        """children only below directories (a conflicted merge can leave
        odd states; we do not commit those)."""
        if entries is None:
            return False
        for fid, key in entries.items():
            if key[1] is not None:
                p = entries.get(key[1])
                if p is None or p[0] != "directory":
                    return False
        return True

    def commit(self, wt):
        entries = self._entries_from_disk(wt)
        if not self._sane(wt, entries):
            return None
        bz.age_files(wt.basedir)
        parents = [_s(p) for p in wt.get_parent_ids()]
        rid = "r%d" % self.n
        self.n += 1
        present = [p for p in parents if p in self.model.ent]
        ghosts = [p for p in parents if p not in self.model.ent]
        wt.set_conflicts([])
        wt.commit("m %s" % rid, rev_id=bz.enc(rid), allow_pointless=True,
                  timestamp=bz.T0 + 10 * self.n, timezone=0,
                  committer=bz.COMMITTER, revprops={"branch-nick": "nick"})
        self.model.add(rid, present, ghosts, entries)
        self.tidy(wt)
        return rid

    # -- late-bound edits
    def _ents(self, wt):
        out = []
        with wt.lock_read():
            for path, ie in wt.iter_entries_by_dir():
                if path == "":
                    continue
                # kind as on disk (a kind change is not in the inventory yet)
                try:
                    m = os.lstat(os.path.join(wt.basedir, path)).st_mode
                except OSError:
                    kind = "missing"
                else:
                    kind = ("symlink" if stat.S_ISLNK(m) else "directory"
                            if stat.S_ISDIR(m) else "file"
                            if stat.S_ISREG(m) else "other")
                out.append((_s(ie.file_id), path, kind))
        return sorted(out)

    def resolve_lops(self, wt, lops):
        """Bind indices to file ids against wt's current state -> bound ops
        (applied one at a time, re-reading the state)."""
        return lops

    def apply_lop(self, wt, op, by_id=None):
        """Apply one late-bound op; returns the bound form (with file ids) so
        that a twin can replay it on another tree."""
        base = wt.basedir
        ents = self._ents(wt)
        files = [e for e in ents if e[2] == "file"]
        k = op[0]

        def pick(lst, idx, fid=None):
            if fid is not None:
                for e in lst:
                    if e[0] == fid:
                        return e
                return None
            if not lst:
                return None
            return lst[idx % len(lst)]

        bound = by_id or {}
        if k in ("mod", "line", "chmod"):
            e = pick(files, op[1], bound.get("fid"))
            if e is None:
                return None
            ap = os.path.join(base, e[1])
            mode = stat.S_IMODE(os.lstat(ap).st_mode)
            if k == "mod":
                data = bz.cbytes(op[2])
            elif k == "line":
                with open(ap, "rb") as f:
                    lines = f.read().splitlines(True)
                pos = op[2] % (len(lines) + 1)
                new = bz.cbytes(op[3])
                if pos < len(lines):
                    lines[pos] = new
                else:
                    if lines and not lines[-1].endswith(b"\n"):
                        lines[-1] += b"\n"
                    lines.append(new)
                data = b"".join(lines)
            if k == "chmod":
                os.chmod(ap, 0o644 if mode & 0o100 else 0o755)
            else:
                with open(ap, "wb") as f:
                    f.write(data)
                os.chmod(ap, mode)
            return {"fid": e[0]}
        if k == "delete":
            e = pick(ents, op[1], bound.get("fid"))
            if e is None:
                return None
            wt.remove([e[1]], keep_files=False, force=True)
            return {"fid": e[0]}
        if k == "rename":
            e = pick(ents, op[1], bound.get("fid"))
            if e is None:
                return None
            dirs = [("", "", "directory")] + [d for d in ents
                                              if d[2] == "directory"]
            dirs = [d for d in dirs if d[0] != e[0] and not
                    (d[1] + "/").startswith(e[1] + "/")]
            d = pick(dirs, op[2], None)
            if bound.get("dir") is not None:
                d = None
                for x in dirs:
                    if x[0] == bound["dir"]:
                        d = x
                if d is None:
                    return None
            name = op[3] if op[3] is not None else e[1].rsplit("/", 1)[-1]
            new = (d[1] + "/" + name) if d[1] else name
            if new == e[1] or os.path.lexists(os.path.join(base, new)):
                return None
            if wt.is_versioned(new):
                return None
            wt.rename_one(e[1], new)
            return {"fid": e[0], "dir": d[0]}
        if k == "add":
            _, fid, dk, name, kind, content, ex = op
            dirs = [("", "", "directory")] + [d for d in ents
                                              if d[2] == "directory"]
            d = pick(dirs, dk, None)
            if bound.get("dir") is not None:
                d = None
                for x in dirs:
                    if x[0] == bound["dir"]:
                        d = x
                if d is None:
                    return None
            if any(e[0] == fid for e in ents):
                return None
            new = (d[1] + "/" + name) if d[1] else name
            ap = os.path.join(base, new)
            if os.path.lexists(ap) or wt.is_versioned(new):
                return None
            if not os.path.isdir(os.path.join(base, d[1])):
                return None
            if kind == "directory":
                os.mkdir(ap)
            elif kind == "symlink":
                os.symlink(content, ap)
            else:
                with open(ap, "wb") as f:
                    f.write(bz.cbytes(content))
                os.chmod(ap, 0o755 if ex else 0o644)
            wt.add([new], ids=[bz.enc(fid)])
            return {"dir": d[0]}
        if k == "kind":
            # file <-> symlink only: an (empty) directory turned into a file
            # while the other side moves something into it makes the merge
            # raise MalformedTransform (merge defect, not this property)
            cands = [e for e in ents if e[2] in ("file", "symlink")]
            e = pick(cands, op[1], bound.get("fid"))
            if e is None:
                return None
            ap = os.path.join(base, e[1])
            if e[2] == "file":
                os.unlink(ap)
                os.symlink("tgt", ap)
            elif e[2] == "symlink":
                os.unlink(ap)
                with open(ap, "wb") as f:
                    f.write(b"was a link\n")
            else:
                os.rmdir(ap)
                with open(ap, "wb") as f:
                    f.write(b"was a dir\n")
            return {"fid": e[0]}
        raise ValueError(op)

    # -- steps
    def run(self):
        from breezy import errors
        case = self.case
        self.repo = bz.init_repo(self.root, self.fmt, shared=True)
        a = bz.init_tree(os.path.join(self.root, "a"), self.fmt)
        with a.lock_write():
            a.set_root_id(bz.enc(tm.ROOT_ID))
            m = tm.new_model()
            bz.apply_ops_wt(a, m, case["base"])
        self.commit(a)
        self.trees = [a]
        for i in range(1, case["nbr"]):
            t = a.controldir.sprout(
                os.path.join(self.root, BR[i])).open_workingtree()
            self.trees.append(t)
        try:
            for step in case["steps"]:
                self.step(step)
        except StopScript:
            pass
        return self.model

    def _tip_back(self, wt, back):
        rid = _s(wt.branch.last_revision())
        for _ in range(back):
            ps = self.model.graph.get(rid, ())
            if not ps or ps[0] not in self.model.graph:
                break
            rid = ps[0]
        return rid

    def _setup(self, what, fn, *a, **kw):
        """Run one call of the machinery that only PREPARES the history
        (merge_from_branch, revert, pull - never commit). These operations are
        other properties' subjects; on generated conflict-laden trees they can
        fail internally (MalformedTransform, NoFinalPath, DuplicateKey, the
        dirstate's lstat AssertionError, ...). Such a failure ends the script:
        what was committed so far is still checked, the case is reported as
        'rejected' with the failing call and exception type as its reason (so
        it stays visible in the evidence), and commits are never guarded."""
        from breezy import errors
        from breezy.workingtree import PointlessMerge
        try:
            return fn(*a, **kw)
        except (PointlessMerge, errors.DivergedBranches):
            raise
        except Exception as e:  # noqa: BLE001 - set-up only, see docstring
            self.setup_failure = "%s raised %s" % (what, type(e).__name__)
            raise StopScript()

    def step(self, step):
        from breezy import errors
        from breezy.workingtree import PointlessMerge
        k = step[0]
        trees = self.trees
        if k == "edit":
            wt = trees[step[1] % len(trees)]
            for op in step[2]:
                self.apply_lop(wt, op)
            self.commit_or_restore(wt)
        elif k == "twin":
            w1 = trees[step[1] % len(trees)]
            w2 = trees[step[2] % len(trees)]
            if w1 is w2:
                w2 = trees[(step[2] + 1) % len(trees)]
            for op in step[3]:
                b = self.apply_lop(w1, op)
                if b is not None:
                    self.apply_lop(w2, op, by_id=b)
            r1 = self.commit_or_restore(w1)
            r2 = self.commit_or_restore(w2)
            if r1 and r2:
                self.stats["twins"] += 1
        elif k == "pull":
            dst = trees[step[1] % len(trees)]
            src = trees[step[2] % len(trees)]
            if dst is src:
                return
            try:
                self._setup("pull", dst.pull, src.branch)
                self.stats["pulls"] += 1
            except errors.DivergedBranches:
                pass
            self.tidy(dst)
        elif k == "octo":
            dst = trees[step[1] % len(trees)]
            n0 = len(dst.get_parent_ids())
            for si in (step[2], step[3]):
                src = trees[si % len(trees)]
                if src is dst:
                    continue
                try:
                    self._setup("merge_from_branch", dst.merge_from_branch,
                                src.branch, force=True)
                except PointlessMerge:
                    continue
            if len(dst.get_parent_ids()) == n0:
                return
            if dst.conflicts():
                self.stats["conflicted"] += 1
                dst.set_conflicts([])
            rv = step[4]
            if rv is not None:
                ents = self._ents(dst)
                paths = [e[1] for e in ents] if rv == "all" else (
                    sorted({ents[i % len(ents)][1] for i in rv})
                    if ents else [])
                if paths:
                    self._setup("revert", dst.revert, paths, backups=False)
                    self.stats["reverts"] += 1
            for op in step[5]:
                self.apply_lop(dst, op)
            npar = len(dst.get_parent_ids())
            if self.commit_or_restore(dst) and npar > 2:
                self.stats["octopus"] = self.stats.get("octopus", 0) + 1
        elif k in ("merge", "cherry"):
            dst = trees[step[1] % len(trees)]
            src = trees[step[2] % len(trees)]
            if dst is src:
                src = trees[(step[2] + 1) % len(trees)]
            to_rev = self._tip_back(src, step[3])
            kw = {}
            if k == "cherry":
                ps = self.model.graph.get(to_rev, ())
                if not ps:
                    return
                kw["from_revision"] = bz.enc(ps[0])
            try:
                self._setup("merge_from_branch", dst.merge_from_branch,
                            src.branch, to_revision=bz.enc(to_rev), **kw)
            except PointlessMerge:
                return
            conflicted = bool(dst.conflicts())
            if conflicted:
                self.stats["conflicted"] += 1
            if k == "cherry":
                if conflicted:
                    self.restore(dst)
                    return
                if self.commit_or_restore(dst):
                    self.stats["cherry"] += 1
                return
            if conflicted and step[4] == "abort":
                self.restore(dst)
                self.stats["aborted"] += 1
                return
            if conflicted:
                dst.set_conflicts([])
            rv = step[5]
            if rv is not None:
                ents = self._ents(dst)
                if rv == "all":
                    paths = [e[1] for e in ents]
                else:
                    paths = sorted({ents[i % len(ents)][1] for i in rv}) \
                        if ents else []
                # basis paths too: reverting a file the merge renamed/added
                if paths:
                    self._setup("revert", dst.revert, paths, backups=False)
                    self.stats["reverts"] += 1
            for op in step[6]:
                self.apply_lop(dst, op)
            npar = len(dst.get_parent_ids())
            if self.commit_or_restore(dst) and npar > 1:
                self.stats["merges"] += 1
        else:
            raise ValueError(step)

    def restore(self, wt):
        """Throw away all uncommitted state incl. pending merges."""
        self._setup("revert", wt.revert, backups=False)
        self.tidy(wt)

    def tidy(self, wt):
        """No conflicts recorded, no unversioned leftovers (conflict helper
        files would get in the way of later merges and pulls)."""
        wt.set_conflicts([])
        # unversioned leftovers (conflict helper files) are harmless but may
        # block later adds; remove them
        with wt.lock_read():
            versioned = {p for p, ie in wt.iter_entries_by_dir()}
        junk = []
        for d, ds, fs in os.walk(wt.basedir):
            if d == wt.basedir and ".bzr" in ds:
                ds.remove(".bzr")
            for n in fs + ds:
                rel = os.path.relpath(os.path.join(d, n), wt.basedir)
                if rel not in versioned:
                    junk.append(rel)
        for rel in sorted(junk, key=lambda r: -len(r)):
            ap = os.path.join(wt.basedir, rel)
            if os.path.islink(ap) or not os.path.isdir(ap):
                os.unlink(ap)
            elif not os.listdir(ap):
                os.rmdir(ap)

    def commit_or_restore(self, wt):
        rid = self.commit(wt)
        if rid is None:
            self.restore(wt)
        return rid
