"""C43 helpers: build a linear history in a working tree from treemodel edit
scripts (plus same-id kind changes), upload revisions with the upload plugin to
a local directory, compare the remote directory with the uploaded revision, and
classify the model-level delta between two revisions (so that generators can
steer around listed defect classes by construction)."""

import io
import os
import shutil

from . import bz
from . import treemodel as tm

MARKER = ".bzr-upload.revid"
SPECIAL = (".bzrignore", ".bzrignore-upload")   # never uploaded by a full upload


# ---------------------------------------------------------------- building

def apply_op_model(model, op):
    """treemodel.apply_op + ["kind", id, new_kind, content, exec] (same file id,
    same path, other kind; a directory must be empty)."""
    if op[0] == "kind":
        e = model[op[1]]
        e["kind"] = op[2]
        e["content"] = op[3]
        e["exec"] = bool(op[4])
    else:
        tm.apply_op(model, op)


def apply_ops_wt(wt, model, ops):
    base = wt.basedir
    for op in ops:
        if op[0] != "kind":
            bz.apply_ops_wt(wt, model, [op])
            continue
        _, fid, kind, content, ex = op
        ap = os.path.join(base, tm.path_of(model, fid))
        if os.path.islink(ap) or not os.path.isdir(ap):
            os.unlink(ap)
        else:
            os.rmdir(ap)
        if kind == "directory":
            os.mkdir(ap)
        elif kind == "symlink":
            os.symlink(content, ap)
        else:
            with open(ap, "wb") as f:
                f.write(bz.cbytes(content))
            os.chmod(ap, 0o755 if ex else 0o644)
        apply_op_model(model, op)


def revid(i):
    return "rev-%d" % i


class History:
    """Working tree + the model after every commit."""

    def __init__(self, root, fmt="2a"):
        self.path = os.path.join(root, "src")
        self.wt = bz.init_tree(self.path, fmt)
        self.model = tm.new_model()
        self.models = []
        if self.wt.supports_setting_file_ids():
            self.wt.set_root_id(bz.enc(tm.ROOT_ID))

    def commit(self, ops):
        apply_ops_wt(self.wt, self.model, ops)
        bz.age_files(self.path)
        i = len(self.models)
        bz.commit(self.wt, rev_id=revid(i), message="commit %d" % i,
                  ts=bz.T0 + 10 * i)
        self.models.append(tm.clone(self.model))
        return i

    def tree(self, i):
        return self.wt.branch.repository.revision_tree(bz.enc(revid(i)))


# ---------------------------------------------------------------- uploading

def upload(hist, remote, i, mode):
    """Upload revision i the way `brz upload` does.
    mode: "incremental" | "full" | "overwrite" (-r i --overwrite)."""
    from breezy.plugins.upload import cmds
    from breezy.revisionspec import RevisionSpec
    cmd = cmds.cmd_upload()
    cmd.outf = io.StringIO()
    spec = [RevisionSpec.from_string("revid:" + revid(i))]
    cmd.run(location=remote, directory=hist.path, quiet=True, revision=spec,
            full=(mode == "full"), overwrite=(mode == "overwrite"))
    return cmd.outf.getvalue()


def ignored_by(patterns, path):
    """Reference for the restricted pattern language the generators use: a
    pattern is a bare name and ignores every path with a component of that
    name (the entry itself or a parent directory)."""
    return any(c in patterns for c in path.split("/"))


def expected_remote(model, patterns=()):
    """{path: [kind, content, exec]} the remote must hold for this revision."""
    out = {}
    for p, (kind, content, ex, _fid) in tm.snapshot(model).items():
        if p in SPECIAL or ignored_by(patterns, p):
            continue
        out[p] = [kind, content, ex]
    return out


def actual_remote(remote, patterns=()):
    snap = bz.snapshot_fs(remote, skip=())
    marker = snap.pop(MARKER, None)
    out = {}
    for p, v in snap.items():
        if p in SPECIAL or ignored_by(patterns, p):
            continue
        out[p] = v
    return out, marker


def diff_remote(want, got):
    """[(path, wanted, found)] for every differing path."""
    out = []
    for p in sorted(set(want) | set(got)):
        if want.get(p) != got.get(p):
            out.append([p, want.get(p), got.get(p)])
    return out


def classify_diff(d):
    """Short class name of one differing path (for signatures)."""
    _p, want, got = d
    if want is None:
        return "extra-%s-left-on-remote" % got[0]
    if got is None:
        return "%s-missing-on-remote" % want[0]
    if want[0] != got[0]:
        return "%s-uploaded-as-%s" % (want[0], got[0])
    if want[0] == "symlink":
        return "symlink-target-differs"
    if want[1] != got[1]:
        return "file-content-differs"
    return "exec-bit-differs"


def reset_dir(path):
    shutil.rmtree(path, ignore_errors=True)
    os.makedirs(path)


# ---------------------------------------------------------------- model delta

def delta(old, new):
    """Model-level delta between two revisions, by file id.
    -> dict with lists of ids: removed, added, renamed (path changed), kind,
    modified (content), exec (exec bit only) and helper path maps."""
    op, np_ = {}, {}
    for fid in old:
        op[fid] = tm.path_of(old, fid)
    for fid in new:
        np_[fid] = tm.path_of(new, fid)
    d = {"removed": [], "added": [], "renamed": [], "kind": [], "modified": [],
         "exec": [], "old_path": op, "new_path": np_}
    for fid in old:
        if fid not in new:
            d["removed"].append(fid)
    for fid in new:
        if fid == tm.ROOT_ID:
            continue
        if fid not in old:
            d["added"].append(fid)
            continue
        a, b = old[fid], new[fid]
        if a["parent"] != b["parent"] or a["name"] != b["name"]:
            d["renamed"].append(fid)
        if a["kind"] != b["kind"]:
            d["kind"].append(fid)
        elif a["content"] != b["content"]:
            d["modified"].append(fid)
        if a["kind"] == b["kind"] == "file" and a["exec"] != b["exec"]:
            d["exec"].append(fid)
    return d
