"""C43 helpers: build a linear history in a working tree from treemodel edit
scripts (plus same-id kind changes), upload revisions with the upload plugin to
a local directory, compare the remote directory with the uploaded revision, and
classify the model-level delta between two revisions (so that generators can
steer around listed defect classes by construction)."""

import io
import os
import shutil

from . import bz
from . import treemodel as tm

MARKER = ".bzr-upload.revid"
SPECIAL = (".bzrignore", ".bzrignore-upload")   # never uploaded by a full upload


# ---------------------------------------------------------------- building

def apply_op_model(model, op):
    """treemodel.apply_op + ["kind", id, new_kind, content, exec] (same file id,
    same path, other kind; a directory must be empty)."""
    if op[0] == "kind":
        e = model[op[1]]
        e["kind"] = op[2]
        e["content"] = op[3]
        e["exec"] = bool(op[4])
    else:
        tm.apply_op(model, op)


def apply_ops_wt(wt, model, ops):
    base = wt.basedir
    for op in ops:
        if op[0] != "kind":
            bz.apply_ops_wt(wt, model, [op])
            continue
        _, fid, kind, content, ex = op
        ap = os.path.join(base, tm.path_of(model, fid))
        if os.path.islink(ap) or not os.path.isdir(ap):
            os.unlink(ap)
        else:
            os.rmdir(ap)
        if kind == "directory":
            os.mkdir(ap)
        elif kind == "symlink":
            os.symlink(content, ap)
        else:
            with open(ap, "wb") as f:
                f.write(bz.cbytes(content))
            os.chmod(ap, 0o755 if ex else 0o644)
        apply_op_model(model, op)


def revid(i):
    return "rev-%d" % i


class History:
    """Working tree + the model after every commit."""

    def __init__(self, root, fmt="2a"):
        self.path = os.path.join(root, "src")
        self.wt = bz.init_tree(self.path, fmt)
        self.model = tm.new_model()
        self.models = []
        if self.wt.supports_setting_file_ids():
            self.wt.set_root_id(bz.enc(tm.ROOT_ID))

    def commit(self, ops):
        apply_ops_wt(self.wt, self.model, ops)
        bz.age_files(self.path)
        i = len(self.models)
        bz.commit(self.wt, rev_id=revid(i), message="commit %d" % i,
                  ts=bz.T0 + 10 * i)
        self.models.append(tm.clone(self.model))
        return i

    def tree(self, i):
        return self.wt.branch.repository.revision_tree(bz.enc(revid(i)))


# ---------------------------------------------------------------- uploading

def upload(hist, remote, i, mode):
    """Upload revision i the way `brz upload` does.
    mode: "incremental" | "full" | "overwrite" (-r i --overwrite)."""
    from breezy.plugins.upload import cmds
    from breezy.revisionspec import RevisionSpec
    cmd = cmds.cmd_upload()
    cmd.outf = io.StringIO()
    spec = [RevisionSpec.from_string("revid:" + revid(i))]
    cmd.run(location=remote, directory=hist.path, quiet=True, revision=spec,
            full=(mode == "full"), overwrite=(mode == "overwrite"))
    return cmd.outf.getvalue()


def ignored_by(patterns, path):
    """Reference for the restricted pattern language the generators use: a
    pattern is a bare name and ignores every path with a component of that
    name (the entry itself or a parent directory)."""
    return any(c in patterns for c in path.split("/"))


def expected_remote(model, patterns=()):
    """{path: [kind, content, exec]} the remote must hold for this revision."""
    out = {}
    for p, (kind, content, ex, _fid) in tm.snapshot(model).items():
        if p in SPECIAL or ignored_by(patterns, p):
            continue
        out[p] = [kind, content, ex]
    return out


def actual_remote(remote, patterns=()):
    snap = bz.snapshot_fs(remote, skip=())
    marker = snap.pop(MARKER, None)
    out = {}
    for p, v in snap.items():
        if p in SPECIAL or ignored_by(patterns, p):
            continue
        out[p] = v
    return out, marker


def diff_remote(want, got):
    """[(path, wanted, found)] for every differing path."""
    out = []
    for p in sorted(set(want) | set(got)):
        if want.get(p) != got.get(p):
            out.append([p, want.get(p), got.get(p)])
    return out


def classify_diff(d):
    """Short class name of one differing path (for signatures)."""
    _p, want, got = d
    if want is None:
        return "extra-%s-left-on-remote" % got[0]
    if got is None:
        return "%s-missing-on-remote" % want[0]
    if want[0] != got[0]:
        return "%s-uploaded-as-%s" % (want[0], got[0])
    if want[0] == "symlink":
        return "symlink-target-differs"
    if want[1] != got[1]:
        return "file-content-differs"
    return "exec-bit-differs"


def reset_dir(path):
    shutil.rmtree(path, ignore_errors=True)
    os.makedirs(path)


# ---------------------------------------------------------------- model delta

def delta(old, new):
    """Model-level delta between two revisions, by file id.
    -> dict with lists of ids: removed, added, renamed (path changed), kind,
    modified (content), exec (exec bit only) and helper path maps."""
    op, np_ = {}, {}
    for fid in old:
        op[fid] = tm.path_of(old, fid)
    for fid in new:
        np_[fid] = tm.path_of(new, fid)
    d = {"removed": [], "added": [], "renamed": [], "kind": [], "modified": [],
         "exec": [], "old_path": op, "new_path": np_}
    for fid in old:
        if fid not in new:
            d["removed"].append(fid)
    for fid in new:
        if fid == tm.ROOT_ID:
            continue
        if fid not in old:
            d["added"].append(fid)
            continue
        a, b = old[fid], new[fid]
        if a["parent"] != b["parent"] or a["name"] != b["name"]:
            d["renamed"].append(fid)
        if a["kind"] != b["kind"]:
            d["kind"].append(fid)
        elif a["content"] != b["content"]:
            d["modified"].append(fid)
        if a["kind"] == b["kind"] == "file" and a["exec"] != b["exec"]:
            d["exec"].append(fid)
    return d


# ---------------------------------------------------------------- listed classes

def patterns_of(model):
    """Patterns of the revision's own .bzrignore-upload (bare names only)."""
    for fid in tm.children(model, tm.ROOT_ID):
        e = model[fid]
        if e["name"] == ".bzrignore-upload" and e["kind"] == "file":
            return [ln for ln in e["content"].split("\n") if ln]
    return []


def _ancestors(model, fid):
    out = []
    p = model[fid]["parent"]
    while p is not None and p != tm.ROOT_ID:
        out.append(p)
        p = model[p]["parent"]
    return out


def plain(path):
    """Path that reads the same escaped and unescaped."""
    return all(c.isascii() and (c.isalnum() or c in "/._-") for c in path)


def listed_classes(old, new):
    """Names of the listed (open, known) defect classes that an incremental
    upload from revision `old` to revision `new` would run into. Generators
    keep this set empty by construction; the classes are exercised one by one
    in the 'shapes' kind."""
    d = delta(old, new)
    op, np_ = d["old_path"], d["new_path"]
    out = set()
    pats = patterns_of(new)
    moved = set(f for f in old if f in new and op[f] != np_[f])   # path changed
    renamed = set(d["renamed"])
    kindch = set(d["kind"])
    # --- symlinks
    for f, e in new.items():
        if e["kind"] != "symlink":
            continue
        fresh = f not in old or old[f]["kind"] != "symlink"
        if fresh and e["parent"] != tm.ROOT_ID:
            out.add("symlink-created-below-top-level")
        if fresh and not (plain(np_[f]) and plain(e["content"])):
            out.add("symlink-path-or-target-needs-escaping")
        if not fresh and old[f]["content"] != e["content"]:
            out.add("symlink-retargeted")
    # --- exec bit of a renamed file whose text did not change
    for f in renamed:
        a, b = old[f], new[f]
        if a["kind"] == b["kind"] == "file" and a["exec"] != b["exec"] \
                and a["content"] == b["content"]:
            out.add("exec-change-on-renamed-file")
        if a["kind"] != b["kind"]:
            out.add("kind-change-with-rename")
    # --- paths that are stale / not there yet while directories are renamed
    for f in renamed | kindch:
        if any(a in moved for a in _ancestors(old, f)):
            out.add("rename-or-kind-change-below-renamed-directory")
    for f in renamed:
        for a in _ancestors(new, f):
            if a in moved:
                out.add("rename-or-kind-change-below-renamed-directory")
            if a not in old or a in kindch:
                out.add("rename-into-directory-created-by-same-upload")
    # --- rename onto the path of a removed directory that had content
    removed_dirs = set(op[f] for f in d["removed"]
                       if old[f]["kind"] == "directory" and tm.children(old, f))
    for f in renamed:
        if np_[f] in removed_dirs:
            out.add("rename-onto-removed-nonempty-directory")
    for f in d["removed"]:
        if old[f]["kind"] == "directory" and tm.children(old, f) and \
                any(a in moved for a in _ancestors(old, f)):
            out.add("removed-nonempty-directory-below-renamed-directory")
    # --- ignore handling
    for f in renamed:
        if ignored_by(pats, op[f]) != ignored_by(pats, np_[f]):
            out.add("rename-across-ignore-boundary")
    if set(patterns_of(old)) - set(pats):
        out.add("ignore-pattern-dropped")
    for f in tm.children(old, tm.ROOT_ID):
        if old[f]["name"] in SPECIAL and (f not in new or f in renamed
                                           or f in kindch):
            out.add("special-file-removed-or-renamed")
    return out


def stale_after_full(old, new):
    """Paths a full upload of `new` over a remote holding `old` leaves behind
    (listed class: a full upload never deletes)."""
    pats = patterns_of(new)
    have = expected_remote(new, pats)
    return sorted(p for p in expected_remote(old, patterns_of(old))
                  if p not in have and not ignored_by(pats, p))


def full_upload_classes(old, new):
    """Listed classes a full upload of `new` over a remote holding `old` hits."""
    out = set()
    if stale_after_full(old, new):
        out.add("full-upload-leaves-stale-paths")
    pats = patterns_of(new)
    have = expected_remote(old, patterns_of(old))
    for p, v in expected_remote(new, pats).items():
        if v[0] == "symlink" and p in have and have[p][0] == "file":
            out.add("full-upload-symlink-over-remote-file")
        if v[0] == "symlink" and not (plain(p) and plain(v[1])):
            out.add("symlink-path-or-target-needs-escaping")
    return out
