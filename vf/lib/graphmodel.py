"""Revision-graph reference model, written independently of vcsgraph.

A graph is a dict  rev -> tuple(parents).  Parents that are not keys are ghosts.
All functions are plain set algorithms (no caching, no cleverness)."""

NULL = "null:"


def ancestry(parents, rev, include_ghosts=False):
    """All revisions reachable from rev (inclusive) that are present."""
    seen = set()
    stack = [rev]
    while stack:
        x = stack.pop()
        if x in seen:
            continue
        if x not in parents:
            if include_ghosts and x != NULL:
                seen.add(x)
            continue
        seen.add(x)
        stack.extend(parents[x])
    return seen


def ancestry_many(parents, revs):
    out = set()
    for r in revs:
        out |= ancestry(parents, r)
    return out


def is_ancestor(parents, a, b):
    """a is an ancestor of (or equal to) b."""
    return a in ancestry(parents, b)


def heads(parents, cands):
    """Maximal elements: candidates that are not a proper ancestor of another."""
    cands = list(dict.fromkeys(cands))
    out = []
    for c in cands:
        dominated = False
        for o in cands:
            if o != c and c in ancestry(parents, o):
                dominated = True
                break
        if not dominated:
            out.append(c)
    return out


def lefthand(parents, rev):
    """Left-hand history oldest-first; stops at a ghost/null."""
    out = []
    seen = set()
    while rev in parents and rev not in seen:
        seen.add(rev)
        out.append(rev)
        ps = parents[rev]
        rev = ps[0] if ps else None
    out.reverse()
    return out


def lefthand_hits_ghost(parents, rev):
    seen = set()
    while True:
        if rev is None or rev == NULL:
            return False
        if rev not in parents:
            return True
        if rev in seen:
            return False
        seen.add(rev)
        ps = parents[rev]
        rev = ps[0] if ps else None


def lcas(parents, a, b):
    """Lowest common ancestors = heads of the common ancestry."""
    common = ancestry(parents, a) & ancestry(parents, b)
    return heads(parents, sorted(common))


def topo_order(parents):
    """Deterministic topological order (parents first)."""
    out = []
    seen = set()

    def visit(r):
        stack = [(r, False)]
        while stack:
            x, done = stack.pop()
            if done:
                out.append(x)
                continue
            if x in seen or x not in parents:
                continue
            seen.add(x)
            stack.append((x, True))
            for p in reversed(parents[x]):
                if p not in seen:
                    stack.append((p, False))
    for r in sorted(parents):
        visit(r)
    return out


def children(parents):
    ch = {r: [] for r in parents}
    for r, ps in parents.items():
        for p in ps:
            if p in ch:
                ch[p].append(r)
    return ch
