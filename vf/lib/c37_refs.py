"""C37 helpers: an independent model of git ref storage (loose + packed +
symbolic), fixtures on local / memory transports, raw observation."""

import os

SYMREF = b"ref: "
ZERO = b"0" * 40
NAMES = [b"HEAD", b"refs/heads/a", b"refs/heads/b", b"refs/heads/dir/c",
         b"refs/heads/w#1", b"refs/tags/t"]
SHAS = [bytes([c]) * 40 for c in b"123456"]


def sha(k):
    return SHAS[k]


class RefModel:
    """loose: name -> raw content (sha or b'ref: <name>'); packed: name -> sha.
    Semantics as documented for RefsContainer: reads prefer loose over packed,
    set_if_equals / add_if_new follow symbolic refs to the last name of the
    chain, remove_if_equals does not follow."""

    def __init__(self, loose=None, packed=None):
        self.loose = dict(loose or {})
        self.packed = dict(packed or {})

    def copy(self):
        return RefModel(self.loose, self.packed)

    def state(self):
        return (dict(self.loose), dict(self.packed))

    def read(self, name):
        v = self.loose.get(name)
        if v is None:
            v = self.packed.get(name)
        return v

    def follow(self, name):
        """-> (last name of the chain, sha or None)"""
        cur = name
        for _ in range(8):
            v = self.read(cur)
            if v is None or not v.startswith(SYMREF):
                return cur, v
            cur = v[len(SYMREF):]
        raise AssertionError("symref loop in generated state")

    def resolve(self, name):
        return self.follow(name)[1]

    def hops(self, name):
        """number of symbolic refs on the chain starting at `name`"""
        n, cur = 0, name
        while n < 8:
            v = self.read(cur)
            if v is None or not v.startswith(SYMREF):
                return n
            n, cur = n + 1, v[len(SYMREF):]
        return n

    def is_symbolic(self, name):
        v = self.read(name)
        return v is not None and v.startswith(SYMREF)

    def current(self, name):
        """The value a conditional update of `name` is compared with."""
        _real, v = self.follow(name)
        return v if v is not None else ZERO

    def set_if_equals(self, name, old, new):
        real, v = self.follow(name)
        cur = v if v is not None else ZERO
        if old is not None and cur != old:
            return False
        self.loose[real] = new
        return True

    def add_if_new(self, name, new):
        real, v = self.follow(name)
        if v is not None:
            return False
        self.loose[real] = new
        return True

    def remove_if_equals(self, name, old):
        raw = self.read(name)
        cur = raw if raw is not None else ZERO
        if old is not None and cur != old:
            return False
        self.loose.pop(name, None)
        self.packed.pop(name, None)
        return True

    def set_symbolic_ref(self, name, other):
        self.loose[name] = SYMREF + other


def model_from_case(case):
    m = RefModel()
    for idx, kind, v in case["loose"]:
        m.loose[NAMES[idx]] = sha(v) if kind == "sha" else SYMREF + NAMES[v]
    for idx, k in case["packed"]:
        m.packed[NAMES[idx]] = sha(k)
    return m


def packed_bytes(packed, header):
    lines = []
    if header:
        lines.append(b"# pack-refs with: peeled fully-peeled sorted \n")
    for name in sorted(packed):
        lines.append(packed[name] + b" " + name + b"\n")
    return b"".join(lines)


def write_state(transport, model, header=True):
    """Lay the model out below a (plain) transport rooted at the git dir."""
    from breezy import urlutils
    for name, raw in sorted(model.loose.items()):
        rel = urlutils.quote_from_bytes(name)
        if "/" in rel:
            transport.clone(os.path.dirname(rel)).create_prefix()
        transport.put_bytes(rel, raw + b"\n")
    if model.packed:
        transport.put_bytes("packed-refs", packed_bytes(model.packed, header))


def read_state(transport):
    """(loose, packed) as stored, read without the refs container."""
    return read_state_names(transport, NAMES)


def read_state_names(transport, names):
    from breezy import urlutils
    from dromedary.errors import NoSuchFile, ReadError
    loose = {}
    for name in names:
        try:
            raw = transport.get_bytes(urlutils.quote_from_bytes(name))
        except (NoSuchFile, ReadError):
            continue
        loose[name] = raw.rstrip(b"\r\n")
    packed = {}
    try:
        data = transport.get_bytes("packed-refs")
    except NoSuchFile:
        data = b""
    for line in data.splitlines():
        if not line or line.startswith(b"#") or line.startswith(b"^"):
            continue
        s, n = line.split(b" ", 1)
        packed[n] = s
    return loose, packed


def new_gitdir_transport(kind, path):
    """A bare git control directory on the given transport kind."""
    from breezy.git.transportgit import TransportRepo
    if kind == "memory":
        from dromedary.memory import MemoryTransport
        t = MemoryTransport("memory:///")
    else:
        from breezy import transport as _t
        os.makedirs(path)
        t = _t.get_transport(path)
    TransportRepo.init(t, bare=True)
    # init writes HEAD -> refs/heads/master; start from a clean slate
    t.delete("HEAD")
    return t


def container(transport):
    from breezy.git.transportgit import TransportRefsContainer
    return TransportRefsContainer(transport)


# ------------------------------------------------------------------ schedules

class DfsScheduler:
    """Drives vf.seam.ft.Scheduler-style cooperative actors, but with an
    explicit prefix of actor names; beyond the prefix the running actor keeps
    the baton (no pre-emption).  Records every decision so that all
    interleavings can be enumerated by depth-first replay."""

    def __init__(self, prefix, max_steps=400):
        import threading
        from vf.seam import ft
        self._ft = ft
        self.prefix = list(prefix)
        self.sems = {}
        self.done = set()
        self.main = threading.Semaphore(0)
        self.errors = {}
        self.results = {}
        self.trace = []
        self.decisions = []       # (chosen, live tuple, last)
        self.max_steps = max_steps
        self.exhausted = False

    # the seam calls this before every transport operation of an actor
    def yield_point(self, desc):
        a = self._ft.current_actor()
        if a is None or a not in self.sems:
            return
        self.trace.append((a, desc[0], desc[1]))
        self.main.release()
        self.sems[a].acquire()
        if self.exhausted:
            raise self._ft.Crash("schedule step bound exceeded")

    def run(self, actors):
        import threading
        ft = self._ft
        threads = []
        for name, fn in actors.items():
            self.sems[name] = threading.Semaphore(0)

            def body(name=name, fn=fn):
                ft._tl.actor = name
                self.sems[name].acquire()
                try:
                    if not self.exhausted:
                        self.results[name] = fn()
                    self.errors[name] = None
                except BaseException as e:  # noqa: BLE001 - handed to caller
                    self.errors[name] = e
                finally:
                    self.done.add(name)
                    ft._tl.actor = None
                    self.main.release()
            th = threading.Thread(target=body, daemon=True)
            threads.append(th)
            th.start()
        names = sorted(actors)
        last = None
        step = 0
        while True:
            live = [a for a in names if a not in self.done]
            if not live:
                break
            if step >= self.max_steps:
                self.exhausted = True
                for a in live:
                    self.sems[a].release()
                    self.main.acquire()
                continue
            if step < len(self.prefix) and self.prefix[step] in live:
                a = self.prefix[step]
            elif last in live:
                a = last
            else:
                a = live[0]
            self.decisions.append((a, tuple(live), last))
            last = a
            step += 1
            self.sems[a].release()
            self.main.acquire()
        for th in threads:
            th.join(10)
        return self.errors


def preemptions(decisions):
    return sum(1 for a, live, last in decisions
               if last is not None and last in live and a != last)


def enumerate_schedules(run_one, max_preempt):
    """run_one(prefix) -> DfsScheduler after the run.  Yields every scheduler
    (one per distinct interleaving with <= max_preempt pre-emptions)."""
    stack = [[]]
    while stack:
        prefix = stack.pop()
        sch = run_one(prefix)
        dec = sch.decisions
        yield sch
        for i in range(len(prefix), len(dec)):
            chosen, live, last = dec[i]
            for alt in live:
                if alt == chosen:
                    continue
                cand = [d[0] for d in dec[:i]] + [alt]
                cost = preemptions(dec[:i]) + (
                    1 if last is not None and last in live and alt != last
                    else 0)
                if cost <= max_preempt:
                    stack.append(cand)


def patch_seam_write_stream():
    """transportgit uses `with transport.open_write_stream(...) as f`; the
    seam's stream wrapper has no context-manager protocol.  Added here (own
    helper) instead of editing the shared seam."""
    from vf.seam import ft
    ws = ft._WriteStream
    if not hasattr(ws, "__enter__"):
        def _enter(self):
            return self

        def _exit(self, *exc):
            self.close()
            return False
        ws.__enter__ = _enter
        ws.__exit__ = _exit


def execution_order(sch):
    """The transport operations in the order they were EXECUTED (an actor
    parks before an operation; it is carried out in the actor's next step)."""
    per = {}
    for a, op, p in sch.trace:
        per.setdefault(a, []).append((a, op, p))
    ptr = {a: 0 for a in per}
    out = []
    for a, _live, _last in sch.decisions:
        i = ptr.get(a, 0)
        if i > 0 and i - 1 < len(per.get(a, ())):
            out.append(per[a][i - 1])
        ptr[a] = i + 1
    return out
