"""C04 helpers: generated pack-repository pre-states, the operations whose
crash points are enumerated, and the post-crash oracle.

History shape: a linear source history r0, r1, ... whose content is a pure
function of (nfiles, sizes), so the oracle owns an independent model of every
revision's tree; commits made on the target are c0, c1, ... on top of the
branch tip."""

import hashlib
import os
import shutil
from unittest import mock

from vf.api import check
from vf.seam import ft

T0 = 1000000000
COMMITTER = "Verif Tester <verif@example.com>"
PACK_DIRS = ("packs", "indices", "upload", "obsolete_packs")


def sha1(b):
    return hashlib.sha1(b).hexdigest()


def rid(i):
    return b"r%d" % i


def cid(i):
    return b"c%d" % i


def content(tag, size):
    """size bytes of mildly compressible text that differs per tag."""
    line = ("%s line %%05d abcdefghij\n" % tag).encode("ascii")
    out = []
    n = 0
    i = 0
    while n < size:
        ln = line % i
        out.append(ln)
        n += len(ln)
        i += 1
    return b"".join(out)[:max(1, size)]


# ------------------------------------------------------------- history model

def src_actions(i, nfiles, sizes):
    """BranchBuilder actions of source revision i, and the same as model
    edits [(path, kind, bytes|None)]."""
    size = sizes[i % len(sizes)]
    if i == 0:
        acts = [("add", ("", b"root-id", "directory", None))]
        edits = []
        for f in range(nfiles):
            c = content("r0f%d" % f, size)
            acts.append(("add", ("f%d" % f, b"f%d-id" % f, "file", c)))
            edits.append(("f%d" % f, "file", c))
        return acts, edits
    acts, edits = [], []
    f = i % nfiles
    c = content("r%df%d" % (i, f), size)
    acts.append(("modify", ("f%d" % f, c)))
    edits.append(("f%d" % f, "file", c))
    if i % 4 == 3:
        if i == 3:
            acts.append(("add", ("d", b"d-id", "directory", None)))
            edits.append(("d", "directory", None))
        c2 = content("r%dg" % i, max(8, size // 4))
        acts.append(("add", ("d/g%d" % i, b"g%d-id" % i, "file", c2)))
        edits.append(("d/g%d" % i, "file", c2))
    return acts, edits


def apply_edits(model, edits):
    m = dict(model)
    for path, kind, c in edits:
        m[path] = (kind, sha1(c) if kind == "file" else None)
    return m


class Models:
    """rev id -> (parents, {path: (kind, sha1)})"""

    def __init__(self, nfiles, sizes):
        self.nfiles = nfiles
        self.sizes = sizes
        self.revs = {}

    def ensure_src(self, n):
        m = {}
        for i in range(n):
            if rid(i) in self.revs:
                m = self.revs[rid(i)][1]
                continue
            _, edits = src_actions(i, self.nfiles, self.sizes)
            m = apply_edits(m, edits)
            self.revs[rid(i)] = ((rid(i - 1),) if i else (), m)

    def commit_actions(self, k, tip):
        """Actions + model for target commit c<k> on top of `tip`."""
        size = self.sizes[k % len(self.sizes)]
        c = content("c%d" % k, size)
        if tip == b"null:":
            acts = [("add", ("", b"root-id", "directory", None)),
                    ("add", ("f0", b"f0-id", "file", c))]
            base = {}
            parents = ()
        else:
            acts = [("modify", ("f0", c))]
            base = self.revs[tip][1]
            parents = (tip,)
        self.revs[cid(k)] = (parents, apply_edits(base, [("f0", "file", c)]))
        return acts


def _bb_commit(branch, parent_ids, acts, revision_id, ts):
    from breezy.branchbuilder import BranchBuilder
    bb = BranchBuilder(branch=branch)
    bb.start_series()
    try:
        bb.build_snapshot(parent_ids, acts, revision_id=revision_id,
                          timestamp=ts, timezone=0, committer=COMMITTER,
                          message="m " + revision_id.decode("ascii"))
    finally:
        bb.finish_series()


def build_source(path, fmt, n, models):
    from vf.lib import bz
    br = bz.init_branch(path, fmt)
    from breezy.branchbuilder import BranchBuilder
    bb = BranchBuilder(branch=br)
    bb.start_series()
    try:
        for i in range(n):
            acts, _ = src_actions(i, models.nfiles, models.sizes)
            bb.build_snapshot(None if i == 0 else [rid(i - 1)], acts,
                              revision_id=rid(i), timestamp=T0 + i, timezone=0,
                              committer=COMMITTER, message="m r%d" % i)
    finally:
        bb.finish_series()
    models.ensure_src(n)
    return br


def no_autopack():
    from breezy.bzr.pack_repo import RepositoryPackCollection
    return mock.patch.object(RepositoryPackCollection, "autopack",
                             lambda self: None)


def build_target(path, fmt, src_repo, pack_sizes, prepack_after=None):
    """A standalone branch whose repository holds one pack per entry of
    pack_sizes (consecutive source revisions), built with autopack disabled
    (harness-side, only while building).  prepack_after=i: after the first i
    packs a real pack() runs, so obsolete_packs/ is populated naturally."""
    from vf.lib import bz
    br = bz.init_branch(path, fmt)
    repo = br.repository
    n = 0
    with no_autopack():
        for j, s in enumerate(pack_sizes):
            n += s
            repo.fetch(src_repo, rid(n - 1))
            if prepack_after is not None and j + 1 == prepack_after:
                with repo.lock_write():
                    repo.pack()
    if n:
        br.generate_revision_history(rid(n - 1))
    return n


def write_junk(path):
    """Files an earlier dead process could have left in the pack directories."""
    base = os.path.join(path, ".bzr", "repository")
    with open(os.path.join(base, "upload", "junkjunkjunkjunkjunk.pack"),
              "wb") as f:
        f.write(b"Bazaar pack format 1 (introduced in 0.18)\npartial")
    h = "0123456789abcdef0123456789abcdef"
    with open(os.path.join(base, "indices", h + ".rix"), "wb") as f:
        f.write(b"B+Tree Graph Index 2\nnode_ref_lists=1\n")
    with open(os.path.join(base, "packs", h + ".pack"), "wb") as f:
        f.write(b"Bazaar pack format 1 (introduced in 0.18)\n")
    os.makedirs(os.path.join(base, "obsolete_packs"), exist_ok=True)
    with open(os.path.join(base, "obsolete_packs", "f" * 32 + ".pack"),
              "wb") as f:
        f.write(b"old")


# ------------------------------------------------------------- operations

class Ctx:
    """What the next operation is relative to: visible revisions and tip."""

    def __init__(self, revs, tip):
        self.revs = frozenset(revs)
        self.tip = tip
        self.nsrc = len([r for r in revs if r.startswith(b"r")])
        self.ncommit = len([r for r in revs if r.startswith(b"c")])


def plan_op(op, ctx, models, nsrc_total):
    """-> (added revision ids, new tip, callable(base_url_or_path))."""
    from breezy import branch as _b, repository as _r
    kind = op["op"]
    if kind == "commit":
        new = cid(ctx.ncommit)
        acts = models.commit_actions(ctx.ncommit, ctx.tip)
        parents = [] if ctx.tip == b"null:" else [ctx.tip]
        ts = T0 + 5000 + ctx.ncommit

        def run(base):
            br = _b.Branch.open(base)
            _bb_commit(br, parents, acts, new, ts)
        return frozenset([new]), new, run
    if kind == "fetch":
        m = min(op.get("n", 1), nsrc_total - ctx.nsrc)
        added = frozenset(rid(i) for i in range(ctx.nsrc, ctx.nsrc + m))
        last = rid(ctx.nsrc + m - 1)
        src_path = op["src"]

        def run(base):
            src = _r.Repository.open(src_path)
            r = _r.Repository.open(base)
            r.fetch(src, last)
        return added, ctx.tip, run
    if kind in ("pack", "pack-clean"):
        clean = kind == "pack-clean"

        def run(base):
            r = _r.Repository.open(base)
            with r.lock_write():
                r.pack(clean_obsolete_packs=clean)
        return frozenset(), ctx.tip, run
    if kind == "pack-hint":
        idx = op["hint"]

        def run(base):
            r = _r.Repository.open(base)
            with r.lock_write():
                names = r._pack_collection.names()
                hint = sorted({names[i % len(names)] for i in idx})
                r.pack(hint=hint)
        return frozenset(), ctx.tip, run
    if kind == "resume-commit":
        tokens = list(op["tokens"])
        added = frozenset(rid(i) for i in range(ctx.nsrc,
                                                ctx.nsrc + op["n"]))

        def run(base):
            r = _r.Repository.open(base)
            r.lock_write()
            try:
                r.resume_write_group(tokens)
                r.commit_write_group()
            finally:
                r.unlock()
        return added, ctx.tip, run
    raise ValueError(kind)


def suspend_groups(path, src_repo, nsrc, chunks, total):
    """Leave one suspended write group in the repository at `path`: the
    source revisions nsrc.. in len(chunks) suspended packs (suspend + resume
    between chunks).  -> tokens"""
    from breezy import repository as _r
    from vf.lib.c06_wg import Universe
    u = Universe(src_repo, total)
    stores = ["texts"] + (["chk_bytes"] if u.chk else []) + [
        "inventories", "revisions"]
    tokens = None
    i = nsrc
    with src_repo.lock_read():
        for n in chunks:
            r = _r.Repository.open(path)
            r.lock_write()
            try:
                if tokens is None:
                    r.start_write_group()
                else:
                    r.resume_write_group(tokens)
                for k in range(i, i + n):
                    for vf in stores:
                        keys = u.keys_for(vf, k, [])
                        if keys:
                            getattr(r, vf).insert_record_stream(
                                getattr(src_repo, vf).get_record_stream(
                                    keys, "unordered", True))
                tokens = r.suspend_write_group()
            finally:
                r.unlock()
            i += n
    return tokens


def vary_obsolete_dir(path, how):
    """Pre-state variants of obsolete_packs/: 'missing' (directory removed,
    the fallback mkdir path of _obsolete_packs), 'copy' (a live pack's files
    are also there, as after a concurrent writer obsoleted it first)."""
    base = os.path.join(path, ".bzr", "repository")
    obs = os.path.join(base, "obsolete_packs")
    if how == "missing":
        shutil.rmtree(obs, ignore_errors=True)
    elif how == "copy":
        os.makedirs(obs, exist_ok=True)
        packs = sorted(os.listdir(os.path.join(base, "packs")))
        if packs:
            stem = packs[0].split(".")[0]
            for d in ("packs", "indices"):
                for fn in os.listdir(os.path.join(base, d)):
                    if fn.startswith(stem + "."):
                        shutil.copy(os.path.join(base, d, fn),
                                    os.path.join(obs, fn))


# ------------------------------------------------------------- observation

def _pack_names(repo_path, index_class):
    """{name: (sizes...)} parsed with the trusted-base index reader."""
    from breezy import transport as _t
    t = _t.get_transport(os.path.join(repo_path, ".bzr", "repository"))
    out = {}
    for _idx, key, value in index_class(t, "pack-names",
                                        None).iter_all_entries():
        out[key[0].decode("ascii")] = tuple(
            int(x) for x in value.split(b" "))
    return out


def listing_ok(path, repo, sig):
    """pack-names parses and every listed pack and index exists with the
    listed size."""
    names = _pack_names(path, repo._pack_collection._index_class)
    base = os.path.join(path, ".bzr", "repository")
    suffixes = [".rix", ".iix", ".tix", ".six"]
    if repo._format.supports_chks:
        suffixes.append(".cix")
    for name, sizes in sorted(names.items()):
        p = os.path.join(base, "packs", name + ".pack")
        check(os.path.isfile(p), sig + "listed-pack-missing",
              {"pack": name})
        check(len(sizes) == len(suffixes), sig + "pack-names-size-count",
              {"pack": name, "sizes": sizes})
        for sfx, size in zip(suffixes, sizes):
            ip = os.path.join(base, "indices", name + sfx)
            check(os.path.isfile(ip), sig + "listed-index-missing",
                  {"index": name + sfx})
            check(os.path.getsize(ip) == size, sig + "listed-index-size",
                  {"index": name + sfx, "listed": size,
                   "actual": os.path.getsize(ip)})
    return names


def leftovers(path, names):
    base = os.path.join(path, ".bzr", "repository")
    out = []
    for d in PACK_DIRS:
        p = os.path.join(base, d)
        if not os.path.isdir(p):
            continue
        for fn in sorted(os.listdir(p)):
            stem = fn.split(".", 1)[0]
            if d in ("packs", "indices") and stem in names:
                continue
            out.append(os.path.join(d, fn))
    return out


def check_clean(result, sig, where):
    bad = {}
    if result._report_items:
        bad["report"] = list(result._report_items)
    if result.missing_parent_links:
        bad["missing_parent_links"] = sorted(result.missing_parent_links)
    if result.inconsistent_parents:
        bad["inconsistent_parents"] = [list(x) for x in
                                       result.inconsistent_parents]
    if result.missing_inventory_sha_cnt:
        bad["missing_inventory_sha"] = result.missing_inventory_sha_cnt
    if result.missing_revision_cnt:
        bad["missing_revision"] = result.missing_revision_cnt
    if result.ghosts:
        bad["ghosts"] = sorted(result.ghosts)
    if getattr(result, "revs_with_bad_parents_in_index", None):
        bad["bad_index_parents"] = [list(x) for x in
                                    result.revs_with_bad_parents_in_index]
    check(not bad, sig + "check-not-clean", [where, bad])


def read_state(path, break_locks=False):
    """(revision set, tip) as fresh objects on the plain transport report."""
    from breezy import controldir
    cd = controldir.ControlDir.open(path)
    br = cd.open_branch()
    if break_locks:
        br.break_lock()
    repo = br.repository
    with repo.lock_read():
        revs = frozenset(repo.all_revision_ids())
    return revs, br.last_revision()


def verify(path, allowed, models, where, sig="C04/", break_locks=True,
           deep=True):
    """The post-crash oracle.  allowed: list of (revision set, tip set).
    Returns (revs, tip)."""
    from breezy import controldir
    cd = controldir.ControlDir.open(path)
    br = cd.open_branch()
    if break_locks:
        # what `brz break-lock` does: branch lock, then repository lock
        br.break_lock()
    repo = br.repository
    with repo.lock_read():
        revs = frozenset(repo.all_revision_ids())
        match = [a for a in allowed if a[0] == revs]
        check(match, sig + "revision-set-neither-old-nor-new",
              [where, sorted(revs), [sorted(a[0]) for a in allowed]])
        tip = br.last_revision()
        check(tip in match[0][1], sig + "branch-tip-not-old-or-new",
              [where, tip, sorted(match[0][1])])
        check(tip == b"null:" or tip in revs, sig + "branch-tip-not-present",
              [where, tip])
        read = {}           # stored text (file id, revision) -> sha1 read
        order = sorted(revs)
        trees = list(repo.revision_trees(order))
        for r, tree in zip(order, trees):
            parents, model = models.revs[r]
            rev = repo.get_revision(r)
            check(tuple(rev.parent_ids) == parents,
                  sig + "revision-parents-differ", [where, r])
            check(tree.get_revision_id() == r,
                  sig + "revision-tree-for-other-revision", [where, r])
            seen = {}
            for p, ie in tree.iter_entries_by_dir():
                if p == "":
                    continue
                if ie.kind == "file":
                    # every stored text is read once (an unchanged file is
                    # the same stored text in the next revision)
                    tk = (ie.file_id, ie.revision)
                    s = read.get(tk)
                    if s is None:
                        s = read[tk] = sha1(tree.get_file_text(p))
                    isha = ie.text_sha1
                    if isinstance(isha, bytes):
                        isha = isha.decode("ascii")
                    check(s == isha,
                          sig + "text-sha1-differs-from-inventory",
                          [where, r, p])
                    seen[p] = ("file", s)
                else:
                    seen[p] = (ie.kind, None)
            check(seen == model, sig + "revision-tree-differs-from-model",
                  [where, r, sorted(seen), sorted(model)])
    names = listing_ok(path, repo, sig)
    if deep:
        check_clean(repo.check(), sig, where)
    return revs, tip, names


def leftover_independent(path, names, revs, tip, where, sig="C04/"):
    """Move every file that pack-names does not list out of the pack
    directories, ask again, put them back."""
    lo = leftovers(path, names)
    if not lo:
        return 0
    base = os.path.join(path, ".bzr", "repository")
    hold = os.path.join(path, ".vf-hold")
    os.makedirs(hold)
    moved = []
    try:
        for i, rel in enumerate(lo):
            dst = os.path.join(hold, "%d" % i)
            os.rename(os.path.join(base, rel), dst)
            moved.append((rel, dst))
        revs2, tip2 = read_state(path)
        check(revs2 == revs and tip2 == tip,
              sig + "answer-depends-on-leftover-files",
              [where, sorted(revs), sorted(revs2), lo])
    finally:
        for rel, dst in moved:
            os.rename(dst, os.path.join(base, rel))
        os.rmdir(hold)
    return len(lo)


def touches_pack_state(name, path):
    p = path.split("/.bzr/repository/", 1)
    if len(p) != 2:
        return False
    rest = p[1]
    return rest.startswith(("pack-names", "packs/", "indices/",
                            "obsolete_packs/"))


def copy_state(src, dst):
    if os.path.exists(dst):
        shutil.rmtree(dst)
    shutil.copytree(src, dst, symlinks=True)
