"""Shared machinery of C29 / C30 (smart protocol framing).

* recording request verbs registered with the smart request registry,
* encoders: the real client / server encoders writing into collecting sinks,
* an independent reference parser of the three wire formats (written from
  doc/developers/network-protocol.txt) - used to locate framing regions
  (length prefixes, chunk headers, terminators) and, in C30, to read the
  server's answer without the code under test,
* segmenting pipes / media that hand the bytes to the real decoders,
* Hypothesis strategies for messages, segmentations and short-read patterns.

Cases are JSON: bytes travel as latin-1 str (api.b2s / s2b).
"""

import struct
from collections import deque

from hypothesis import strategies as st

from vf.api import b2s, check, s2b

V3_MARKER = b"bzr message 3 (bzr 1.6)\n"
V2_REQ = b"bzr request 2\n"
V2_RESP = b"bzr response 2\n"

VERB_NOBODY = b"vf.rec"
VERB_BODY = b"vf.recbody"
VERB_UNKNOWN = b"vf.no-such-verb"

# v1 has no failure flag on the wire: a response is an error iff its first
# argument is one of these (SmartClientRequestProtocolOne._raise_args_if_error)
V1_ERROR_CODES = [
    "norepository", "NoSuchFile", "FileExists", "DirectoryNotEmpty",
    "ShortReadvError", "ReadOnlyError", "nobranch", "NoSuchRevision",
    "LockContention", "UnlockableTransport", "LockFailed", "TokenMismatch",
    "ReadError", "PermissionDenied"]

REC = []          # events appended by the recording verbs


class ReadPastEnd(BaseException):
    """The subject read from a pipe that has nothing left of the current
    message: on a real pipe this read blocks for ever."""


class StreamBoom(Exception):
    """Raised by generated request body streams."""


# ------------------------------------------------------------ recording verbs

def install_verbs():
    from breezy.bzr.smart import request
    if getattr(install_verbs, "done", False):
        return

    class RecNoBody(request.SmartServerRequest):
        def do(self, *args):
            REC.append(("args", tuple(args)))
            return request.SuccessfulSmartServerResponse(
                (b"ok",) + tuple(args))

    class RecBody(request.SmartServerRequest):
        def do(self, *args):
            REC.append(("args", tuple(args)))
            self._vf = []
            return None

        def do_chunk(self, chunk_bytes):
            REC.append(("chunk", chunk_bytes))
            self._vf.append(chunk_bytes)

        def do_end(self):
            REC.append(("end",))
            body = b"".join(self._vf)
            return request.SuccessfulSmartServerResponse(
                (b"ok", b"%d" % len(body)), body)

    request.request_handlers.register(VERB_NOBODY, RecNoBody,
                                      override_existing=True)
    request.request_handlers.register(VERB_BODY, RecBody,
                                      override_existing=True)
    install_verbs.done = True


def rec_summary(events, exact_chunks):
    """Canonical form of REC: chunk pieces are joined unless the framing
    promises to keep them (v3 BYTES parts)."""
    out = []
    for e in events:
        if e[0] == "chunk" and not exact_chunks:
            if out and out[-1][0] == "chunk":
                out[-1] = ("chunk", out[-1][1] + e[1])
            elif e[1]:
                out.append(("chunk", e[1]))
        else:
            out.append(tuple(e))
    return out


# ------------------------------------------------------------ case <-> values

def wire(x):
    """JSON value -> argument value (str -> bytes, list -> tuple)."""
    if isinstance(x, str):
        return s2b(x)
    if isinstance(x, list):
        return tuple(wire(y) for y in x)
    return x


def wire_args(msg):
    return tuple(wire(a) for a in msg["args"])


class CollectRequest:
    """Byte-collecting stand-in for a SmartClientMediumRequest."""

    def __init__(self):
        self.buf = []
        self.fw = 0
        self.fr = 0

    def accept_bytes(self, b):
        self.buf.append(b)

    def finished_writing(self):
        self.fw += 1

    def finished_reading(self):
        self.fr += 1


def req_verb(msg):
    return {"nobody": VERB_NOBODY, "body": VERB_BODY,
            "unknown": VERB_UNKNOWN}.get(msg["verb"]) or s2b(msg["verb"])


def req_has_body(msg):
    return msg.get("body") is not None


def encode_request(msg):
    """Real client encoder -> (bytes, info)."""
    from breezy.bzr.smart import protocol
    version = msg["v"]
    mr = CollectRequest()
    if version == 3:
        r = protocol.ProtocolThreeRequester(mr)
        r.set_headers({s2b(k): s2b(v)
                       for k, v in sorted(msg.get("hdr", {}).items())})
    elif version == 2:
        r = protocol.SmartClientRequestProtocolTwo(mr)
    else:
        r = protocol.SmartClientRequestProtocolOne(mr)
    args = (req_verb(msg),) + wire_args(msg)
    body = msg.get("body")
    info = {"raised": False}
    if body is None:
        r.call(*args)
    elif body["t"] == "bytes":
        r.call_with_body_bytes(args, s2b(body["d"]))
    elif body["t"] == "readv":
        r.call_with_body_readv_array(args, [tuple(o) for o in body["o"]])
    elif body["t"] == "stream":
        chunks = [s2b(c) for c in body["c"]]
        err = body.get("err")

        def gen():
            for i, c in enumerate(chunks):
                if err is not None and err == i:
                    raise StreamBoom("generated stream failure")
                yield c
            if err is not None and err >= len(chunks):
                raise StreamBoom("generated stream failure")
        try:
            r.call_with_body_stream(args, gen())
        except StreamBoom:
            info["raised"] = True
    else:
        raise ValueError(body)
    info["finished_writing"] = mr.fw
    return b"".join(mr.buf), info


def req_body_bytes(msg):
    """The body the server side has to see, from the case alone."""
    body = msg.get("body")
    if body is None:
        return None
    if body["t"] == "bytes":
        return s2b(body["d"])
    if body["t"] == "readv":
        return b"\n".join(b"%d,%d" % (s, n) for s, n in body["o"])
    chunks = [s2b(c) for c in body["c"]]
    if body.get("err") is not None:
        chunks = chunks[:body["err"]]
    return b"".join(chunks)


def expected_rec(msg):
    """REC events the recording verbs must have seen (exact chunk form)."""
    ev = [("args", wire_args(msg))]
    body = msg.get("body")
    if msg["verb"] == "nobody":
        return ev
    if body is None:
        return ev + [("end",)]
    if body["t"] == "stream":
        chunks = [s2b(c) for c in body["c"]]
        if body.get("err") is not None:
            chunks = chunks[:body["err"]]
        ev += [("chunk", c) for c in chunks]
    else:
        ev.append(("chunk", req_body_bytes(msg)))
    return ev + [("end",)]


# -- responses

# exceptions a body stream may raise and the error tuple the client has to
# receive for them (stated here independently of request._translate_error)
def stream_errors():
    from breezy import errors
    from bzrformats import errors as fe
    from dromedary import errors as te
    return {
        "NoSuchFile": (lambda p: te.NoSuchFile(p),
                       lambda p: (b"NoSuchFile", p.encode("utf-8"))),
        "FileExists": (lambda p: te.FileExists(p),
                       lambda p: (b"FileExists", p.encode("utf-8"))),
        "DirectoryNotEmpty": (lambda p: te.DirectoryNotEmpty(p),
                              lambda p: (b"DirectoryNotEmpty",
                                         p.encode("utf-8"))),
        "LockContention": (lambda p: errors.LockContention(p),
                           lambda p: (b"LockContention",)),
        "TokenMismatch": (lambda p: errors.TokenMismatch(p.encode("utf-8"),
                                                         b"other"),
                          lambda p: (b"TokenMismatch", p.encode("utf-8"),
                                     b"other")),
        "RevisionNotPresent": (
            lambda p: fe.RevisionNotPresent(p.encode("utf-8"), b"file-id"),
            lambda p: (b"RevisionNotPresent", p.encode("utf-8"), b"file-id")),
        "BzrCheckError": (lambda p: fe.BzrCheckError(p),
                          lambda p: (b"BzrCheckError", p.encode("utf-8"))),
        "PermissionDenied": (lambda p: te.PermissionDenied(p, "extra"),
                             lambda p: (b"PermissionDenied",
                                        p.encode("utf-8"), b": extra")),  # PathError stores ": " + extra
        "RuntimeError": (lambda p: RuntimeError(p),
                         lambda p: (b"error", b"RuntimeError",
                                    p.encode("utf-8"))),
    }


def resp_shape(msg):
    body = msg.get("body")
    return "none" if body is None else body["t"]


def make_response(msg):
    from breezy.bzr.smart import request
    cls = (request.SuccessfulSmartServerResponse if msg["ok"]
           else request.FailedSmartServerResponse)
    args = wire_args(msg)
    body = msg.get("body")
    if body is None:
        return cls(args)
    if body["t"] == "bytes":
        return cls(args, s2b(body["d"]))
    chunks = [s2b(c) for c in body["c"]]
    err = body.get("err")
    # (built here: an exception raised inside the generator is the stream's)
    exc = None
    if err is not None and err["how"] == "exc":
        exc = stream_errors()[err["exc"]][0](err["p"])

    def gen():
        for i, c in enumerate(chunks + [None]):
            if err is not None and err["at"] == i:
                if err["how"] == "failed":
                    yield request.FailedSmartServerResponse(
                        tuple(wire(a) for a in err["args"]))
                    return
                raise exc
            if c is not None:
                yield c
    return cls(args, body_stream=gen())


def expected_response(msg):
    """Decoded form the client must report."""
    args = wire_args(msg)
    # a v1 response carries no failure flag: see V1_ERROR_CODES
    if not msg["ok"]:
        return {"status": "err", "args": args}
    res = {"status": "ok", "args": args}
    body = msg.get("body")
    if body is None:
        return res
    if body["t"] == "bytes":
        res["body"] = s2b(body["d"])
        return res
    chunks = [s2b(c) for c in body["c"]]
    err = body.get("err")
    if err is not None:
        chunks = chunks[:err["at"]]
        if err["how"] == "failed":
            res["stream_err"] = tuple(wire(a) for a in err["args"])
        else:
            res["stream_err"] = stream_errors()[err["exc"]][1](err["p"])
    res["chunks"] = chunks
    return res


def encode_response(msg):
    from breezy.bzr.smart import protocol
    out = []
    resp = make_response(msg)
    if msg["v"] == 3:
        protocol.ProtocolThreeResponder(out.append).send_response(resp)
    elif msg["v"] == 2:
        protocol.SmartServerRequestProtocolTwo(None, out.append)._send_response(
            resp)
    else:
        protocol.SmartServerRequestProtocolOne(None, out.append)._send_response(
            resp)
    return b"".join(out)


# ------------------------------------------------------------ reference parser

class WireError(Exception):
    pass


def _need(cond, what):
    if not cond:
        raise WireError(what)


def bdecode(data):
    """Minimal bencode reader -> (value, lists as tuples)."""
    def rd(i):
        _need(i < len(data), "bencode: truncated")
        c = data[i:i + 1]
        if c == b"i":
            j = data.index(b"e", i)
            return int(data[i + 1:j]), j + 1
        if c == b"l":
            out = []
            i += 1
            while data[i:i + 1] != b"e":
                v, i = rd(i)
                out.append(v)
            return tuple(out), i + 1
        if c == b"d":
            out = {}
            i += 1
            while data[i:i + 1] != b"e":
                k, i = rd(i)
                v, i = rd(i)
                out[k] = v
            return out, i + 1
        j = data.index(b":", i)
        n = int(data[i:j])
        _need(j + 1 + n <= len(data), "bencode: short string")
        return data[j + 1:j + 1 + n], j + 1 + n
    try:
        v, i = rd(0)
    except (ValueError, IndexError) as e:
        raise WireError("bencode: %r" % (e,))
    _need(i == len(data), "bencode: trailing bytes")
    return v


def parse_v3(data, pos=0):
    """One v3 message at data[pos:] -> dict(headers, parts, spans, end).

    spans: (a, b) framing regions; (t, t) marks the terminator byte."""
    spans = []
    _need(data.startswith(V3_MARKER, pos), "v3: no marker")
    spans.append((pos, pos + len(V3_MARKER)))
    pos += len(V3_MARKER)

    def lp(p):
        _need(p + 4 <= len(data), "v3: truncated length prefix")
        (n,) = struct.unpack("!L", data[p:p + 4])
        _need(p + 4 + n <= len(data), "v3: truncated part")
        return n
    n = lp(pos)
    spans.append((pos, pos + 4))
    headers = bdecode(data[pos + 4:pos + 4 + n])
    pos += 4 + n
    parts = []
    while True:
        _need(pos < len(data), "v3: no end marker")
        k = data[pos:pos + 1]
        if k == b"e":
            spans.append((pos, pos))
            pos += 1
            break
        if k == b"o":
            _need(pos + 2 <= len(data), "v3: truncated byte part")
            spans.append((pos, pos + 2))
            parts.append(("o", data[pos + 1:pos + 2]))
            pos += 2
        elif k in (b"s", b"b"):
            n = lp(pos + 1)
            spans.append((pos, pos + 5))
            raw = data[pos + 5:pos + 5 + n]
            parts.append(("s", bdecode(raw)) if k == b"s" else ("b", raw))
            pos += 5 + n
        else:
            raise WireError("v3: bad part kind %r" % (k,))
    return {"headers": headers, "parts": parts, "spans": spans, "end": pos}


def _line(data, pos):
    j = data.find(b"\n", pos)
    _need(j != -1, "missing newline")
    return data[pos:j], j + 1


def parse_lp_body(data, pos, spans):
    line, p = _line(data, pos)
    try:
        n = int(line)
    except ValueError:
        raise WireError("bad body length %r" % (line,))
    spans.append((pos, p))
    _need(p + n + 5 <= len(data), "truncated body")
    _need(data[p + n:p + n + 5] == b"done\n", "no done trailer")
    spans.append((p + n, p + n + 5))
    return data[p:p + n], p + n + 5


def parse_chunked(data, pos, spans):
    line, p = _line(data, pos)
    _need(line == b"chunked", "no chunked header")
    spans.append((pos, p))
    chunks = []
    err = None
    while True:
        line, q = _line(data, p)
        spans.append((p, q))
        if line == b"END":
            return chunks, (tuple(err) if err is not None else None), q
        if line == b"ERR":
            _need(err is None, "two ERR markers")
            err = []
            p = q
            continue
        try:
            n = int(line, 16)
        except ValueError:
            raise WireError("bad chunk length %r" % (line,))
        _need(q + n <= len(data), "truncated chunk")
        (chunks if err is None else err).append(data[q:q + n])
        p = q + n


def parse_v12_request(data, pos, version, has_body):
    spans = []
    if version == 2:
        _need(data.startswith(V2_REQ, pos), "v2: no request marker")
        spans.append((pos, pos + len(V2_REQ)))
        pos += len(V2_REQ)
    line, pos = _line(data, pos)
    res = {"args": tuple(line.split(b"\x01")), "body": None}
    if has_body:
        res["body"], pos = parse_lp_body(data, pos, spans)
    res["spans"] = spans
    res["end"] = pos
    return res


def parse_v12_response(data, pos, version, shape):
    """shape: none | bytes | stream (what the request method implies)."""
    spans = []
    res = {"ok": None, "body": None}
    if version == 2:
        _need(data.startswith(V2_RESP, pos), "v2: no response marker")
        spans.append((pos, pos + len(V2_RESP)))
        pos += len(V2_RESP)
        line, p = _line(data, pos)
        _need(line in (b"success", b"failed"), "v2: bad status %r" % (line,))
        spans.append((pos, p))
        res["ok"] = line == b"success"
        pos = p
    line, pos = _line(data, pos)
    res["args"] = tuple(line.split(b"\x01"))
    res["body_start"] = pos
    if res["ok"] is not False:
        if shape == "bytes":
            res["body"], pos = parse_lp_body(data, pos, spans)
        elif shape == "stream":
            res["chunks"], res["stream_err"], pos = parse_chunked(
                data, pos, spans)
    res["spans"] = spans
    res["end"] = pos
    return res


def parse_v3_response(data, pos=0):
    """Conventional response read with the reference parser."""
    p = parse_v3(data, pos)
    parts = p["parts"]
    _need(len(parts) >= 2 and parts[0][0] == "o" and parts[1][0] == "s",
          "v3 response: no status/args")
    res = {"ok": parts[0][1] == b"S", "args": parts[1][1], "chunks": [],
           "stream_err": None, "end": p["end"], "spans": p["spans"]}
    rest = parts[2:]
    i = 0
    while i < len(rest) and rest[i][0] == "b":
        res["chunks"].append(rest[i][1])
        i += 1
    if i < len(rest):
        _need(rest[i][0] == "o", "v3 response: junk after body")
        if rest[i][1] == b"E":
            _need(i + 1 < len(rest) and rest[i + 1][0] == "s",
                  "v3 response: E without args")
            res["stream_err"] = rest[i + 1][1]
            i += 1
        i += 1
    _need(i == len(rest), "v3 response: trailing parts")
    return res


def request_spans(msg, data, pos=0):
    """Framing regions of an encoded request (None if it does not follow the
    documented grammar - then nothing is claimed about the cuts)."""
    try:
        if msg["v"] == 3:
            p = parse_v3(data, pos)
        else:
            p = parse_v12_request(data, pos, msg["v"], req_has_body(msg))
    except WireError:
        return None, None
    return p["spans"], p["end"]


def response_spans(msg, data, pos=0):
    try:
        if msg["v"] == 3:
            p = parse_v3(data, pos)
        else:
            p = parse_v12_response(data, pos, msg["v"], resp_shape(msg))
    except WireError:
        return None, None, None
    return p["spans"], p["end"], p.get("body_start")


# ------------------------------------------------------------ segmentation

MAX_SEGMENTS = 3000


def resolve_cuts(total, spans, spec, must=()):
    """spec {"step": k, "abs": [...], "rel": [[span index, offset], ...]} ->
    sorted cut positions in (0, total)."""
    cuts = set(must)
    step = spec.get("step") or 0
    if step:
        if total // step > MAX_SEGMENTS:
            step = total // MAX_SEGMENTS + 1
        cuts.update(range(step, total, step))
    for a in spec.get("abs", ()):
        cuts.add(a % (total + 1))
    if spans:
        for i, off in spec.get("rel", ()):
            a, b = spans[i % len(spans)]
            if b - a >= 2:
                cuts.add(a + 1 + off % (b - a - 1))
            elif a == b:
                cuts.add(a)
            else:
                cuts.add(a + off % 2)
    return sorted(c for c in cuts if 0 < c < total)


def structural_cuts(cuts, spans):
    """Number of cuts that fall inside a framing region (or right in front of
    the one-byte terminator)."""
    if not spans:
        return 0
    n = 0
    for c in cuts:
        for a, b in spans:
            if a < c < b or (a == b == c):
                n += 1
                break
    return n


def segments(data, cuts):
    out = []
    p = 0
    for c in list(cuts) + [len(data)]:
        if c > p:
            out.append(data[p:c])
            p = c
    return out


class SegPipe:
    """File-like source: read(n) returns at most n bytes and never crosses a
    cut (C29: arbitrary split into reads)."""

    def __init__(self, data, cuts):
        self.data = data
        self.cuts = [c for c in cuts if 0 < c < len(data)] + [len(data)]
        self.pos = 0
        self.reads = 0

    def read(self, n):
        self.reads += 1
        if self.pos >= len(self.data):
            return b""
        nxt = next(c for c in self.cuts if c > self.pos)
        k = max(0, min(n, nxt - self.pos))
        b = self.data[self.pos:self.pos + k]
        self.pos += k
        return b

    def rest(self):
        return self.data[self.pos:]

    def close(self):
        pass


class PatternPipe:
    """File-like source of C30: holds the bytes of the current message only
    (limit); a read of n bytes delivers k = min(n, left, 1 + pattern[i]);
    asking for more than is left of the message is recorded (a real pipe
    blocks on it), reading when nothing is left raises ReadPastEnd."""

    def __init__(self, data, pattern, limit=None):
        self.data = data
        self.pattern = list(pattern)
        self.limit = len(data) if limit is None else limit
        self.pos = 0
        self.i = 0
        self.short = 0
        self.overask = None
        self.past_end = None

    def read(self, n):
        left = self.limit - self.pos
        if left <= 0:
            self.past_end = (self.pos, n)
            raise ReadPastEnd("read(%d) with nothing left of the message "
                              "(offset %d)" % (n, self.pos))
        if n > left and self.overask is None:
            self.overask = (self.pos, n, left)
        k = min(n, left)
        if self.pattern:
            k = min(k, 1 + self.pattern[self.i % len(self.pattern)])
            self.i += 1
        if k < n:
            self.short += 1
        b = self.data[self.pos:self.pos + k]
        self.pos += k
        return b

    def close(self):
        pass


class Sink:
    def __init__(self):
        self.buf = []
        self.closed = False

    def write(self, b):
        self.buf.append(b)

    def flush(self):
        pass

    def close(self):
        self.closed = True

    def getvalue(self):
        return b"".join(self.buf)


def pipe_client_medium(pipe):
    from breezy.bzr.smart import medium
    return medium.SmartSimplePipesClientMedium(pipe, Sink(), "vf://pipe/")


def socketlike_client_medium(segs):
    """Client medium whose reads ignore the requested count and return
    whatever 'arrived' (like SmartClientSocketMedium._read_bytes)."""
    from breezy.bzr.smart import medium

    class SegClientMedium(medium.SmartClientStreamMedium):
        def __init__(self, segs):
            medium.SmartClientStreamMedium.__init__(self, "vf://seg/")
            self.segs = deque(segs)
            self.sent = []

        def _accept_bytes(self, b):
            self.sent.append(b)

        def _flush(self):
            pass

        def _read_bytes(self, count):
            return self.segs.popleft() if self.segs else b""

        def disconnect(self):
            pass
    return SegClientMedium(segs)


def socketlike_server_medium(segs, backing):
    """SmartServerSocketStreamMedium fed from a list of segments."""
    from breezy.bzr.smart import medium

    class SegServerMedium(medium.SmartServerSocketStreamMedium):
        def __init__(self, segs, backing):
            medium.SmartServerStreamMedium.__init__(
                self, backing, root_client_path="/", timeout=4.0)
            self.segs = deque(segs)
            self.out = []

        def _read_bytes(self, desired_count):
            return self.segs.popleft() if self.segs else b""

        def _write_out(self, b):
            self.out.append(b)

        def _wait_for_bytes_with_timeout(self, timeout_seconds):
            pass

        def _disconnect_client(self):
            pass

        def terminate_due_to_error(self):
            self.finished = True
    return SegServerMedium(segs, backing)


# ------------------------------------------------------------ client reading

def client_read(version, med, shape, verb=VERB_NOBODY):
    """Issue a request on the client medium and read one response of the
    given shape with the real client classes -> decoded dict."""
    from breezy.bzr.smart import message, protocol, request
    from dromedary import errors as te
    req = med.get_request()
    if version == 3:
        enc = protocol.ProtocolThreeRequester(req)
        h = message.ConventionalResponseHandler()
        dec = protocol.ProtocolThreeDecoder(h, expect_version_marker=True)
        h.setProtoAndMediumRequest(dec, req)
    elif version == 2:
        enc = h = protocol.SmartClientRequestProtocolTwo(req)
    else:
        enc = h = protocol.SmartClientRequestProtocolOne(req)
    enc.call(verb)
    return read_with_handler(h, shape, req)


def read_with_handler(h, shape, req=None):
    from breezy.bzr.smart import request
    from dromedary import errors as te
    res = {}
    try:
        tup = h.read_response_tuple(expect_body=(shape != "none"))
    except te.ErrorFromSmartServer as e:
        res = {"status": "err", "args": tuple(e.error_tuple)}
    else:
        res = {"status": "ok", "args": tuple(tup)}
        if shape == "bytes":
            res["body"] = h.read_body_bytes()
        elif shape == "stream":
            chunks = []
            try:
                for c in h.read_streamed_body():
                    if isinstance(c, request.FailedSmartServerResponse):
                        res["stream_err"] = tuple(c.args)
                    else:
                        chunks.append(c)
            except te.ErrorFromSmartServer as e:
                res["stream_err"] = tuple(e.error_tuple)
            res["chunks"] = chunks
    if req is not None:
        res["_state"] = req._state
    return res


def same_response(got, want):
    g = {k: v for k, v in got.items() if not k.startswith("_")}
    return g == want


# ------------------------------------------------------------ strategies

TRICKY = [b"done\n", b"END\n", b"ERR\n", b"chunked\n", b"e", b"0\n", b"\n",
          b"\x01", b"oS", b"oE", b"s\x00\x00\x00\x02le", b"b\x00\x00\x00\x00",
          V3_MARKER, V2_REQ, V2_RESP, b"success\n", b"failed\n", b"5\n",
          b"ff\n", b"\x00\x00\x00\x01", b"le", b"de", b"i0e"]


HUGE = 1024 * 1024          # protocol._ProtocolThreeEncoder.BUFFER_SIZE
HUGE_BODIES = False         # switched on by the C29 check only


def _clean12(b):
    return b.replace(b"\x01", b"A").replace(b"\n", b"B")


def bytes_strategy(max_size, big=None):
    """bytes as latin-1 str; mostly short, sometimes framing look-alikes,
    sometimes long."""
    small = st.binary(max_size=min(24, max_size))
    tricky = st.lists(st.one_of(st.sampled_from(TRICKY),
                                st.binary(max_size=6)),
                      min_size=1, max_size=4).map(b"".join)
    opts = [small, small, tricky, st.binary(max_size=max_size)]
    # lengths at which the decimal / hexadecimal / 32-bit length prefixes
    # change their number of digits or bytes
    edges = [n for n in (9, 10, 11, 15, 16, 17, 99, 100, 101, 255, 256, 257,
                         999, 1000, 4095, 4096) if n <= max(max_size, 300)]
    opts.append(st.tuples(st.sampled_from(edges), st.binary(
        min_size=1, max_size=3)).map(
            lambda t: (t[1] * (t[0] // len(t[1]) + 1))[:t[0]]))
    if big:
        lo, hi = big
        opts.append(st.tuples(st.integers(lo, hi), st.binary(
            min_size=1, max_size=16)).map(
                lambda t: (t[1] * (t[0] // len(t[1]) + 1))[:t[0]]))
    normal = st.one_of(opts)
    if big and HUGE_BODIES:
        # one body in thirty is as large as the encoder's write buffer
        # (1 MiB) give or take a few bytes: parts above that size take
        # another path through _ProtocolThreeEncoder._write_func
        huge = st.tuples(st.integers(HUGE - 3, HUGE + 3), st.binary(
            min_size=1, max_size=16)).map(
                lambda t: (t[1] * (t[0] // len(t[1]) + 1))[:t[0]])
        return st.integers(0, 29).flatmap(
            lambda i: huge if i == 0 else normal).map(b2s)
    return normal.map(b2s)


def arg_strategy(version, max_size=40):
    s = bytes_strategy(max_size)
    if version in (1, 2):
        # the v1/v2 tuple encoding cannot carry its separators
        return s.map(lambda x: b2s(_clean12(s2b(x))))
    return s


@st.composite
def v3_structured_args(draw):
    """bencodable argument values beyond plain strings (v3 only)."""
    leaf = st.one_of(bytes_strategy(12), st.integers(-2**40, 2**40))
    return draw(st.lists(st.one_of(leaf, st.lists(leaf, max_size=3)),
                         max_size=4))


def sizes(tier):
    if tier == "thorough":
        return {"body": 3000, "big": (60000, 70000), "chunk": 600}
    return {"body": 400, "big": (3000, 9000), "chunk": 120}


@st.composite
def request_msg(draw, tier, version=None, allow_unknown=False):
    sz = sizes(tier)
    v = version or draw(st.sampled_from([1, 2, 3, 3]))
    msg = {"v": v}
    if v == 3 and draw(st.integers(0, 5)) == 0:
        msg["args"] = draw(v3_structured_args())
    else:
        msg["args"] = draw(st.lists(arg_strategy(v), max_size=5))
    if v == 3:
        msg["hdr"] = draw(st.dictionaries(
            bytes_strategy(10), bytes_strategy(16), max_size=3))
        if draw(st.booleans()):
            msg["hdr"]["Software version"] = "vf 1.0"
    kinds = ["none", "bytes", "bytes", "readv"]
    if v == 3:
        kinds += ["stream", "stream", "stream_err"]
    k = draw(st.sampled_from(kinds))
    if allow_unknown:
        k = "unknown"
    if k == "unknown":
        msg["verb"] = "unknown"
        msg["body"] = None
        if v == 3 and draw(st.booleans()):
            msg["body"] = {"t": "bytes", "d": draw(bytes_strategy(sz["body"]))}
        return msg
    if k == "none":
        msg["verb"] = "nobody" if (v != 3 or draw(st.integers(0, 3))) \
            else "body"
        msg["body"] = None
        return msg
    msg["verb"] = "body"
    if k == "bytes":
        msg["body"] = {"t": "bytes",
                       "d": draw(bytes_strategy(sz["body"], sz["big"]))}
    elif k == "readv":
        msg["body"] = {"t": "readv", "o": draw(st.lists(
            st.tuples(st.integers(0, 10**7), st.integers(0, 10**5)).map(list),
            max_size=6))}
    else:
        chunks = draw(st.lists(bytes_strategy(sz["chunk"]), max_size=6))
        msg["body"] = {"t": "stream", "c": chunks, "err": None}
        if k == "stream_err":
            msg["body"]["err"] = draw(st.integers(0, len(chunks)))
    return msg


@st.composite
def response_msg(draw, tier, version=None):
    sz = sizes(tier)
    v = version or draw(st.sampled_from([1, 2, 2, 3, 3]))
    msg = {"v": v, "ok": draw(st.integers(0, 3)) != 0}
    if v == 3 and draw(st.integers(0, 5)) == 0:
        msg["args"] = draw(v3_structured_args())
    else:
        msg["args"] = draw(st.lists(arg_strategy(v), min_size=1, max_size=5))
    if v == 1:
        # the first argument alone tells a v1 client whether this is an error
        if msg["ok"]:
            if msg["args"][0] in V1_ERROR_CODES or \
                    msg["args"][0] == "nosuchrevision" or \
                    msg["args"][0] in ("UnicodeEncodeError",
                                       "UnicodeDecodeError"):
                msg["args"][0] = "ok"
        else:
            msg["args"][0] = draw(st.sampled_from(V1_ERROR_CODES))
    if not msg["args"] or not isinstance(msg["args"][0], str):
        msg["args"] = ["ok"] + list(msg["args"])
    if msg["args"][0] == "UnknownMethod":
        msg["args"][0] = "ok"
    kinds = ["none", "bytes", "bytes"]
    if v >= 2:
        kinds += ["stream", "stream", "stream_err"]
    k = draw(st.sampled_from(kinds))
    if not msg["ok"] and v != 3:
        k = "none"   # v1/v2 clients stop reading at a failure status
    if k == "none":
        msg["body"] = None
    elif k == "bytes":
        msg["body"] = {"t": "bytes",
                       "d": draw(bytes_strategy(sz["body"], sz["big"]))}
    else:
        chunks = draw(st.lists(bytes_strategy(sz["chunk"]), max_size=6))
        body = {"t": "stream", "c": chunks, "err": None}
        if k == "stream_err":
            at = draw(st.integers(0, len(chunks)))
            if v == 3 and draw(st.booleans()):
                names = sorted(stream_errors())
                body["err"] = {"at": at, "how": "exc",
                               "exc": draw(st.sampled_from(names)),
                               "p": draw(st.text(
                                   alphabet="abc/é -", max_size=8))}
            else:
                eargs = draw(st.lists(arg_strategy(3, 20), min_size=1,
                                      max_size=3))
                if eargs[0] == "UnknownMethod":
                    eargs[0] = "error"
                body["err"] = {"at": at, "how": "failed", "args": eargs}
        msg["body"] = body
    return msg


def cut_spec():
    return st.fixed_dictionaries({
        "step": st.sampled_from([0, 0, 0, 1, 1, 2, 3, 5, 7, 64]),
        "abs": st.lists(st.integers(0, 100000), max_size=5),
        "rel": st.lists(st.tuples(st.integers(0, 40), st.integers(0, 40)).map(
            list), max_size=6),
    })


def read_pattern():
    """Caps on successive reads (cycled): cap = 1 + value bytes."""
    return st.one_of(
        st.lists(st.one_of(st.integers(0, 3), st.integers(0, 3),
                           st.integers(0, 40), st.just(10**9)),
                 min_size=1, max_size=8),
        st.lists(st.integers(0, 2), min_size=1, max_size=3),
        st.just([]))


def has_payload(msg):
    return msg.get("body") is not None
