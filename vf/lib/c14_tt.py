"""C14 helpers: raw TreeTransform operation scripts (JSON), a legality tracker
used while generating them, and per-accessor views of a tree that survive an
accessor raising (the exception becomes the observed value)."""

from . import bz

# ------------------------------------------------------------ tree views

ATTRS = ("kind", "text", "exec", "target", "id", "path2id", "versioned",
         "has_filename", "sha1", "size", "stored_kind")


def _obs(fn):
    """Observed value of an accessor call; a raised exception is a value."""
    try:
        return fn()
    except Exception as e:  # noqa: BLE001 - becomes a compared value
        return "EXC:" + type(e).__name__


def _id(x):
    return x.decode("utf-8") if isinstance(x, bytes) else x


def tree_view(tree, ids=True, dirs=True):
    """{path: {attr: value}} for every entry iter_entries_by_dir yields."""
    out = {}
    with tree.lock_read():
        entries = [(p, ie) for p, ie in tree.iter_entries_by_dir() if p != ""]
        if not dirs:
            # git does not version directories: they are no entries there
            entries = [(p, ie) for p, ie in entries if ie.kind != "directory"]
        for path, ie in entries:
            k = ie.kind
            v = {"entry_kind": k}
            v["kind"] = _obs(lambda: tree.kind(path))
            v["stored_kind"] = _obs(lambda: tree.stored_kind(path))
            v["versioned"] = _obs(lambda: bool(tree.is_versioned(path)))
            v["has_filename"] = _obs(lambda: bool(tree.has_filename(path)))
            if ids:
                v["id"] = _id(getattr(ie, "file_id", None))
                v["path2id"] = _obs(lambda: _id(tree.path2id(path)))
            if k == "file":
                v["text"] = _obs(lambda: bz.sha1(tree.get_file_text(path)))
                v["exec"] = _obs(lambda: bool(tree.is_executable(path)))
                v["sha1"] = _obs(lambda: _id(tree.get_file_sha1(path)))
                v["size"] = _obs(lambda: tree.get_file_size(path))
            elif k == "symlink":
                v["target"] = _obs(lambda: tree.get_symlink_target(path))
            out[path] = v
    return out


DELEGATING = {
    # accessor -> does PreviewTree answer from the original tree for this id?
    "exec": lambda tt, t: t not in tt._new_executability,
    "has_filename": lambda tt, t: t not in tt._new_contents and
    t not in tt._removed_contents,
    "stored_kind": lambda tt, t: t not in tt._new_contents,
    "sha1": lambda tt, t: t not in tt._new_contents,
    "size": lambda tt, t: t not in tt._new_contents,
}


def entry_facts(tt, preview, path):
    """(class, {accessor: delegates}) for the entry the preview lists at path.

    class: reused-path (some component of the path is also the final name of
    an entry the transform deletes), contentless (versioned, no file),
    new, newly-versioned (on disk but unversioned in the original), moved,
    same."""
    cur = tt.root
    ambiguous = False
    for seg in path.split("/"):
        cands = [c for c in preview._all_children(cur)
                 if tt.final_name(c) == seg]
        if len(cands) > 1:
            ambiguous = True
            live = [c for c in cands if tt.final_kind(c) is not None or
                    tt.final_is_versioned(c)] or cands
            # prefer the entry that is really there
            live.sort(key=lambda c: (tt.final_kind(c) is None, c))
            cands = live[:1]
        if not cands:
            return "unknown", {}
        cur = cands[0]
    t = cur
    deleg = {a: f(tt, t) for a, f in DELEGATING.items()}
    if ambiguous:
        return "reused-path", deleg
    old = tt.tree_path(t)
    if tt.final_kind(t) is None:
        return "contentless", deleg
    if old is None:
        return "new", deleg
    if not tt._tree.is_versioned(old):
        return "newly-versioned", deleg
    return ("same" if old == path else "moved"), deleg


# ------------------------------------------------------- operation scripts
#
# refs: ["t", path] a path of the original tree, ["n", i] the i-th trans id
# created by the script (new_* / create_path), ["r"] the root.
#
#   ["new_file", name, parent, content, file_id|None, exec|None]
#   ["new_dir", name, parent, file_id|None]
#   ["new_symlink", name, parent, target, file_id|None]
#   ["delete_contents", ref] ["unversion", ref] ["cancel_creation", ref]
#   ["cancel_deletion", ref] ["cancel_versioning", ref]
#   ["adjust", name|None, parent|None, ref]     (None = keep current)
#   ["version", ref, file_id]
#   ["set_exec", bool, ref]
#   ["create_file", ref, content] ["create_dir", ref]
#   ["create_symlink", ref, target]


class Script:
    """Interprets a script against a real TreeTransform."""

    def __init__(self, tt, set_ids=True):
        self.tt = tt
        self.new = []
        self.set_ids = set_ids

    def ref(self, r):
        if r[0] == "r":
            return self.tt.root
        if r[0] == "t":
            return self.tt.trans_id_tree_path(r[1])
        return self.new[r[1]]

    def fid(self, f):
        return bz.enc(f) if (f is not None and self.set_ids) else None

    def run(self, ops):
        tt = self.tt
        for op in ops:
            k = op[0]
            if k == "new_file":
                t = tt.new_file(op[1], self.ref(op[2]), [bz.cbytes(op[3])],
                                self.fid(op[4]),
                                executable=op[5] if op[4] is not None and
                                self.set_ids else None)
                if op[4] is not None and not self.set_ids:
                    tt.version_file(t)
                self.new.append(t)
            elif k == "new_dir":
                t = tt.new_directory(op[1], self.ref(op[2]), self.fid(op[3]))
                if op[3] is not None and not self.set_ids:
                    tt.version_file(t)
                self.new.append(t)
            elif k == "new_symlink":
                t = tt.new_symlink(op[1], self.ref(op[2]), op[3],
                                   self.fid(op[4]))
                if op[4] is not None and not self.set_ids:
                    tt.version_file(t)
                self.new.append(t)
            elif k == "delete_contents":
                tt.delete_contents(self.ref(op[1]))
            elif k == "unversion":
                tt.unversion_file(self.ref(op[1]))
            elif k == "cancel_creation":
                tt.cancel_creation(self.ref(op[1]))
            elif k == "cancel_deletion":
                tt.cancel_deletion(self.ref(op[1]))
            elif k == "cancel_versioning":
                tt.cancel_versioning(self.ref(op[1]))
            elif k == "adjust":
                t = self.ref(op[3])
                name = op[1] if op[1] is not None else tt.final_name(t)
                parent = self.ref(op[2]) if op[2] is not None else \
                    tt.final_parent(t)
                tt.adjust_path(name, parent, t)
            elif k == "version":
                if self.set_ids:
                    tt.version_file(self.ref(op[1]), file_id=bz.enc(op[2]))
                else:
                    tt.version_file(self.ref(op[1]))
            elif k == "set_exec":
                tt.set_executability(op[1], self.ref(op[2]))
            elif k == "create_file":
                tt.create_file([bz.cbytes(op[2])], self.ref(op[1]))
            elif k == "create_dir":
                tt.create_directory(self.ref(op[1]))
            elif k == "create_symlink":
                tt.create_symlink(op[2], self.ref(op[1]))
            else:
                raise ValueError(op)


class Tracker:
    """What the generator knows about each reference, to keep every call
    inside the TreeTransform API's own preconditions (no double deletion,
    no creation over existing contents, ...).  It does NOT try to keep the
    transform conflict-free: parents may be files, deleted, own children."""

    def __init__(self, base_snapshot, extras=(), missing=()):
        # base_snapshot: {path: kind} of versioned entries; extras: {path:
        # kind} of unversioned files on disk
        self.s = {}
        for p, k in base_snapshot.items():
            self.s[("t", p)] = dict(kind=k, versioned=True, removed=False,
                                    new=None, unversioned=False, newid=False,
                                    tree=True, parent=self._pref(p),
                                    name=p.rsplit("/", 1)[-1])
        for p, k in dict(extras).items():
            self.s[("t", p)] = dict(kind=k, versioned=False, removed=False,
                                    new=None, unversioned=False, newid=False,
                                    tree=True, parent=self._pref(p),
                                    name=p.rsplit("/", 1)[-1])
        for p in missing:
            # versioned, but the file is gone from disk
            self.s[("t", p)]["kind"] = None
        self.n = 0
        self.used_ids = set()

    @staticmethod
    def _pref(p):
        return ("t", p.rsplit("/", 1)[0]) if "/" in p else ("r",)

    def refs(self):
        return sorted(self.s)

    def add_ghost(self, path):
        self.s[("t", path)] = dict(kind=None, versioned=False, removed=False,
                                   new=None, unversioned=False, newid=False,
                                   tree=False, parent=self._pref(path),
                                   name=path.rsplit("/", 1)[-1])

    def add_new(self, kind, versioned, parent, name):
        r = ("n", self.n)
        self.n += 1
        self.s[r] = dict(kind=None, versioned=False, removed=False, new=kind,
                         unversioned=False, newid=versioned, tree=False,
                         parent=tuple(parent), name=name)
        return r

    def final_kind(self, r):
        if r == ("r",):
            return "directory"
        e = self.s[r]
        if e["new"] is not None:
            return e["new"]
        if e["removed"]:
            return None
        return e["kind"]

    def final_versioned(self, r):
        if r == ("r",):
            return True
        e = self.s[r]
        return e["newid"] or (e["versioned"] and not e["unversioned"])

    def legal(self, op):
        k = op[0]
        if k in ("new_file", "new_dir", "new_symlink"):
            return True
        r = tuple(op[-1]) if k in ("adjust", "set_exec") else tuple(op[1])
        if r == ("r",):
            return False
        e = self.s[r]
        if k == "delete_contents":
            return e["tree"] and e["kind"] is not None and not e["removed"]
        if k == "cancel_deletion":
            return e["removed"] and e["new"] is None
        if k in ("create_file", "create_dir", "create_symlink"):
            return e["new"] is None and (e["removed"] or e["kind"] is None)
        if k == "cancel_creation":
            return e["new"] is not None
        if k == "unversion":
            return e["versioned"] and not e["unversioned"] and not e["newid"]
        if k == "version":
            return not e["versioned"] and not e["newid"]
        if k == "cancel_versioning":
            return e["newid"]
        if k == "set_exec":
            return not e.get("execset")
        if k == "adjust":
            return True
        return False

    def apply(self, op):
        k = op[0]
        if k == "new_file":
            r = self.add_new("file", op[4] is not None, op[2], op[1])
            if op[4] is not None and op[5] is not None:
                self.s[r]["execset"] = True
            return r
        if k == "new_dir":
            return self.add_new("directory", op[3] is not None, op[2], op[1])
        if k == "new_symlink":
            return self.add_new("symlink", op[4] is not None, op[2], op[1])
        r = tuple(op[-1]) if k in ("adjust", "set_exec") else tuple(op[1])
        e = self.s[r]
        if k == "delete_contents":
            e["removed"] = True
        elif k == "cancel_deletion":
            e["removed"] = False
        elif k == "create_file":
            e["new"] = "file"
        elif k == "create_dir":
            e["new"] = "directory"
        elif k == "create_symlink":
            e["new"] = "symlink"
        elif k == "cancel_creation":
            e["new"] = None
        elif k == "unversion":
            e["unversioned"] = True
        elif k == "version":
            e["newid"] = True
        elif k == "cancel_versioning":
            e["newid"] = False
        elif k == "set_exec":
            e["execset"] = True
        elif k == "adjust":
            if op[1] is not None:
                e["name"] = op[1]
            if op[2] is not None:
                e["parent"] = tuple(op[2])
        return r


def name_clash_with_contentless(tt):
    """Pairs of trans ids KNOWN to the transform that end up with the same
    name in the same directory where one side is versioned but has no contents
    (file missing from disk, or contents deleted without unversioning) and the
    other side exists.  -> list of (contentless id, other id, name)"""
    from breezy.transform import NoFinalPath
    known = set(tt._tree_id_paths) | set(tt._new_name) | set(tt._new_parent) \
        | set(tt._new_contents)
    known.discard(tt.root)
    groups = {}
    for t in sorted(known):
        try:
            key = (tt.final_parent(t), tt.final_name(t))
        except (NoFinalPath, KeyError):
            continue
        groups.setdefault(key, []).append(t)
    out = []
    for (parent, name), ts in groups.items():
        if len(ts) < 2:
            continue
        ghosts = [t for t in ts if tt.final_kind(t) is None and
                  tt.final_is_versioned(t)]
        others = [t for t in ts if tt.final_kind(t) is not None]
        for g in ghosts:
            for o in others:
                out.append((g, o, name))
    return out
