"""Helpers over the real breezy API: creating repositories / branches / trees,
interpreting treemodel edit scripts on real storage, canonical snapshots."""

import hashlib
import os
import stat

from . import treemodel as tm

COMMITTER = "Verif Tester <verif@example.com>"
T0 = 1000000000  # after 1980 (zip), fixed


def fmt(name):
    from breezy import controldir
    return controldir.format_registry.make_controldir(name)


def enc(s):
    return s.encode("utf-8") if isinstance(s, str) else s


def cbytes(content):
    """model content (latin-1 str) -> bytes"""
    return content.encode("latin-1") if content is not None else None


def init_repo(path, format="2a", shared=False):
    from breezy import transport as _t
    t = _t.get_transport(path)
    t.ensure_base()
    cd = fmt(format).initialize_on_transport(t)
    return cd.create_repository(shared=shared)


def init_branch(path, format="2a"):
    """Standalone branch (own repository), no working tree."""
    from breezy import transport as _t
    t = _t.get_transport(path)
    t.ensure_base()
    cd = fmt(format).initialize_on_transport(t)
    try:
        cd.find_repository()
    except Exception:
        cd.create_repository()
    return cd.create_branch()


def init_tree(path, format="2a"):
    """Standalone branch with a working tree."""
    from breezy import controldir
    os.makedirs(path, exist_ok=True)
    br = controldir.ControlDir.create_branch_convenience(
        path, format=fmt(format), force_new_tree=True)
    return br.controldir.open_workingtree()


def open_tree(path):
    from breezy import workingtree
    return workingtree.WorkingTree.open(path)


def open_branch(path):
    from breezy import branch
    return branch.Branch.open(path)


# ---------------------------------------------------------------- BranchBuilder

def bb_actions(model, ops, supports_root_add=True):
    """Translate ops (applied to a *copy* of model as we go) to BranchBuilder
    actions. Files and directories only. Mutates `model`."""
    acts = []
    for op in ops:
        k = op[0]
        if k == "add":
            _, fid, parent, name, kind, content, ex = op
            if kind == "symlink":
                raise ValueError("BranchBuilder cannot create symlinks")
            tm.apply_op(model, op)
            path = tm.path_of(model, fid)
            acts.append(("add", (path, enc(fid), kind,
                                 cbytes(content) if kind == "file" else None)))
        elif k == "modify":
            acts.append(("modify", (tm.path_of(model, op[1]), cbytes(op[2]))))
            tm.apply_op(model, op)
        elif k == "rename":
            old = tm.path_of(model, op[1])
            tm.apply_op(model, op)
            acts.append(("rename", (old, tm.path_of(model, op[1]))))
        elif k == "delete":
            victims = [op[1]] + tm.descendants(model, op[1])
            ps = sorted((tm.path_of(model, v) for v in victims),
                        key=lambda p: -len(p))
            for p in ps:
                acts.append(("unversion", p))
                acts.append(("flush", None))
            tm.apply_op(model, op)
        elif k in ("chmod", "retarget"):
            raise ValueError("BranchBuilder cannot express %s" % k)
        acts.append(("flush", None))
    return acts


def bb_root_action():
    return ("add", ("", enc(tm.ROOT_ID), "directory", None))


# ---------------------------------------------------------------- working tree

def apply_ops_wt(wt, model, ops, use_ids=True):
    """Perform ops on a real working tree (disk + versioning). Mutates model."""
    base = wt.basedir
    for op in ops:
        k = op[0]
        if k == "add":
            _, fid, parent, name, kind, content, ex = op
            tm.apply_op(model, op)
            path = tm.path_of(model, fid)
            ap = os.path.join(base, path)
            if kind == "directory":
                os.mkdir(ap)
            elif kind == "symlink":
                os.symlink(content, ap)
            else:
                with open(ap, "wb") as f:
                    f.write(cbytes(content))
                os.chmod(ap, 0o755 if ex else 0o644)
            if use_ids and wt.supports_setting_file_ids():
                wt.add([path], ids=[enc(fid)])
            else:
                wt.add([path])
        elif k == "modify":
            ap = os.path.join(base, tm.path_of(model, op[1]))
            mode = stat.S_IMODE(os.lstat(ap).st_mode)
            with open(ap, "wb") as f:
                f.write(cbytes(op[2]))
            os.chmod(ap, mode)
            tm.apply_op(model, op)
        elif k == "rename":
            old = tm.path_of(model, op[1])
            tm.apply_op(model, op)
            wt.rename_one(old, tm.path_of(model, op[1]))
        elif k == "delete":
            # delete on disk ourselves and unversion: WorkingTree.remove() walks
            # into versioned symlinks that point at directories (and loops on
            # self-referencing ones), which is not what a builder should trip on
            path = tm.path_of(model, op[1])
            victims = [op[1]] + tm.descendants(model, op[1])
            vpaths = sorted((tm.path_of(model, v) for v in victims),
                            key=lambda p: (-p.count("/"), p))
            leaves = [tm.path_of(model, v) for v in victims
                      if model[v]["kind"] != "directory"]
            tm.apply_op(model, op)
            for p in vpaths:
                ap = os.path.join(base, p)
                if os.path.islink(ap) or not os.path.isdir(ap):
                    os.unlink(ap)
                else:
                    os.rmdir(ap)
            if wt.has_versioned_directories():
                wt.unversion(vpaths)
            elif leaves:
                # git: directories are implied by the files below them
                wt.unversion(sorted(leaves, key=lambda p: (-p.count("/"), p)))
        elif k == "chmod":
            ap = os.path.join(base, tm.path_of(model, op[1]))
            os.chmod(ap, 0o755 if op[2] else 0o644)
            tm.apply_op(model, op)
        elif k == "retarget":
            ap = os.path.join(base, tm.path_of(model, op[1]))
            os.unlink(ap)
            os.symlink(op[2], ap)
            tm.apply_op(model, op)
        else:
            raise ValueError(op)


def commit(wt, rev_id=None, message="m", ts=T0, tz=0, committer=COMMITTER,
           revprops=None, **kw):
    props = {"branch-nick": "nick"}
    if revprops:
        props.update(revprops)
    return wt.commit(message, rev_id=enc(rev_id) if rev_id else None,
                     timestamp=ts, timezone=tz, committer=committer,
                     revprops=props, allow_pointless=True, **kw)


def age_files(root, seconds=5):
    """Move every file's mtime into the past so the dirstate's same-second
    ("racy") window never decides a result."""
    for d, ds, fs in os.walk(root):
        if ".bzr" in ds:
            ds.remove(".bzr")
        if ".git" in ds:
            ds.remove(".git")
        for f in fs:
            p = os.path.join(d, f)
            try:
                s = os.lstat(p)
                if stat.S_ISREG(s.st_mode):
                    os.utime(p, (s.st_atime - seconds, s.st_mtime - seconds))
            except OSError:
                pass


# ---------------------------------------------------------------- snapshots

def sha1(b):
    return hashlib.sha1(b).hexdigest()


def snapshot_tree(tree, with_ids=True, contents=False):
    """{path: [kind, sha1-or-target, exec, id]} for every versioned entry but
    the root. exec is None for non-files."""
    out = {}
    with tree.lock_read():
        ids = with_ids and getattr(tree, "supports_file_ids", True)
        for path, ie in tree.iter_entries_by_dir():
            if path == "":
                continue
            kind = ie.kind
            if kind == "file":
                data = tree.get_file_text(path)
                val = data.decode("latin-1") if contents else sha1(data)
                ex = bool(tree.is_executable(path))
            elif kind == "symlink":
                val = tree.get_symlink_target(path)
                ex = None
            else:
                val, ex = None, None
            fid = None
            if ids:
                try:
                    f = ie.file_id
                    fid = f.decode("utf-8") if isinstance(f, bytes) else f
                except AttributeError:
                    fid = None
            out[path] = [kind, val, ex, fid]
    return out


def model_snapshot(model, with_ids=True, contents=False):
    """Same shape as snapshot_tree, from a treemodel."""
    out = {}
    for p, (kind, content, ex, fid) in tm.snapshot(model, with_ids).items():
        if kind == "file":
            val = content if contents else sha1(cbytes(content))
        elif kind == "symlink":
            val = content
        else:
            val = None
        out[p] = [kind, val, ex, fid]
    return out


def snapshot_fs(root, skip=(".bzr", ".git"), contents=True):
    """{relpath: [kind, bytes-as-latin1 | target | None, exec-bit]}"""
    out = {}
    for d, ds, fs in os.walk(root):
        rel = os.path.relpath(d, root)
        if rel == ".":
            rel = ""
            for s in skip:
                if s in ds:
                    ds.remove(s)
        ds.sort()
        for name in list(ds):
            p = os.path.join(d, name)
            r = os.path.join(rel, name) if rel else name
            if os.path.islink(p):
                out[r] = ["symlink", os.readlink(p), None]
                ds.remove(name)
            else:
                out[r] = ["directory", None, None]
        for name in sorted(fs):
            p = os.path.join(d, name)
            r = os.path.join(rel, name) if rel else name
            s = os.lstat(p)
            if stat.S_ISLNK(s.st_mode):
                out[r] = ["symlink", os.readlink(p), None]
            elif stat.S_ISREG(s.st_mode):
                with open(p, "rb") as f:
                    data = f.read()
                out[r] = ["file", data.decode("latin-1") if contents
                          else sha1(data), bool(s.st_mode & 0o100)]
            else:
                out[r] = ["other", None, None]
    return out


def iter_changes_canon(tree, basis, **kw):
    """Canonical, order-free form of tree.iter_changes(basis)."""
    out = []
    with tree.lock_read(), basis.lock_read():
        for c in tree.iter_changes(basis, **kw):
            fid = c.file_id
            if isinstance(fid, bytes):
                fid = fid.decode("utf-8")
            kinds = tuple(c.kind)
            ex = tuple(
                (bool(e) if k == "file" else None)
                for e, k in zip(c.executable, kinds))
            out.append([fid, list(c.path), bool(c.changed_content),
                        list(c.versioned), list(kinds), list(ex)])
    out.sort(key=lambda r: (str(r[1][0]), str(r[1][1]), str(r[0])))
    return out


def repo_listing(repo_path):
    """Names under .bzr/repository/{packs,indices,upload,obsolete_packs} and
    the bytes of pack-names."""
    base = os.path.join(repo_path, ".bzr", "repository")
    out = {}
    for d in ("packs", "indices", "upload", "obsolete_packs"):
        p = os.path.join(base, d)
        out[d] = sorted(os.listdir(p)) if os.path.isdir(p) else None
    pn = os.path.join(base, "pack-names")
    if os.path.exists(pn):
        with open(pn, "rb") as f:
            out["pack-names"] = f.read().decode("latin-1")
    else:
        out["pack-names"] = None
    return out
