"""Tree-transform helpers shared by C13 and C14.

* OSFaults: counts / fails the OS calls a TreeTransform makes while applying
  (_FileMover's os.rename and delete_any in breezy.transform, the chmod in
  breezy.{bzr,git}.transform), armed by the public pre_transform hook so that
  only calls made inside apply() are seen.
* extended edit ops over vf.lib.treemodel models (swap, in-place kind change)
* transform_from_diff: express "base model -> final model" through the
  TreeTransform API, the way revert / merge build their transforms.
"""

import errno
import os

from . import bz
from . import treemodel as tm


class _Proxy:
    """Module stand-in: a few attributes overridden, the rest delegated."""

    def __init__(self, real, **over):
        self.__dict__["_real"] = real
        self.__dict__["_over"] = over

    def __getattr__(self, name):
        over = self.__dict__["_over"]
        if name in over:
            return over[name]
        return getattr(self.__dict__["_real"], name)


class InjectedFault(OSError):
    pass


class OSFaults:
    """with OSFaults(at=k) as f: ... ; f.log = [(name, arg0, arg1)] of the
    calls made inside apply(); call number `at` raises instead of running."""

    HOOK = "vf-osfaults"

    def __init__(self, at=None):
        self.at = at
        self.n = 0
        self.log = []
        self.armed = False
        self.fired = False
        self.after_fault = 0      # calls made after the fault (rollback)

    def _wrap(self, name, fn, err):
        def w(*a, **k):
            if not self.armed:
                return fn(*a, **k)
            if self.fired:
                self.after_fault += 1
                return fn(*a, **k)
            i = self.n
            self.n += 1
            self.log.append((name,) + tuple(str(x) for x in a[:2]))
            if self.at is not None and i == self.at:
                self.fired = True
                raise InjectedFault(err, "injected fault", str(a[0]))
            return fn(*a, **k)
        return w

    def _arm(self, tree, tt):
        self.armed = True

    def __enter__(self):
        import breezy.bzr.transform as BT
        import breezy.git.transform as GT
        import breezy.transform as T
        from breezy import osutils
        from breezy.mutabletree import MutableTree
        self._saved = (T.os, T.delete_any, BT.osutils, GT.osutils)
        T.os = _Proxy(os, rename=self._wrap("rename", os.rename,
                                            errno.EACCES))
        T.delete_any = self._wrap("delete_any", self._saved[1], errno.EACCES)
        # chmod_if_possible ignores permission errors by contract: use EIO
        ch = self._wrap("chmod", osutils.chmod_if_possible, errno.EIO)
        BT.osutils = _Proxy(osutils, chmod_if_possible=ch)
        GT.osutils = _Proxy(osutils, chmod_if_possible=ch)
        MutableTree.hooks.install_named_hook("pre_transform", self._arm,
                                             self.HOOK)
        return self

    def __exit__(self, *a):
        import breezy.bzr.transform as BT
        import breezy.git.transform as GT
        import breezy.transform as T
        from breezy.mutabletree import MutableTree
        T.os, T.delete_any, BT.osutils, GT.osutils = self._saved
        MutableTree.hooks.uninstall_named_hook("pre_transform", self.HOOK)
        self.armed = False


# ---------------------------------------------------------------- model ops

def apply_xop(model, op):
    """treemodel ops plus ["swap", a, b] and ["kind", id, kind, content, ex]."""
    if op[0] == "swap":
        a, b = model[op[1]], model[op[2]]
        a["parent"], b["parent"] = b["parent"], a["parent"]
        a["name"], b["name"] = b["name"], a["name"]
    elif op[0] == "kind":
        e = model[op[1]]
        e["kind"], e["content"], e["exec"] = op[2], op[3], bool(op[4])
    else:
        tm.apply_op(model, op)
    return model


def has_symlink_loop(model):
    """Does resolving some symlink of the model never end (ELOOP)?"""
    by_path = {tm.path_of(model, f): f for f in model}

    def resolve(start_dir, target, hops):
        # -> True when resolution loops
        parts = [p for p in start_dir.split("/") if p] if start_dir else []
        for comp in target.split("/"):
            if comp in ("", "."):
                continue
            if comp == "..":
                if parts:
                    parts.pop()
                continue
            parts.append(comp)
            f = by_path.get("/".join(parts))
            if f is None:
                return False              # dangling: ENOENT, not ELOOP
            if model[f]["kind"] == "symlink":
                if hops <= 0:
                    return True
                parts.pop()
                if resolve("/".join(parts), model[f]["content"], hops - 1):
                    return True
                return False              # (target type does not matter here)
        return False

    for f, e in model.items():
        if e["kind"] == "symlink":
            p = tm.path_of(model, f)
            d = p.rsplit("/", 1)[0] if "/" in p else ""
            if resolve(d, e["content"], 6):
                return True
    return False


def apply_xops(model, ops):
    for op in ops:
        apply_xop(model, op)
    return model


def draw_xop(draw, model):
    """One swap or kind change applicable to model, or None."""
    from hypothesis import strategies as st
    nonroot = sorted(f for f in model if f != tm.ROOT_ID)
    if not nonroot:
        return None
    if draw(st.booleans()):
        pairs = []
        for a in nonroot:
            for b in nonroot:
                if a < b and a not in tm.descendants(model, b) and \
                        b not in tm.descendants(model, a) and \
                        (model[a]["parent"], model[a]["name"]) != \
                        (model[b]["parent"], model[b]["name"]):
                    pairs.append((a, b))
        if not pairs:
            return None
        a, b = draw(st.sampled_from(pairs))
        return ["swap", a, b]
    cands = [f for f in nonroot if model[f]["kind"] != "directory" or
             not tm.children(model, f)]
    if not cands:
        return None
    f = draw(st.sampled_from(cands))
    kinds = [k for k in ("file", "directory", "symlink")
             if k != model[f]["kind"]]
    kind = draw(st.sampled_from(kinds))
    if kind == "file":
        return ["kind", f, kind, draw(tm.text_strategy()), draw(st.booleans())]
    if kind == "symlink":
        return ["kind", f, kind, draw(st.sampled_from(["a", "../x", "gone"])),
                False]
    return ["kind", f, kind, None, False]


def no_symlink_loops(model, op):
    """Rewrite an op that would create a symlink resolving through itself
    (target's first component is its own name): os.stat() on such a link is
    ELOOP, which DiskTreeTransform._set_mode does not expect when the link is
    later replaced by a file - a robustness gap outside C13/C14's subject."""
    if op is None:
        return op
    if op[0] == "add" and op[4] == "symlink":
        if op[5].split("/")[0] == op[3]:
            op = op[:5] + ["nowhere"] + op[6:]
    elif op[0] == "retarget":
        if op[2].split("/")[0] == model[op[1]]["name"]:
            op = [op[0], op[1], "nowhere"]
    elif op[0] == "kind" and op[2] == "symlink":
        if op[3].split("/")[0] == model[op[1]]["name"]:
            op = op[:3] + ["nowhere"] + op[4:]
    return op


DANGLING = {"a": "nowhere", "b/c": "gone/c", "other": "other", "../x": "../x",
            "nowhere": "nowhere", "gone": "gone"}


def dangling(op):
    """Rewrite symlink targets so that no link ever resolves to an entry of
    the tree (names of the tree are a-e, m, n, u, v)."""
    if op is None:
        return None
    if op[0] == "add" and op[4] == "symlink":
        return op[:5] + [DANGLING.get(op[5], "nowhere")] + op[6:]
    if op[0] == "retarget":
        return [op[0], op[1], DANGLING.get(op[2], "nowhere")]
    if op[0] == "kind" and op[2] == "symlink":
        return op[:3] + [DANGLING.get(op[3], "nowhere")] + op[4:]
    return op


def safe_op(model, op, dangle=False):
    """op, rewritten or dropped (None) so that the model never contains a
    symlink whose resolution loops (dangle: nor one that resolves at all)."""
    import copy
    if op is None:
        return None
    if dangle:
        op = dangling(op)
        if op[0] == "retarget" and model[op[1]]["content"] == op[2]:
            return None
    op = no_symlink_loops(model, op)
    if not has_symlink_loop(apply_xop(copy.deepcopy(model), op)):
        return op
    if op[0] == "add" and op[4] == "symlink":
        op = op[:5] + ["nowhere"] + op[6:]
        if not has_symlink_loop(apply_xop(copy.deepcopy(model), op)):
            return op
    return None


# ------------------------------------------------------------- real trees

def build_tree(path, fmt, base_ops):
    """Committed tree holding the model built by base_ops. -> (wt, model)"""
    wt = bz.init_tree(path, fmt)
    model = tm.new_model()
    use_ids = wt.supports_setting_file_ids()
    with wt.lock_write():
        if use_ids:
            wt.set_root_id(bz.enc(tm.ROOT_ID))
        bz.apply_ops_wt(wt, model, base_ops, use_ids=use_ids)
        bz.age_files(path)
        if use_ids:
            bz.commit(wt, rev_id="base")
        else:
            wt.commit("base", timestamp=bz.T0, timezone=0,
                      committer=bz.COMMITTER, allow_pointless=True)
    return wt, model


def transform_from_diff(tt, base, final, set_ids=True):
    """Issue the TreeTransform calls that turn `base` into `final` (models
    keyed by file id). -> {file id: trans id}"""
    t = {}
    for fid in base:
        t[fid] = tt.root if fid == tm.ROOT_ID else \
            tt.trans_id_tree_path(tm.path_of(base, fid))
    gone = [f for f in base if f not in final]
    for fid in sorted(gone, key=lambda f: -tm.depth(base, f)):
        tt.delete_contents(t[fid])
        tt.unversion_file(t[fid])
    new = [f for f in final if f not in base]
    for fid in sorted(new, key=lambda f: (tm.depth(final, f), f)):
        e = final[fid]
        parent = t[e["parent"]]
        kw = {"file_id": bz.enc(fid)} if set_ids else {}
        if e["kind"] == "file":
            t[fid] = tt.new_file(e["name"], parent, [bz.cbytes(e["content"])],
                                 executable=bool(e["exec"]), **kw)
            if not set_ids:
                tt.version_file(t[fid])
        elif e["kind"] == "directory":
            t[fid] = tt.new_directory(e["name"], parent, **kw)
            if not set_ids:
                tt.version_file(t[fid])
        else:
            t[fid] = tt.new_symlink(e["name"], parent, e["content"], **kw)
            if not set_ids:
                tt.version_file(t[fid])
    for fid in sorted(f for f in final if f in base and f != tm.ROOT_ID):
        b, e = base[fid], final[fid]
        if (b["parent"], b["name"]) != (e["parent"], e["name"]):
            tt.adjust_path(e["name"], t[e["parent"]], t[fid])
        if b["kind"] != e["kind"] or b["content"] != e["content"]:
            tt.delete_contents(t[fid])
            if e["kind"] == "file":
                tt.create_file([bz.cbytes(e["content"])], t[fid])
                tt.set_executability(bool(e["exec"]), t[fid])
            elif e["kind"] == "directory":
                tt.create_directory(t[fid])
            else:
                tt.create_symlink(e["content"], t[fid])
        elif e["kind"] == "file" and b["exec"] != e["exec"]:
            tt.set_executability(bool(e["exec"]), t[fid])
    return t


def versioned_snapshot(path):
    """Versioning metadata of a freshly opened tree at path:
    ({path: [kind, sha1|target, exec, id]}, parent ids)."""
    wt = bz.open_tree(path)
    with wt.lock_read():
        snap = {}
        ids = wt.supports_setting_file_ids()
        for p in wt.all_versioned_paths():
            if p == "":
                continue
            fid = None
            if ids:
                fid = wt.path2id(p)
                fid = fid.decode("utf-8") if fid is not None else None
            snap[p] = [wt.stored_kind(p), fid]
        parents = [p.decode("latin-1") for p in wt.get_parent_ids()]
    return snap, parents


def control_leftovers(path):
    """limbo / pending-deletion directories that survived finalize()."""
    out = []
    for base in (".bzr/checkout", ".git"):
        d = os.path.join(path, base)
        if not os.path.isdir(d):
            continue
        for n in sorted(os.listdir(d)):
            if n in ("limbo", "pending-deletion"):
                out.append(os.path.join(base, n))
    return out
