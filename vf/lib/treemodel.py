"""Abstract versioned tree + generated edit scripts.

Model: {file_id: Entry} with Entry = dict(parent, name, kind, content, exec).
  kind in file|directory|symlink; content = text (latin-1 str) for files, link
  target for symlinks, None for directories.  The root has id ROOT_ID, parent
  None, name "".
Edit ops are JSON lists, applicable by construction to the model state they
were drawn for:
  ["add", id, parent_id, name, kind, content, exec]
  ["modify", id, content]
  ["rename", id, new_parent_id, new_name]
  ["delete", id]                      (recursive for directories)
  ["chmod", id, exec]
  ["retarget", id, target]
"""

import copy

from hypothesis import strategies as st

ROOT_ID = "root-id"

NAMES = ["a", "b", "c", "d", "e"]
ODD_NAMES = ["ä", "a b", ".hidden", "x~", "a.BASE", "-dash", "A"]
LINES = ["alpha\n", "beta\n", "gamma\n", "delta\n", "epsilon\n", "zeta\n"]


def new_model():
    return {ROOT_ID: {"parent": None, "name": "", "kind": "directory",
                      "content": None, "exec": False}}


def clone(model):
    return copy.deepcopy(model)


def path_of(model, fid):
    parts = []
    seen = set()
    while fid is not None:
        e = model[fid]
        if fid in seen:
            raise ValueError("cycle")
        seen.add(fid)
        if e["parent"] is None:
            break
        parts.append(e["name"])
        fid = e["parent"]
    return "/".join(reversed(parts))


def paths(model):
    """{path: id}"""
    return {path_of(model, fid): fid for fid in model}


def children(model, fid):
    return sorted(c for c, e in model.items() if e["parent"] == fid)


def descendants(model, fid):
    out = []
    stack = [fid]
    while stack:
        x = stack.pop()
        for c in children(model, x):
            out.append(c)
            stack.append(c)
    return out


def names_in(model, parent):
    return {model[c]["name"] for c in children(model, parent)}


def dirs(model):
    return sorted(f for f, e in model.items() if e["kind"] == "directory")


def depth(model, fid):
    d = 0
    while model[fid]["parent"] is not None:
        d += 1
        fid = model[fid]["parent"]
    return d


def valid(model):
    if ROOT_ID not in model or model[ROOT_ID]["parent"] is not None:
        return False
    seen_names = set()
    for fid, e in model.items():
        if fid == ROOT_ID:
            continue
        p = e["parent"]
        if p not in model or model[p]["kind"] != "directory":
            return False
        key = (p, e["name"])
        if key in seen_names:
            return False
        seen_names.add(key)
        try:
            path_of(model, fid)
        except ValueError:
            return False
    return True


def apply_op(model, op):
    """Apply one op to the model in place."""
    k = op[0]
    if k == "add":
        _, fid, parent, name, kind, content, ex = op
        model[fid] = {"parent": parent, "name": name, "kind": kind,
                      "content": content, "exec": bool(ex)}
    elif k == "modify":
        model[op[1]]["content"] = op[2]
    elif k == "rename":
        model[op[1]]["parent"] = op[2]
        model[op[1]]["name"] = op[3]
    elif k == "delete":
        for d in descendants(model, op[1]):
            del model[d]
        del model[op[1]]
    elif k == "chmod":
        model[op[1]]["exec"] = bool(op[2])
    elif k == "retarget":
        model[op[1]]["content"] = op[2]
    else:
        raise ValueError(op)


def apply_ops(model, ops):
    for op in ops:
        apply_op(model, op)
    return model


def snapshot(model, with_ids=True, root=False):
    """Canonical {path: [kind, content, exec, id]} (root omitted unless asked)."""
    out = {}
    for fid, e in model.items():
        if fid == ROOT_ID and not root:
            continue
        p = path_of(model, fid)
        out[p] = [e["kind"], e["content"],
                  bool(e["exec"]) if e["kind"] == "file" else None,
                  fid if with_ids else None]
    return out


# ------------------------------------------------------------ strategies

def text_strategy(max_lines=8):
    lines = st.lists(st.sampled_from(LINES), max_size=max_lines)
    return st.tuples(lines, st.booleans()).map(
        lambda t: "".join(t[0])[:-1] if (t[1] and t[0]) else "".join(t[0]))


def name_strategy(odd=True):
    if odd:
        return st.one_of(st.sampled_from(NAMES), st.sampled_from(NAMES),
                         st.sampled_from(NAMES), st.sampled_from(ODD_NAMES))
    return st.sampled_from(NAMES)


class IdSource:
    def __init__(self, prefix="f"):
        self.n = 0
        self.prefix = prefix
        self.tomb = None   # set of vacated paths that must not be re-used

    def free(self, model, parent, name, moving=None):
        """May `name` be created under `parent`? (tombstone rule)"""
        if self.tomb is None:
            return True
        pp = path_of(model, parent)
        path = (pp + "/" + name) if pp else name
        for t in self.tomb:
            if t == path or t.startswith(path + "/"):
                return False
        if moving is not None:
            # descendants of a moved directory land below `path`
            for d in descendants(model, moving):
                rel = path_of(model, d)[len(path_of(model, moving)):]
                if (path + rel) in self.tomb:
                    return False
        return True

    def bury(self, model, fid):
        if self.tomb is not None:
            self.tomb.add(path_of(model, fid))
            for d in descendants(model, fid):
                self.tomb.add(path_of(model, d))

    def next(self):
        self.n += 1
        return "%s%d-id" % (self.prefix, self.n)


def draw_op(draw, model, ids, symlinks=True, execs=True, odd_names=True,
            max_depth=3, kinds=None):
    """Draw one op applicable to `model` (does not apply it). Returns None when
    the drawn kind has no applicable instance."""
    choices = kinds or ["add", "add", "add", "modify", "modify", "rename",
                        "rename", "delete", "chmod", "retarget", "add_dir"]
    k = draw(st.sampled_from(choices))
    nonroot = sorted(f for f in model if f != ROOT_ID)
    files = [f for f in nonroot if model[f]["kind"] == "file"]
    links = [f for f in nonroot if model[f]["kind"] == "symlink"]
    if k in ("add", "add_dir"):
        cands = [d for d in dirs(model) if depth(model, d) < max_depth]
        parent = draw(st.sampled_from(cands))
        used = names_in(model, parent)
        name = draw(name_strategy(odd_names).filter(
            lambda n: n not in used and ids.free(model, parent, n)))
        if k == "add_dir":
            kind = "directory"
        else:
            kl = ["file", "file", "file", "directory"]
            if symlinks:
                kl.append("symlink")
            kind = draw(st.sampled_from(kl))
        if kind == "file":
            content = draw(text_strategy())
            ex = draw(st.booleans()) if execs else False
        elif kind == "symlink":
            content = draw(st.sampled_from(["a", "b/c", "../x", "nowhere"]))
            ex = False
        else:
            content, ex = None, False
        return ["add", ids.next(), parent, name, kind, content, ex]
    if k == "modify":
        if not files:
            return None
        f = draw(st.sampled_from(files))
        content = draw(text_strategy().filter(
            lambda c: c != model[f]["content"]))
        return ["modify", f, content]
    if k == "rename":
        if not nonroot:
            return None
        f = draw(st.sampled_from(nonroot))
        banned = set(descendants(model, f)) | {f}
        cands = [d for d in dirs(model) if d not in banned and
                 depth(model, d) < max_depth]
        if not cands:
            return None
        parent = draw(st.sampled_from(cands))
        used = names_in(model, parent)
        name = draw(name_strategy(odd_names).filter(
            lambda n: n not in used and ids.free(model, parent, n, moving=f)))
        ids.bury(model, f)
        return ["rename", f, parent, name]
    if k == "delete":
        if not nonroot:
            return None
        f = draw(st.sampled_from(nonroot))
        ids.bury(model, f)
        return ["delete", f]
    if k == "chmod":
        if not files or not execs:
            return None
        f = draw(st.sampled_from(files))
        return ["chmod", f, not model[f]["exec"]]
    if k == "retarget":
        if not links:
            return None
        f = draw(st.sampled_from(links))
        t = draw(st.sampled_from(["a", "b/c", "../x", "nowhere", "other"]).filter(
            lambda t: t != model[f]["content"]))
        return ["retarget", f, t]
    return None


def draw_ops(draw, model, ids, n_min=0, n_max=6, **kw):
    """Draw a script and apply it to `model` (mutates it). Returns the ops."""
    n = draw(st.integers(n_min, n_max))
    ops = []
    for _ in range(n):
        op = draw_op(draw, model, ids, **kw)
        if op is None:
            continue
        apply_op(model, op)
        ops.append(op)
    return ops


def draw_swap(draw, model):
    """Three renames exchanging two siblings' names (a hard shape)."""
    nonroot = sorted(f for f in model if f != ROOT_ID)
    pairs = [(a, b) for a in nonroot for b in nonroot if a < b and
             model[a]["parent"] == model[b]["parent"]]
    if not pairs:
        return None
    a, b = draw(st.sampled_from(pairs))
    return a, b


@st.composite
def tree_and_ops(draw, base_min=2, base_max=8, n_min=1, n_max=6, **kw):
    """-> {"base": [ops building the base tree], "ops": [edit script]}"""
    ids = IdSource()
    m = new_model()
    base = draw_ops(draw, m, ids, n_min=base_min, n_max=base_max,
                    kinds=["add", "add", "add_dir"], **kw)
    ops = draw_ops(draw, m, ids, n_min=n_min, n_max=n_max, **kw)
    return {"base": base, "ops": ops}
