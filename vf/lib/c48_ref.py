"""Reference matcher for breezy ignore patterns, written from
`brz help patterns` (breezy/help_topics/en/patterns.txt) only.

No regular-expression translation of globs: a recursive token matcher.
`RE:` patterns are decided with Python's `re.fullmatch` on the text after the
prefix (python `re` is the documented semantics of those patterns).

Where the documentation is silent the verdict is None ("unspecified"):
* a negated character group facing a '/' in a whole-path pattern.
"""

import re

STAR = "*"
QM = "?"
DSTAR = "**/"


class Unsupported(Exception):
    """The pattern is outside the grammar this reference implements."""


def normalize(p):
    """Documented: trailing slashes on patterns are ignored."""
    if p.startswith("RE:"):
        return p
    while len(p) > 1 and p.endswith("/"):
        p = p[:-1]
    return p


def classify(p):
    """-> 're' | 'full' | 'base' (documented rule: a slash or RE: -> whole path)."""
    if p.startswith("RE:"):
        return "re"
    if "/" in p:
        return "full"
    return "base"


def impl_class(p):
    """The three internal batches of Globster (only used to aim padding)."""
    p = normalize(p)
    if p.startswith("RE:") or "/" in p:
        return "fullpath"
    if p.startswith("*."):
        return "extension"
    return "basename"


def tokens(p):
    out = []
    i = 0
    n = len(p)
    while i < n:
        c = p[i]
        if c == "\\":
            raise Unsupported("backslash")
        if c == "[":
            j = i + 1
            neg = False
            if j < n and p[j] in "!^":
                neg = True
                j += 1
            start = j
            if j < n and p[j] == "]":
                raise Unsupported("] first in group")
            while j < n and p[j] != "]":
                if p[j] in "[/":
                    raise Unsupported("[ or / in group")
                j += 1
            if j >= n or j == start:
                raise Unsupported("unterminated/empty group")
            body = p[start:j]
            chars = set()
            k = 0
            while k < len(body):
                if k + 2 < len(body) and body[k + 1] == "-":
                    lo, hi = ord(body[k]), ord(body[k + 2])
                    if lo > hi:
                        raise Unsupported("reversed range")
                    chars.update(chr(x) for x in range(lo, hi + 1))
                    k += 3
                else:
                    if body[k] == "-" and 0 < k < len(body) - 1:
                        raise Unsupported("ambiguous dash")
                    chars.add(body[k])
                    k += 1
            out.append(("G", neg, frozenset(chars)))
            i = j + 1
        elif c == "*":
            j = i
            while j < n and p[j] == "*":
                j += 1
            run = j - i
            at_start = i == 0 or p[i - 1] == "/"
            if run >= 2:
                if run == 2 and at_start and j < n and p[j] == "/":
                    out.append(DSTAR)
                    i = j + 1
                    continue
                raise Unsupported("** outside the documented /**/ form")
            out.append(STAR)
            i = j
        elif c == "?":
            out.append(QM)
            i += 1
        else:
            out.append(c)
            i += 1
    return out


def _match(toks, s, neg_matches_slash):
    n = len(toks)
    m = len(s)
    memo = {}

    def go(i, j):
        key = (i, j)
        r = memo.get(key)
        if r is not None:
            return r
        r = _go(i, j)
        memo[key] = r
        return r

    def _go(i, j):
        if i == n:
            return j == m
        t = toks[i]
        if t == STAR:
            k = j
            while True:
                if go(i + 1, k):
                    return True
                if k < m and s[k] != "/":
                    k += 1
                else:
                    return False
        if t == DSTAR:
            # zero or more whole directories: "" or "<dirs>/"
            if go(i + 1, j):
                return True
            k = j
            while k < m:
                if s[k] == "/" and go(i + 1, k + 1):
                    return True
                k += 1
            return False
        if j >= m:
            return False
        c = s[j]
        if t == QM:
            return c != "/" and go(i + 1, j + 1)
        if isinstance(t, tuple):
            _, neg, chars = t
            if c == "/":
                hit = neg and neg_matches_slash
            else:
                hit = (c in chars) != neg
            return hit and go(i + 1, j + 1)
        return c == t and go(i + 1, j + 1)

    return go(0, 0)


def ref_match(pattern, fname):
    """True / False / None (unspecified by the documentation)."""
    p = normalize(pattern)
    kind = classify(p)
    if kind == "re":
        return re.fullmatch(p[3:], fname) is not None
    if kind == "base":
        base = fname.rsplit("/", 1)[-1]
        toks = tokens(p)
        a = _match(toks, base, True)
        return a
    if p.startswith("/"):
        raise Unsupported("absolute pattern")
    while p.startswith("./"):
        p = p[2:]
        if not p:
            raise Unsupported("bare ./")
    toks = tokens(p)
    a = _match(toks, fname, True)
    b = _match(toks, fname, False)
    if a != b:
        return None
    return a


def split_exception(p):
    """-> (level, pattern): 0 plain, 1 '!' exception, 2 '!!' override."""
    if p.startswith("!!"):
        return 2, p[2:]
    if p.startswith("!"):
        return 1, p[1:]
    return 0, p


def ref_ignored(patterns, fname):
    """Documented precedence for a list with '!'/'!!' prefixes.

    -> ("ignored", [patterns that may be reported]) | ("not-ignored", [])
       | ("unspecified", [])"""
    lv = {0: [], 1: [], 2: []}
    for p in patterns:
        level, q = split_exception(p)
        lv[level].append((p, ref_match(q, fname)))
    v2 = [r for _, r in lv[2]]
    if True in v2:
        return "ignored", [normalize(p[2:]) for p, r in lv[2] if r is not False]
    if None in v2:
        return "unspecified", []
    v1 = [r for _, r in lv[1]]
    if True in v1:
        return "not-ignored", []
    if None in v1:
        return "unspecified", []
    v0 = [r for _, r in lv[0]]
    if True in v0:
        return "ignored", [normalize(p) for p, r in lv[0] if r is not False]
    if None in v0:
        return "unspecified", []
    return "not-ignored", []
