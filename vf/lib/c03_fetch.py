"""Helpers shared by C03 (fetch/push/pull) and C08 (stacking): smart-server
fixture, repository-directory snapshots, source-vs-target comparison, the
stacking invariant."""

import hashlib
import os

from ..api import check
from . import bz
from . import graphmodel as gm
from . import treemodel as tm


def _s(b):
    return b.decode("utf-8") if isinstance(b, bytes) else b


# ------------------------------------------------------------------ smart server

class _DirServer:
    """backing_transport_server for SmartTCPServer_for_testing: a fixed
    directory instead of the process cwd."""

    def __init__(self, path):
        self.path = path

    def get_url(self):
        from breezy import urlutils
        return urlutils.local_path_to_url(self.path) + "/"


def smart_setup(env):
    """Start one smart server per shard serving env.root (the directory all
    env.newdir() scratch directories live in)."""
    from breezy.tests import test_server
    srv = test_server.SmartTCPServer_for_testing()
    srv.start_server(_DirServer(env.root))
    # like `brz serve` (breezy/bzr/smart/server.py): a server never waits for
    # a lock. Client and server share this process; no case has two actors,
    # so a lock that cannot be taken at once is contention with oneself and
    # waiting 30 s for it only burns the budget.
    from breezy import lockdir
    env.shared["lock_timeout"] = lockdir._DEFAULT_TIMEOUT_SECONDS
    lockdir._DEFAULT_TIMEOUT_SECONDS = 0
    env.shared["smart"] = srv
    env.shared["smart_url"] = srv.get_url()
    env.shared["smart_transports"] = []


def smart_teardown(env):
    smart_disconnect(env)
    if "lock_timeout" in env.shared:
        from breezy import lockdir
        lockdir._DEFAULT_TIMEOUT_SECONDS = env.shared.pop("lock_timeout")
    srv = env.shared.pop("smart", None)
    if srv is not None:
        srv.stop_server()


def smart_url(env, path):
    rel = os.path.relpath(path, env.root)
    if rel.startswith(".."):
        raise ValueError("path outside the served directory: %r" % path)
    return env.shared["smart_url"] + rel


def smart_transport(env, path):
    """A bzr:// transport for a scratch path; remembered so that the
    connection is closed at the end of the case."""
    from breezy import transport as _t
    t = _t.get_transport_from_url(smart_url(env, path))
    env.shared["smart_transports"].append(t)
    return t


def smart_disconnect(env):
    for t in env.shared.get("smart_transports", []):
        try:
            t.disconnect()
        except Exception:  # closing a dead connection must not mask results
            pass
    env.shared["smart_transports"] = []


def open_branch(env, path, smart):
    from breezy import branch
    if smart:
        return branch.Branch.open_from_transport(smart_transport(env, path))
    return branch.Branch.open(path)


def open_controldir(env, path, smart):
    from breezy import controldir
    if smart:
        return controldir.ControlDir.open_from_transport(
            smart_transport(env, path))
    return controldir.ControlDir.open(path)


def open_repo(env, path, smart):
    return open_controldir(env, path, smart).open_repository()


# ------------------------------------------------------------------ snapshots

def repo_dir_snapshot(path):
    """{relative file name: sha1} of <path>/.bzr/repository without lock
    directories (what must not change when nothing is transferred)."""
    base = os.path.join(path, ".bzr", "repository")
    out = {}
    for d, ds, fs in os.walk(base):
        if d == base and "lock" in ds:
            ds.remove("lock")
        ds.sort()
        rel = os.path.relpath(d, base)
        if not fs and not ds and rel != ".":
            out[rel + "/"] = None
        for f in sorted(fs):
            with open(os.path.join(d, f), "rb") as fh:
                out[os.path.normpath(os.path.join(rel, f))] = hashlib.sha1(
                    fh.read()).hexdigest()
    return out


def rev_fields(rev):
    return [list(_s(p) for p in rev.parent_ids), rev.message, rev.committer,
            rev.timestamp, rev.timezone,
            sorted((k, v) for k, v in rev.properties.items())]


def testament_texts(repo, rid, v3):
    from breezy.bzr.testament import (StrictTestament, StrictTestament3,
                                      Testament)
    classes = [Testament, StrictTestament] + ([StrictTestament3] if v3 else [])
    return [c.from_revision(repo, rid).as_text() for c in classes]


def text_parent_map(repo, revs, skip_root):
    """{(fid, rev): [parents]} for text keys whose revision is in revs."""
    out = {}
    keys = [k for k in repo.texts.keys() if _s(k[1]) in revs]
    for k, ps in repo.texts.get_parent_map(keys).items():
        if skip_root and _s(k[0]) == tm.ROOT_ID:
            continue
        out[(_s(k[0]), _s(k[1]))] = [(_s(p[0]), _s(p[1])) for p in ps]
    return out


def check_clean(repo, pre):
    res = repo.check(None)
    check(not res.inconsistent_parents, pre + "check-inconsistent-parents",
          repr(res.inconsistent_parents)[:600])
    check(not res.unreferenced_versions, pre + "check-unreferenced-versions",
          repr(sorted(res.unreferenced_versions))[:600])
    check(not res.missing_parent_links, pre + "check-missing-parent-links",
          repr(res.missing_parent_links)[:600])
    check(not res._report_items, pre + "check-reports-problems",
          list(res._report_items)[:5])
    check(not getattr(res, "revs_with_bad_parents_in_index", None),
          pre + "check-bad-revision-index-parents",
          repr(getattr(res, "revs_with_bad_parents_in_index", None))[:600])
    check(not res.missing_inventory_sha_cnt and not res.missing_revision_cnt,
          pre + "check-missing-revisions-or-inventory-sha",
          [res.missing_inventory_sha_cnt, res.missing_revision_cnt])
    return res


def compare_history(pid, srepo, trepo, revs, tag=""):
    """Every revision in `revs` (present in srepo) must be in trepo with equal
    metadata, tree, testaments and per-file history."""
    pre = "%s/%s" % (pid, tag + "-" if tag else "")
    same_root = srepo.supports_rich_root() == trepo.supports_rich_root()
    with srepo.lock_read(), trepo.lock_read():
        have = {_s(r) for r in trepo.all_revision_ids()}
        missing = sorted(set(revs) - have)
        check(not missing, pre + "ancestor-revision-missing-in-target",
              {"missing": missing})
        for r in sorted(revs):
            rb = bz.enc(r)
            check(trepo.has_revision(rb), pre + "has_revision-false", r)
            sf = rev_fields(srepo.get_revision(rb))
            tf = rev_fields(trepo.get_revision(rb))
            check(sf == tf, pre + "revision-metadata-differs", [r, sf, tf])
            ss = bz.snapshot_tree(srepo.revision_tree(rb))
            ts = bz.snapshot_tree(trepo.revision_tree(rb))
            check(ss == ts, pre + "tree-content-differs",
                  {"rev": r, "diff": sorted(
                      p for p in set(ss) | set(ts) if ss.get(p) != ts.get(p))})
            st_ = testament_texts(srepo, rb, same_root)
            tt = testament_texts(trepo, rb, same_root)
            for name, a, b in zip(("Testament", "StrictTestament",
                                   "StrictTestament3"), st_, tt):
                check(a == b, pre + "testament-differs-" + name,
                      {"rev": r, "source": a, "target": b})
        sp = text_parent_map(srepo, set(revs), not same_root)
        tp = text_parent_map(trepo, set(revs), not same_root)
        if sp != tp:
            diff = {repr(k): [sp.get(k), tp.get(k)] for k in
                    sorted(set(sp) | set(tp)) if sp.get(k) != tp.get(k)}
            check(False, pre + "per-file-parents-differ", diff)


# ------------------------------------------------------------------ stacking

def stacking_invariant(pid, path, graph, models, tag=""):
    """C08 invariant on the stacked repository at `path` opened ALONE (no
    fallbacks attached). graph: {rev: parents} of the whole known history (own
    model; parents that are not keys are ghosts), models: {rev: treemodel}.

    For every revision in the repository's own revision index: its inventory
    and the inventories of its non-ghost parents are held locally; every text
    whose entry differs from every parent's entry is held locally and can be
    extracted without the fallback; 2a: the CHK pages (and the texts they
    name) by which the local revisions' inventories differ from the
    parent-only inventories are local; pre-2a: the local inventories can be
    read completely without the fallback.
    Returns (local revisions, local revisions with a parent that is not local).
    """
    import hashlib as _h
    from breezy import errors
    from breezy import repository as _r
    pre = "%s/%s" % (pid, tag + "-" if tag else "")
    repo = _r.Repository.open(path)
    with repo.lock_read():
        check(not repo._fallback_repositories, pid + "/harness-fallbacks",
              "Repository.open attached fallbacks")
        local = {_s(k[0]) for k in repo.revisions.keys()}
        invs = {_s(k[0]) for k in repo.inventories.keys()}
        texts = {(_s(k[0]), _s(k[1])) for k in repo.texts.keys()}
        rich = repo.supports_rich_root()
        boundary = set()
        parent_only = set()
        want_texts = []
        for r in sorted(local):
            check(r in invs, pre + "inventory-of-local-revision-missing", r)
            for p in graph.get(r, ()):
                if p not in graph:
                    continue        # ghost: inventory legitimately absent
                if p not in local:
                    boundary.add(r)
                    parent_only.add(p)
                check(p in invs, pre + "parent-inventory-missing",
                      {"rev": r, "parent": p, "local": sorted(local)})
            m = models.get(r)
            if m is None:
                continue
            pms = [models[p] for p in graph.get(r, ()) if p in models]
            for fid, e in sorted(m.items()):
                if fid == tm.ROOT_ID and not rich:
                    continue
                same = False
                for pm in pms:
                    pe = pm.get(fid)
                    if pe is not None and all(pe[k] == e[k] for k in (
                            "parent", "name", "kind", "content", "exec")):
                        same = True
                if not same:
                    # new in r against every parent: last-changed is r
                    check((fid, r) in texts,
                          pre + "changed-text-missing-locally",
                          {"rev": r, "file": fid})
                    want_texts.append((fid, r, e))
        # the changed texts can be extracted from local data alone
        keys = [(bz.enc(f), bz.enc(r)) for f, r, e in want_texts]
        exp = {(f, r): e for f, r, e in want_texts}
        for rec in repo.texts.get_record_stream(keys, "unordered", True):
            k = (_s(rec.key[0]), _s(rec.key[1]))
            check(rec.storage_kind != "absent",
                  pre + "changed-text-missing-locally", list(k))
            data = rec.get_bytes_as("fulltext")
            e = exp[k]
            want = bz.cbytes(e["content"]) if e["kind"] == "file" else b""
            check(_h.sha1(data).hexdigest() == _h.sha1(want).hexdigest(),
                  pre + "local-text-content-wrong", list(k))
        if repo._format.supports_chks:
            from bzrformats import chk_map
            try:
                from bzrformats.errors import NoSuchRevision as _FNoSuch
            except ImportError:
                _FNoSuch = errors.NoSuchRevision
            inter, unint, pinter, punint = set(), set(), set(), set()
            ids = sorted(local | (parent_only & invs))
            for inv in repo.iter_inventories([bz.enc(i) for i in ids],
                                             "unordered"):
                rk = inv.id_to_entry.key()
                pk = inv.parent_id_basename_to_file_id.key()
                if _s(inv.revision_id) in local:
                    inter.add(rk)
                    pinter.add(pk)
                else:
                    unint.add(rk)
                    punint.add(pk)
            have = set(repo.chk_bytes.keys())
            roots = inter | unint | pinter | punint
            # a map identical to a parent-only inventory's adds nothing
            inter -= unint
            pinter -= punint
            check(roots <= have, pre + "chk-root-missing-locally",
                  sorted(repr(k) for k in roots - have)[:5])
            tkeys = set()
            try:
                for rec, items in chk_map.iter_interesting_nodes(
                        repo.chk_bytes, inter, unint):
                    for _n, b in items:
                        tkeys.add(chk_map._bytes_to_text_key(b))
                for rec, items in chk_map.iter_interesting_nodes(
                        repo.chk_bytes, pinter, punint):
                    pass
            except (errors.NoSuchRevision, _FNoSuch) as e:
                check(False, pre + "chk-page-missing-locally", repr(e)[:300])
            missing = sorted((_s(a), _s(b)) for a, b in tkeys
                             if (_s(a), _s(b)) not in texts)
            check(not missing, pre + "text-named-by-new-chk-page-missing-locally",
                  missing[:5])
        else:
            for r in sorted(local | (parent_only & invs)):
                try:
                    inv = repo.get_inventory(bz.enc(r))
                    n = sum(1 for _ in inv.iter_entries())
                except errors.NoSuchRevision as e:
                    check(False, pre + "inventory-not-readable-locally",
                          [r, repr(e)[:300]])
                check(n >= 1, pre + "inventory-not-readable-locally", r)
    return local, boundary
