"""C09 reference model: an abstract working tree = (directory content,
versioned set, basis) for a bzr (inventory with file ids) or git (index of
non-directory paths) working tree, with the edit operations of the property.

State
  disk   {path: [kind, content, exec]}   everything below the tree root
         (kind file|directory|symlink; content = text / link target / None)
  bzr:   inv   {tok: [parent_tok, name, stored_kind]}    (ROOT tok = 0)
         basis {tok: [parent_tok, name, kind, content, exec]}
  git:   idx   {path: stored_kind}        (files and symlinks only)
         gbasis{path: [kind, content, exec]}

Steps are JSON lists; ``apply(step)`` returns "ok" (state updated) or "refuse"
(the operation is inapplicable: state untouched, the subject must raise one of
its documented refusal exceptions and change nothing).
"""

import copy
import posixpath

ROOT = 0


class ModelError(Exception):
    """A step that the generator must never produce (harness bug)."""


def parent(p):
    return posixpath.dirname(p)


def base(p):
    return posixpath.basename(p)


def join(d, n):
    return d + "/" + n if d else n


def inside(d, p):
    """p == d or p below d ('' contains everything)."""
    return d == "" or p == d or p.startswith(d + "/")


def depth(p):
    return 0 if p == "" else p.count("/") + 1


class Model:
    def __init__(self, fmt, wt3=False):
        self.fmt = fmt           # "bzr" | "git"
        # inventory-file working tree (format 3): a commit does not rewrite
        # the kinds the working inventory remembers
        self.wt3 = wt3
        self.disk = {}
        self.inv = {ROOT: [None, "", "directory"]}
        self.basis = {ROOT: [None, "", "directory", None, None]}
        self.idx = {}
        self.gbasis = {}
        self.ntok = 0
        self.commits = 0
        self.history = []    # bzr: the basis of every commit so far
        self.unc = set()     # bzr toks whose recorded kind is unknown
        self.locked = False  # between a "lock" and an "unlock" step
        self.gone_in_lock = set()
        self.stale = set()   # git: index entries a listed defect leaves behind
        self.flags = set()   # preconditions of known defects met by the
        #                      last step (the generator thins those out)

    def clone(self):
        return copy.deepcopy(self)

    # ------------------------------------------------------------ disk
    def kind(self, p):
        if p == "":
            return "directory"
        e = self.disk.get(p)
        return e[0] if e else None

    def real_dir(self, p):
        return self.kind(p) == "directory"

    def under(self, p, table=None):
        table = self.disk if table is None else table
        return sorted(q for q in table if q == p or q.startswith(p + "/"))

    def children(self, p):
        return sorted(base(q) for q in self.disk if parent(q) == p and q != "")

    def resolve(self, path, limit=40):
        """Follow symlinks like the kernel: -> real path or None."""
        todo = [x for x in path.split("/") if x]
        cur = []
        n = 0
        while todo:
            c = todo.pop(0)
            if c == ".":
                continue
            if c == "..":
                if not cur:
                    return None          # leaves the tree: nothing there
                cur.pop()
                continue
            cand = "/".join(cur + [c])
            e = self.disk.get(cand)
            if e is None:
                return None
            if e[0] == "symlink":
                n += 1
                if n > limit:
                    self._looped = True
                    return None
                todo = [x for x in e[1].split("/") if x] + todo
                continue
            if todo and e[0] != "directory":
                return None
            cur.append(c)
        return "/".join(cur)

    def isdir(self, p):
        """os.path.isdir (follows symlinks)."""
        r = self.resolve(p)
        return r is not None and self.real_dir(r)

    def looping_links(self):
        out = []
        for p, e in sorted(self.disk.items()):
            if e[0] == "symlink":
                self._looped = False
                self.resolve(p)
                if self._looped:
                    out.append(p)
        return out

    def rm_tree(self, p):
        for q in self.under(p):
            del self.disk[q]

    def mv_tree(self, a, b, table=None):
        table = self.disk if table is None else table
        for q in self.under(a, table):
            table[b + q[len(a):]] = table.pop(q)

    def can_os_rename(self, a, b):
        """Would os.rename(a, b) succeed (b does not exist)?"""
        if inside(a, b):
            return False
        return self.real_dir(parent(b))

    # ------------------------------------------------------------ bzr inv
    def ipath(self, tok, inv=None):
        inv = self.inv if inv is None else inv
        parts = []
        while inv[tok][0] is not None:
            parts.append(inv[tok][1])
            tok = inv[tok][0]
        return "/".join(reversed(parts))

    def ipaths(self, inv=None):
        inv = self.inv if inv is None else inv
        return {self.ipath(t, inv): t for t in inv}

    def ichildren(self, tok, inv=None):
        inv = self.inv if inv is None else inv
        return sorted(t for t, e in inv.items() if e[0] == tok)

    def idesc(self, tok, inv=None):
        out, stack = [], [tok]
        while stack:
            x = stack.pop()
            for c in self.ichildren(x, inv):
                out.append(c)
                stack.append(c)
        return out

    def new_tok(self):
        self.ntok += 1
        return self.ntok

    # ------------------------------------------------------------ queries
    def versioned_paths(self):
        """Everything the tree calls versioned (root excluded)."""
        if self.fmt == "bzr":
            return sorted(p for p in self.ipaths() if p != "")
        out = set()
        for p in self.idx:
            while p != "":
                out.add(p)
                p = parent(p)
        return sorted(out)

    def is_versioned(self, p):
        if p == "":
            return True
        if self.fmt == "bzr":
            return p in self.ipaths()
        return p in self.idx or any(q.startswith(p + "/") for q in self.idx)

    def basis_paths(self):
        if self.fmt == "bzr":
            return sorted(p for p in self.ipaths(self.basis) if p != "")
        out = set()
        for p in self.gbasis:
            while p != "":
                out.add(p)
                p = parent(p)
        return sorted(out)

    def has_versioned_children(self, p):
        if self.fmt == "bzr":
            ip = self.ipaths()
            return p in ip and bool(self.ichildren(ip[p]))
        return any(q.startswith(p + "/") for q in self.idx)

    def fa_ok(self):
        """The input classes excluded by the design's false-alarm notes:
        a path with versioned children is a non-directory on disk (trusted
        base asserts); git: an index path below another index path (not a
        valid git index)."""
        if self.fmt == "bzr":
            for p, t in self.ipaths().items():
                if p == "":
                    continue
                k = self.kind(p)
                if k not in (None, "directory") and self.ichildren(t):
                    return False
                # stored non-directory with children (smart_add converts, but
                # plain add / rename below it is outside the domain)
                if self.inv[t][2] != "directory" and self.ichildren(t):
                    return False
        else:
            # dulwich's ignore manager opens <path>/.gitignore through the
            # link and dies with ELOOP (trusted base, not breezy)
            if self.looping_links():
                return False
            for p in self.idx:
                q = parent(p)
                while q != "":
                    # (an index path below another one is only possible
                    # when the upper one became a directory on disk)
                    if q in self.idx and self.kind(q) != "directory":
                        return False
                    if self.kind(q) not in (None, "directory"):
                        return False
                    q = parent(q)
        return True

    # ------------------------------------------------------------ apply
    def apply(self, step):
        self.flags = set()
        was = set(self.versioned_paths()) if self.locked else None
        stale_was = set(self.idx) if self.fmt == "git" else None
        r = getattr(self, "op_" + step[0])(*step[1:])
        if was is not None and self.locked:
            # what stopped being versioned while one lock is held
            self.gone_in_lock |= was - set(self.versioned_paths())
        if stale_was is not None:
            # a stale entry (see op_commit) is cured by removing the path
            # or adding it again
            self.stale = set(p for p in self.stale if not (
                step[0] == "remove" and inside(step[1], p)) and
                p not in self.idx)
        self._note_observation()
        return r

    def _note_observation(self):
        """The tree is observed after every step, and observing may or may not
        refresh the kind the dirstate remembers for an entry: once an entry
        was seen with a disk kind other than its recorded one, the recorded
        kind is unknown until the next commit / full revert rewrites it."""
        if self.fmt != "bzr":
            return
        for p, t in self.ipaths().items():
            if t != ROOT and self.kind(p) not in (None, self.inv[t][2]):
                self.unc.add(t)
        self.unc &= set(self.inv)

    def _certain(self, t, what):
        if t in self.unc:
            raise ModelError(["depends on an unknown recorded kind", what])

    # -- plain file system edits (always applicable by construction)
    def _need_parent_dir(self, p):
        if not self.real_dir(parent(p)):
            raise ModelError(["parent not a directory", p])

    def op_write(self, p, content, ex):
        self._need_parent_dir(p)
        if self.kind(p) not in (None, "file"):
            raise ModelError(["write over non-file", p])
        self.disk[p] = ["file", content, bool(ex)]
        return "ok"

    def op_mkdir(self, p):
        self._need_parent_dir(p)
        if self.kind(p) is not None:
            raise ModelError(["mkdir exists", p])
        self.disk[p] = ["directory", None, None]
        return "ok"

    def op_symlink(self, p, target):
        self._need_parent_dir(p)
        if self.kind(p) not in (None, "symlink"):
            raise ModelError(["symlink over", p])
        self.disk[p] = ["symlink", target, None]
        return "ok"

    def op_chmod(self, p, ex):
        if self.kind(p) != "file":
            raise ModelError(["chmod non-file", p])
        self.disk[p][2] = bool(ex)
        return "ok"

    def op_rm_disk(self, p):
        if self.kind(p) is None or p == "":
            raise ModelError(["rm_disk missing", p])
        self.rm_tree(p)
        return "ok"

    def op_change_kind(self, p, kind, content, ex):
        if self.kind(p) in (None, kind) or p == "":
            raise ModelError(["change_kind", p])
        self.rm_tree(p)
        if kind == "directory":
            self.disk[p] = ["directory", None, None]
        elif kind == "symlink":
            self.disk[p] = ["symlink", content, None]
        else:
            self.disk[p] = ["file", content, bool(ex)]
        return "ok"

    def op_reopen(self):
        return "ok"

    def op_observe(self, n):
        return "ok"

    def op_rebase(self, k):
        """set_parent_ids([k-th commit]), observe, and back to the tip: the
        tree content is untouched, status is then relative to that commit."""
        if self.fmt != "bzr" or not 0 <= k < len(self.history):
            raise ModelError(["no such commit", k])
        return "ok"

    def op_reset_parents(self):
        """set_parent_ids(get_parent_ids()): rewrites the basis column(s) of
        the tree state with what they already hold - nothing changes."""
        return "ok"

    # -- add
    def op_add(self, p):
        k = self.kind(p)
        if k is None:
            return "refuse"
        if self.fmt == "git":
            if k != "directory":
                self.idx[p] = k
            return "ok"
        ip = self.ipaths()
        if p in ip:
            # dirstate trees skip it silently, inventory-file trees refuse
            return "unchanged"
        par = parent(p)
        if par not in ip:
            if par in self.ipaths(self.basis):
                self.flags.add("parent-removed-but-committed")
            elif par in self.gone_in_lock:
                self.flags.add("parent-removed-under-the-same-lock")
            return "refuse"
        self._certain(ip[par], p)
        if self.inv[ip[par]][2] != "directory":
            raise ModelError(["add below stored non-directory", p])
        self.inv[self.new_tok()] = [ip[par], base(p), k]
        return "ok"

    # -- smart_add
    def op_smart_add(self, paths, recurse):
        if not paths:
            paths = [""]
        for p in paths:
            if self.kind(p) is None:
                raise ModelError(["smart_add missing", p])
        if self.fmt == "git":
            return self._smart_add_git(paths, recurse)
        return self._smart_add_bzr(paths, recurse)

    def _smart_add_git(self, paths, recurse):
        dirs = []
        for p in paths:
            k = self.kind(p)
            if k == "directory":
                if recurse:
                    dirs.append(p)
            elif p not in self.idx:
                self.idx[p] = k
        i = 0
        while i < len(dirs):
            d = dirs[i]
            i += 1
            for n in self.children(d):
                q = join(d, n)
                if self.kind(q) == "directory":
                    dirs.append(q)
                elif q not in self.idx:
                    self.idx[q] = self.kind(q)
        return "ok"

    def _ensure_bzr(self, p, kind):
        """_add_one_and_parent: version p (and unversioned parents)."""
        ip = self.ipaths()
        if p in ip:
            return ip[p]
        pt = self._ensure_bzr(parent(p), "directory")
        self._certain(pt, p)
        self.inv[pt][2] = "directory"      # _convert_to_directory
        t = self.new_tok()
        self.inv[t] = [pt, base(p), kind]
        return t

    def _smart_add_bzr(self, paths, recurse):
        user_dirs = {}
        for p in paths:
            k = self.kind(p)
            t = self._ensure_bzr(p, k)
            if k == "directory":
                user_dirs[p] = t
        if not recurse:
            return "ok"
        todo = []
        prev = None
        for p in sorted(user_dirs):
            if prev is None or not (inside(prev, p) or inside(p, prev)):
                todo.append((p, user_dirs[p], None))
            prev = p
        i = 0
        while i < len(todo):
            p, t, pt = todo[i]
            i += 1
            if t is not None:
                self._certain(t, p)
                k = self.inv[t][2]
            else:
                k = self.kind(p)
                t = self.new_tok()
                self.inv[t] = [pt, base(p), k]
            if k != "directory":
                continue
            if not self.real_dir(p):
                raise ModelError(["smart_add walks a versioned directory "
                                  "that is not one on disk", p])
            kids = {self.inv[c][1]: c for c in self.ichildren(t)}
            for n in self.children(p):
                todo.append((join(p, n), kids.get(n), t))
        return "ok"

    # -- remove
    def op_remove(self, p, keep):
        if p == "":
            raise ModelError("remove root")
        was = set(self.versioned_paths())
        if self.fmt == "bzr":
            ip = self.ipaths()
            if p in ip:
                for t in self.idesc(ip[p]) + [ip[p]]:
                    del self.inv[t]
        else:
            for q in self.under(p, self.idx):
                del self.idx[q]
        for q in self.under(p):
            if self.fmt == "bzr" and self.disk[q][0] == "symlink" and (
                    q == p or q in was) and not keep and self.isdir(q) \
                    and self.children(self.resolve(q)):
                # isdir() through the link, then rmtree on the link
                self.flags.add("remove-link-to-nonempty-directory")
        if self.fmt == "bzr" and any(inside(p, q)
                                     for q in self.looping_links()):
            self.flags.add("remove-looping-link")
        if not keep and self.kind(p) is not None:
            self.rm_tree(p)
        return "ok"

    # -- rename_one / move
    def op_mv_disk(self, a, b):
        """os.rename by hand, the tree is not told."""
        if self.kind(a) is None or self.kind(b) is not None or \
                not self.can_os_rename(a, b):
            raise ModelError(["mv_disk", a, b])
        self.mv_tree(a, b)
        return "ok"

    def op_lock(self, mode):
        self.locked = True
        self.gone_in_lock = set()
        return "ok"

    def op_unlock(self):
        self.locked = False
        self.gone_in_lock = set()
        return "ok"

    def _after_bzr(self, a, b, entry):
        """after=True: only the versioning follows; b must exist."""
        ip = self.ipaths()
        if a not in ip or a == "":
            if entry == "rename_one" and a in self.ipaths(self.basis):
                raise ModelError(["resurrecting rename", a])
            return "refuse"
        if b in ip:
            raise ModelError(["after-rename onto a versioned path", b])
        if self.kind(b) is None:
            return "refuse"
        bp = parent(b)
        if bp not in ip:
            return "refuse"
        if inside(a, b) or inside(b, a):
            raise ModelError(["after-rename into itself", a, b])
        self._certain(ip[bp], b)
        if self.inv[ip[bp]][2] != "directory":
            raise ModelError(["rename below stored non-directory", b])
        t = ip[a]
        self.inv[t][0] = ip[bp]
        self.inv[t][1] = base(b)
        return "ok"

    def _after_git(self, a, b):
        if not self.is_versioned(a) or self.is_versioned(b):
            raise ModelError(["git after-rename outside the model", a, b])
        if self.kind(b) is None:
            return "refuse"
        if b in self.basis_paths():
            return "refuse"
        if inside(a, b) or inside(b, a):
            raise ModelError(["after-rename into itself", a, b])
        k = self.kind(b)
        if (k == "directory") != (a not in self.idx):
            raise ModelError(["git after-rename across kinds", a, b])
        if k != "directory":
            del self.idx[a]
            self.idx[b] = k
        else:
            self.mv_tree(a, b, self.idx)
        return "ok"

    def op_rename_one(self, a, b, after=False):
        if after:
            if self.fmt == "git":
                return self._after_git(a, b)
            return self._after_bzr(a, b, "rename_one")
        if self.fmt == "git":
            return self._rename_git(a, b)
        ip = self.ipaths()
        if a not in ip or a == "":
            if a in self.ipaths(self.basis):
                raise ModelError(["rename_one of a removed basis path "
                                  "(resurrected by design)", a])
            return "refuse"
        if b in ip or b == "":
            return "refuse"
        a_on, b_on = self.kind(a) is not None, self.kind(b) is not None
        if a_on == b_on:
            return "refuse"
        bp = parent(b)
        if bp not in ip:
            return "refuse"
        if inside(a, b):
            return "refuse"
        self._certain(ip[bp], b)
        if self.inv[ip[bp]][2] != "directory":
            raise ModelError(["rename below stored non-directory", b])
        if a_on:
            if not self.can_os_rename(a, b):
                return "refuse"
            self.mv_tree(a, b)
        t = ip[a]
        self.inv[t][0] = ip[bp]
        self.inv[t][1] = base(b)
        return "ok"

    def _rename_git(self, a, b):
        if a == "" or b == "":
            return "refuse"
        a_on, b_on = self.kind(a) is not None, self.kind(b) is not None
        a_ver, b_ver = self.is_versioned(a), self.is_versioned(b)
        if not a_ver:
            if not a_on and b_on and not b_ver:
                raise ModelError(["git rename_one of nothing onto an "
                                  "unversioned file (adds it)", a, b])
            if a_on and self.kind(a) == "directory" and not b_on:
                raise ModelError(["git rename of an unversioned directory "
                                  "(allowed: directories are implicit)", a])
            return "refuse"
        if b_ver:
            return "refuse"
        if not a_on and b_on:
            # already moved on disk: only the index follows
            if inside(a, b) or inside(b, a):
                return "refuse"
            if b in self.basis_paths():
                return "refuse"
            k = self.kind(b)
            if k != "directory":
                if a not in self.idx:
                    raise ModelError(["git after-rename dir -> file", a, b])
                del self.idx[a]
                self.idx[b] = k
            else:
                if a in self.idx:
                    raise ModelError(["git after-rename file -> dir", a, b])
                self.mv_tree(a, b, self.idx)
            return "ok"
        if not a_on or b_on:
            return "refuse"
        if inside(a, b):
            return "refuse"
        if not self.can_os_rename(a, b):
            return "refuse"
        k = self.kind(a)
        if k != "directory" and a not in self.idx:
            raise ModelError(["git rename: versioned directory is a file", a])
        if k == "directory" and a in self.idx:
            raise ModelError(["git rename of a dirified entry", a])
        self.mv_tree(a, b)
        if k != "directory":
            del self.idx[a]
            self.idx[b] = k
        else:
            self.mv_tree(a, b, self.idx)
        return "ok"

    def op_move(self, srcs, to_dir, after=False):
        if not srcs:
            raise ModelError("empty move")
        work = self.clone()
        for i, a in enumerate(srcs):
            r = work._move_one(a, to_dir, after)
            if r != "ok":
                if i > 0:
                    raise ModelError(["multi-path move refused midway", srcs])
                return r
        self.__dict__.update(work.__dict__)
        return "ok"

    def _move_one(self, a, to_dir, after=False):
        if not self.isdir(to_dir):
            return "refuse"
        if self.kind(to_dir) == "symlink":
            raise ModelError(["move into a symlinked directory", to_dir])
        b = join(to_dir, base(a))
        if self.fmt == "git":
            return self._after_git(a, b) if after else \
                self._rename_git(a, b)
        ip = self.ipaths()
        if to_dir in ip:
            self._certain(ip[to_dir], to_dir)
        if to_dir not in ip or self.inv[ip[to_dir]][2] != "directory":
            return "refuse"
        if after:
            if b in ip:
                return "refuse"
            return self._after_bzr(a, b, "move")
        if a not in ip or a == "":
            return "refuse"
        if b in ip:
            return "refuse"
        a_on, b_on = self.kind(a) is not None, self.kind(b) is not None
        if a_on == b_on:
            return "refuse"
        if inside(a, b):
            return "refuse"
        if a_on:
            if not self.can_os_rename(a, b):
                return "refuse"
            self.mv_tree(a, b)
        t = ip[a]
        self.inv[t][0] = ip[to_dir]
        self.inv[t][1] = base(a)
        return "ok"

    # -- commit
    def op_commit(self):
        self.commits += 1
        if self.fmt == "git":
            nb = {}
            left = [p for p in self.idx if self.kind(p) == "directory" and
                    p not in self.gbasis]
            if left:
                # listed defect: these stay in the index; where index
                # entries below them keep the path versioned anyway that
                # only shows later
                self.flags.add("dirified-index-entry")
                self.stale |= set(left)
            self._git_status_flags()
            for p in sorted(self.idx):
                k = self.kind(p)
                if k in ("file", "symlink"):
                    nb[p] = list(self.disk[p])
            self.idx = {p: e[0] for p, e in nb.items()}
            self.gbasis = nb
            return "ok"
        ip = self.ipaths()
        for p in sorted(ip, key=lambda x: -len(x)):
            if p != "" and self.kind(p) is None and ip[p] in self.inv:
                for t in self.idesc(ip[p]) + [ip[p]]:
                    del self.inv[t]
        nb = {ROOT: [None, "", "directory", None, None]}
        for p, t in self.ipaths().items():
            if p == "":
                continue
            e = self.disk[p]
            if not self.wt3:
                self.inv[t][2] = e[0]
            nb[t] = [self.inv[t][0], self.inv[t][1], e[0], e[1], e[2]]
        self.basis = nb
        self.history.append(copy.deepcopy(nb))
        if not self.wt3:
            self.unc = set()
        return "ok"

    # -- revert
    def op_revert(self, paths):
        """paths None = everything (the harness then deletes every
        unversioned path: what revert leaves behind - backups, .moved - is not
        part of the property); [p] = one path from revert_candidates()."""
        if self.fmt == "bzr" and self.looping_links():
            self.flags.add("revert-with-looping-link")
        if self.fmt == "git":
            self._git_status_flags()
        if paths is None:
            # a committed non-directory whose place is taken by a directory
            # that still has content: revert cannot restore it without
            # destroying that content and reports a conflict instead (the
            # outcome is then not "the basis"); outside the modelled class
            if self.fmt == "git" and any(
                    p not in self.idx and self.kind(p) is not None
                    for p in self.gbasis):
                self.flags.add("committed-path-taken-by-unversioned-file")
            if self.fmt == "bzr":
                ip = self.ipaths()
                for p, t in self.ipaths(self.basis).items():
                    if t != ROOT and self.basis[t][2] == "directory" and \
                            self.ichildren(t, self.basis) and \
                            self.kind(p) not in (None, "directory") and \
                            ip.get(p) != t:
                        self.flags.add(
                            "committed-directory-path-taken-by-file")
            if self.fmt == "git":
                blocked = [p for p in self.idx if p in self.gbasis and
                           self.kind(p) == "directory" and self.children(p)]
                # ... or a committed directory whose place is taken by an
                # unversioned file (git directories are implicit: there is
                # nothing revert could move out of the way)
                blocked += [d for d in set(self.basis_paths()) -
                            set(self.gbasis)
                            if self.kind(d) not in (None, "directory")]
            else:
                blocked = [p for p, t in self.ipaths().items()
                           if t in self.basis and t != ROOT and
                           self.basis[t][2] != "directory" and
                           self.kind(p) == "directory" and self.children(p)]
            if blocked:
                raise ModelError(["revert blocked by directory content",
                                  blocked])
            self.disk = {}
            if self.fmt == "git":
                self.idx = {p: e[0] for p, e in self.gbasis.items()}
                for p, e in self.gbasis.items():
                    q = parent(p)
                    while q != "":
                        self.disk[q] = ["directory", None, None]
                        q = parent(q)
                    self.disk[p] = list(e)
            else:
                self.inv = {t: e[:3] for t, e in self.basis.items()}
                # (an inventory-file tree keeps the kind it remembered for
                # entries revert had nothing to do for)
                self.unc = set(t for t in self.unc if t in self.inv) \
                    if self.wt3 else set()
                for p, t in self.ipaths().items():
                    if p != "":
                        self.disk[p] = list(self.basis[t][2:5])
            return "ok"
        (p,) = paths
        why = self.revert_class(p)
        if why is None:
            raise ModelError(["partial revert outside the modelled class", p])
        if why == "added" and self.kind(p) in ("symlink", "directory"):
            # revert keeps the content of added *files* only
            self.rm_tree(p)
        if self.fmt == "git":
            if why == "added":
                del self.idx[p]
            else:
                self.idx[p] = self.gbasis[p][0]
                self.disk[p] = list(self.gbasis[p])
            return "ok"
        ip = self.ipaths()
        if why == "added":
            del self.inv[ip[p]]
        elif why == "changed":
            t = ip[p]
            self.inv[t][2] = self.basis[t][2]
            self.disk[p] = list(self.basis[t][2:5])
        else:
            t = self.ipaths(self.basis)[p]
            self.inv[t] = self.basis[t][:3]
            self.disk[p] = list(self.basis[t][2:5])
        return "ok"

    # -- git similarity (dulwich.diff_tree._similarity_score, threshold 60)
    @staticmethod
    def similar(a, b):
        if a == b:
            return True
        if not a or not b:
            return False

        def blocks(t):
            out = {}
            for ln in t.splitlines(True):
                out[ln] = out.get(ln, 0) + len(ln)
            return out
        ba, bb = blocks(a), blocks(b)
        common = sum(min(n, bb.get(k, 0)) for k, n in ba.items())
        return int(common * 100.0 / max(len(a), len(b))) >= 60

    def _git_status_flags(self):
        """Shapes of a git status that commit / revert are known to mishandle
        (listed findings): a copy record, a file <-> symlink change in place."""
        added = [p for p in self.idx if p not in self.gbasis or
                 self.kind(p) not in (None, "directory", self.gbasis[p][0])]
        if any(src in self.idx and self.kind(src) is not None
               for p in added for src in self.git_pairs(p)):
            self.flags.add("copy-detected")
        elif any(len(self.git_pairs(p)) > 1 or
                 any(len(self.git_pairs(s)) > 1 for s in self.git_pairs(p))
                 for p in added):
            self.flags.add("ambiguous-rename-detected")
        bdirs = set(self.basis_paths()) - set(self.gbasis)
        if any((p in self.gbasis and self.kind(p) in ("file", "symlink") and
                self.kind(p) != self.gbasis[p][0]) or p in bdirs
               for p in self.idx):
            self.flags.add("type-changed-path")

    def git_pairs(self, p, any_source=False):
        """Paths that git's rename detection could pair with p: p is a
        basis path that is deleted or modified and an added file resembles
        its committed text, or p is an added file resembling such a text."""
        def tree_side(q):
            e = self.disk.get(q)
            return e if (q in self.idx and e and e[0] != "directory") else None
        def norm(e):
            return [e[0], e[1], bool(e[2]) if e[0] == "file" else None]
        changed = [q for q, e in self.gbasis.items()
                   if any_source or tree_side(q) is None or
                   norm(tree_side(q)) != norm(e)]
        # (a kind change in place counts as a deletion plus an addition)
        added = [q for q in self.idx if tree_side(q) and (
            q not in self.gbasis or self.gbasis[q][0] != tree_side(q)[0])]
        out = []
        if p in self.gbasis and p in changed:
            out += [q for q in added if self.gbasis[p][0] ==
                    self.disk[q][0] and self.similar(self.gbasis[p][1],
                                                     self.disk[q][1])]
        if p in added:
            out += [q for q in changed if self.gbasis[q][0] ==
                    self.disk[p][0] and self.similar(self.gbasis[q][1],
                                                     self.disk[p][1])]
        return sorted(set(out))

    def revert_class(self, p):
        """Partial revert is modelled for: a newly added leaf ("added"), a
        non-directory present at the same path in basis and tree ("changed"),
        a removed non-directory whose parent is unchanged and whose path is
        free ("removed")."""
        nondir = ("file", "symlink")
        # the parent directory is the same committed directory in both trees
        # (a filtered comparison drags newly added parents along, and what
        # revert then does to them is not stated by the property)
        par = parent(p)
        if not self.real_dir(par):
            # (a missing parent directory is recreated by some comparison
            # implementations' "needed parents" and not by others)
            return None
        if self.fmt == "git":
            if par != "" and (par not in self.basis_paths() or
                              par in self.gbasis):
                return None
        elif par != "":
            pt = self.ipaths().get(par)
            if pt is None or pt not in self.basis or \
                    self.ipath(pt, self.basis) != par:
                return None
        if self.fmt == "git":
            if not self.real_dir(parent(p)):
                return None
            if any(self.kind(q) == "directory" for q in self.idx):
                # an index entry that became a directory shows up in every
                # filtered comparison
                return None
            if self.git_pairs(p, any_source=True):
                # similarity-based rename / copy detection would tie p to
                # another path: which of the two a filtered revert touches is
                # not part of the property
                return None
            if p in self.idx and p not in self.gbasis:
                if p in self.basis_paths():
                    return None
                return "added" if self.kind(p) in nondir + (None,) else None
            if p in self.idx and p in self.gbasis:
                # (a kind change in place is an addition plus a removal for
                # git: revert keeps the added file's content as p.moved)
                return "changed" if self.kind(p) in (
                    self.gbasis[p][0], None) else None
            if p in self.gbasis and not self.is_versioned(p) and \
                    self.kind(p) is None:
                return "removed"
            return None
        ip, bp = self.ipaths(), self.ipaths(self.basis)
        if p in ip:
            t = ip[p]
            if self.ichildren(t):
                return None
            if t not in self.basis:
                if p in bp or (self.kind(p) == "directory" and
                               self.children(p)):
                    return None
                return "added"
            if bp.get(p) != t or self.basis[t][2] not in nondir:
                return None
            if self.kind(p) not in nondir + (None,):
                return None
            if not self.real_dir(parent(p)):
                return None
            return "changed"
        if p in bp:
            t = bp[p]
            if t in self.inv or self.basis[t][2] not in nondir:
                return None
            par = self.basis[t][0]
            if par not in self.inv or self.ipath(par) != parent(p):
                return None
            if self.kind(p) is not None or not self.real_dir(parent(p)):
                return None
            return "removed"
        return None

    # ------------------------------------------------------------ expected
    def expected_entries(self):
        """{versioned path: [disk kind, text/target, exec]}"""
        out = {}
        for p in self.versioned_paths():
            e = self.disk.get(p)
            if e is None:
                out[p] = [None, None, None]
            elif e[0] == "file":
                out[p] = ["file", e[1], bool(e[2])]
            elif e[0] == "symlink":
                out[p] = ["symlink", e[1], None]
            else:
                out[p] = ["directory", None, None]
        return out

    def expected_changes_bzr(self):
        """[[tok, [old, new], content_changed, [ver], [kinds], [exec]]]"""
        out = []
        for t in sorted(set(self.basis) | set(self.inv)):
            if t == ROOT:
                continue
            b = self.basis.get(t)
            v = self.inv.get(t)
            bp = self.ipath(t, self.basis) if b else None
            vp = self.ipath(t) if v else None
            bk = b[2] if b else None
            d = self.disk.get(vp) if v else None
            vk = d[0] if d else None
            bx = bool(b[4]) if bk == "file" else None
            vx = bool(d[2]) if vk == "file" else None
            if bk != vk:
                cc = True
            elif bk in ("file", "symlink"):
                cc = b[3] != d[1]
            else:
                cc = False
            changed = cc or (b is None) != (v is None) or (
                b is not None and v is not None and
                (b[0] != v[0] or b[1] != v[1])) or (
                bk == "file" and vk == "file" and bx != vx)
            if changed:
                out.append([t, [bp, vp], cc, [b is not None, v is not None],
                            [bk, vk], [bx, vx]])
        return out

    def expected_facts_git(self):
        """Status in split form: ("-", path, kind, exec) for the basis side
        and ("+", path, kind|None, exec) for the tree side of every
        non-directory path whose two sides differ."""
        out = []
        w = {}
        for p in self.idx:
            e = self.disk.get(p)
            if e is None:
                w[p] = [None, None, None]
            elif e[0] == "directory":
                w[p] = ["directory", None, None]
            else:
                w[p] = [e[0], e[1], bool(e[2]) if e[0] == "file" else None]
        b = {p: [e[0], e[1], bool(e[2]) if e[0] == "file" else None]
             for p, e in self.gbasis.items()}
        for p in sorted(set(w) | set(b)):
            if w.get(p) == b.get(p):
                continue
            if p in b:
                out.append(["-", p, b[p][0], b[p][2]])
            if p in w and w[p][0] != "directory":
                out.append(["+", p, w[p][0], w[p][2]])
        return sorted(out, key=repr)

    def expected_extras(self):
        if self.fmt == "git":
            # regular files only (see c09.py: symlinks are classified by
            # os.walk, which the property does not speak about)
            return sorted(p for p, e in self.disk.items()
                          if e[0] == "file" and p not in self.idx)
        out = []
        for p, t in self.ipaths().items():
            if self.inv[t][2] != "directory" or t in self.unc:
                continue
            if not self.real_dir(p):
                continue
            kids = {self.inv[c][1] for c in self.ichildren(t)}
            for n in self.children(p):
                if n not in kids:
                    out.append(join(p, n))
        return sorted(out)

    def uncertain_paths(self):
        """Versioned paths below which unknowns are not compared."""
        return sorted(self.ipath(t) for t in self.unc)
