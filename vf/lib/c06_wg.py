"""C06 helpers: source histories with a known key universe, write-group
programs, repository snapshots and the completeness model."""

import os

from vf.lib.c04_crash import COMMITTER, T0, content, rid

VFS = ("revisions", "inventories", "texts", "signatures", "chk_bytes")
KNIT_FAMILY = ("pack-0.92", "1.9")


def vfs_of(repo):
    out = ["revisions", "inventories", "texts", "signatures"]
    if repo._format.supports_chks:
        out.append("chk_bytes")
    return out


# ------------------------------------------------------------------ source

def src_actions(i, nfiles, sizes, wide):
    size = sizes[i % len(sizes)]
    if i == 0:
        acts = [("add", ("", b"root-id", "directory", None))]
        for f in range(nfiles):
            acts.append(("add", ("f%d" % f, b"f%d-id" % f, "file",
                                 content("r0f%d" % f, size))))
        if wide:
            acts.append(("add", ("w", b"w-id", "directory", None)))
            for j in range(wide):
                acts.append(("add", ("w/e%03d" % j, b"e%03d-id" % j, "file",
                                     b"e%d\n" % j)))
        return acts
    f = i % nfiles
    acts = [("modify", ("f%d" % f, content("r%df%d" % (i, f), size)))]
    if wide:
        j = (i * 37) % wide
        acts.append(("modify", ("w/e%03d" % j, b"e%d at r%d\n" % (j, i))))
    if i % 3 == 2:
        if i == 2:
            acts.append(("add", ("d", b"d-id", "directory", None)))
        acts.append(("add", ("d/g%d" % i, b"g%d-id" % i, "file",
                             content("r%dg" % i, max(8, size // 4)))))
    return acts


def build_source(path, fmt, n, nfiles, sizes, wide):
    from breezy.branchbuilder import BranchBuilder
    from vf.lib import bz
    br = bz.init_branch(path, fmt)
    bb = BranchBuilder(branch=br)
    bb.start_series()
    try:
        for i in range(n):
            bb.build_snapshot(None if i == 0 else [rid(i - 1)],
                              src_actions(i, nfiles, sizes, wide),
                              revision_id=rid(i), timestamp=T0 + i, timezone=0,
                              committer=COMMITTER, message="m r%d" % i)
    finally:
        bb.finish_series()
    return br


class Universe:
    """Per source revision i: the keys it introduces in every store, the full
    CHK page set of its inventory and the text keys its inventory references
    (read from the untouched source repository)."""

    def __init__(self, repo, n):
        from bzrformats import chk_map
        self.n = n
        self.chk = repo._format.supports_chks
        self.intro = {vf: [[] for _ in range(n)] for vf in VFS}
        self.pages = [frozenset() for _ in range(n)]
        self.roots = [frozenset() for _ in range(n)]
        self.entries = [frozenset() for _ in range(n)]
        with repo.lock_read():
            alltexts = set(repo.texts.keys())
            idx = {rid(i): i for i in range(n)}
            for k in sorted(alltexts):
                self.intro["texts"][idx[k[1]]].append(k)
            seen = set()
            for i in range(n):
                self.intro["revisions"][i] = [(rid(i),)]
                self.intro["inventories"][i] = [(rid(i),)]
                inv = repo.get_inventory(rid(i))
                ents = set()
                for _p, ie in inv.iter_entries():
                    k = (ie.file_id, ie.revision)
                    if k in alltexts:
                        ents.add(k)
                self.entries[i] = frozenset(ents)
                if self.chk:
                    roots = {inv.id_to_entry.key(),
                             inv.parent_id_basename_to_file_id.key()}
                    pages = set()
                    for rec, _items in chk_map.iter_interesting_nodes(
                            repo.chk_bytes, roots, set()):
                        pages.add(rec.key)
                    self.roots[i] = frozenset(roots)
                    self.pages[i] = frozenset(pages)
                    self.intro["chk_bytes"][i] = sorted(pages - seen)
                    seen |= pages
            if self.chk and seen != set(repo.chk_bytes.keys()):
                raise AssertionError("CHK page walk does not cover the store")

    def keys_for(self, vf, i, drop):
        ks = self.intro[vf][i]
        if not ks:
            return []
        gone = {d % len(ks) for d in drop}
        return [k for j, k in enumerate(ks) if j not in gone]


# ------------------------------------------------------------------ snapshot

def own_listing(path):
    base = os.path.join(path, ".bzr", "repository")
    out = {}
    for d in ("packs", "indices", "upload"):
        p = os.path.join(base, d)
        out[d] = sorted(os.listdir(p)) if os.path.isdir(p) else []
    with open(os.path.join(base, "pack-names"), "rb") as f:
        out["pack-names"] = f.read()
    return out


def snapshot(path):
    """What a fresh reader sees: keys of every store, pack-names bytes and the
    packs/ and indices/ listings (upload/ reported separately)."""
    from breezy import branch as _b
    repo = _b.Branch.open(path).repository     # with fallbacks, if stacked
    snap = {}
    with repo.lock_read():
        for vf in vfs_of(repo):
            snap[vf] = frozenset(getattr(repo, vf).keys())
        snap["revision_ids"] = frozenset(repo.all_revision_ids())
    ls = own_listing(path)
    upload = ls.pop("upload")
    snap.update(ls)
    return snap, upload


def listed_packs(path):
    """Names listed in pack-names (trusted-base index reader)."""
    from breezy import repository as _r, transport as _t
    repo = _r.Repository.open(path)
    t = _t.get_transport(os.path.join(path, ".bzr", "repository"))
    cls = repo._pack_collection._index_class
    return {key[0].decode("ascii") for _i, key, _v in
            cls(t, "pack-names", None).iter_all_entries()}


def diff_snap(a, b):
    out = {}
    for k in a:
        if a[k] != b.get(k):
            if isinstance(a[k], frozenset):
                out[k] = {"only_before": sorted(a[k] - b[k])[:6],
                          "only_after": sorted(b[k] - a[k])[:6]}
            else:
                out[k] = "differs"
    return out


def content_of(repo, vfs, keys_by_vf):
    """{vf: {key: (parents, fulltext sha1)}} for the given keys."""
    import hashlib
    out = {}
    with repo.lock_read():
        for vf in vfs:
            keys = sorted(keys_by_vf.get(vf, ()))
            d = {}
            if keys:
                store = getattr(repo, vf)
                pm = store.get_parent_map(keys)
                for rec in store.get_record_stream(keys, "unordered", True):
                    if rec.storage_kind == "absent":
                        d[rec.key] = ("absent", None)
                    else:
                        d[rec.key] = (pm.get(rec.key), hashlib.sha1(
                            rec.get_bytes_as("fulltext")).hexdigest())
            out[vf] = d
    return out


# ------------------------------------------------------------------ model

class GroupModel:
    """What the write group holds, as the harness inserted it."""

    def __init__(self, universe, local, fallback=None):
        self.u = universe
        self.fallback = fallback or {}
        self.local0 = {vf: set(local.get(vf, ())) for vf in VFS}
        self.ins = {vf: set() for vf in VFS}
        self.deltas = []       # (vf, key, compression parent key)

    def local(self, vf):
        return self.local0[vf] | self.ins[vf]

    def expectation(self):
        """'accept' | 'refuse:<why>' | 'either' for commit_write_group,
        following the property text: every NEW revision needs its inventory,
        and everything that inventory introduces relative to the parent
        inventories that are present locally."""
        u = self.u
        linv = self.local("inventories")
        ltxt = self.local("texts")
        lchk = self.local("chk_bytes")
        for vf, key, basis in self.deltas:
            # a basis that is only in a fallback repository is fine: the knit
            # expands such a record to a fulltext while inserting it
            if basis not in self.local(vf) and \
                    basis not in self.fallback.get(vf, ()):
                return "refuse:compression-parent"
        # inventories that are present parents of some new revision without
        # belonging to a new revision themselves
        new = {int(r[1:]) for (r,) in self.ins["revisions"]}
        others = {i - 1 for i in new
                  if i > 0 and (rid(i - 1),) in linv and i - 1 not in new}
        shadow_ents = set()
        shadow_pages = set()
        for p in others:
            shadow_ents |= u.entries[p]
            shadow_pages |= u.pages[p]
        reasons = set()
        for i in sorted(new):
            if (rid(i),) not in linv:
                reasons.add("refuse:inventory")
                continue
            parents = [i - 1] if i > 0 and (rid(i - 1),) in linv else []
            ppages = set()
            pents = set()
            for p in parents:
                ppages |= u.pages[p]
                pents |= u.entries[p]
            if u.chk:
                need = (u.pages[i] - ppages) | u.roots[i]
                for p in parents:
                    need |= u.roots[p]
                    if u.pages[p] - lchk:
                        reasons.add("either")
                gone = need - lchk
                if gone:
                    if gone <= shadow_pages - u.roots[i]:
                        reasons.add("either")
                    else:
                        reasons.add("refuse:chk-page")
                    continue
            missing = (u.entries[i] - pents) - ltxt
            if missing:
                if missing <= shadow_ents:
                    # every missing text is also referenced by a present
                    # inventory that is only some OTHER new revision's parent
                    reasons.add("refuse:text-shadowed")
                else:
                    reasons.add("refuse:text")
        for r in ("refuse:inventory", "refuse:chk-page", "refuse:text"):
            if r in reasons:
                return r
        if "either" in reasons:
            return "either"
        if "refuse:text-shadowed" in reasons:
            return "refuse:text-shadowed"
        return "accept"
