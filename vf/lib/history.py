"""History specs (revision DAG + a tree per revision) and two interpreters that
build them on real storage.

spec = {"revs": [rev, ...], "tags": {name: rev_id}}
rev  = {"id": str, "parents": [ids of earlier revs; first = left-hand],
        "ghosts": [ids not present anywhere], "ops": [treemodel ops applied to
        the left-hand parent's tree], "msg": str, "ts": int, "tz": int,
        "committer": str, "props": {str: str}}
The first revision has no parents and its ops build the initial tree.
"""

import os

from hypothesis import strategies as st

from . import bz
from . import graphmodel as gm
from . import treemodel as tm

COMMITTERS = ["Verif Tester <verif@example.com>", "Joe Foo <joe@foo.example>",
              "Zoë Bar <zoe@bar.example>"]


@st.composite
def history_spec(draw, n_min=2, n_max=10, merges=True, ghosts=False,
                 symlinks=False, execs=False, tags=False, odd_names=False,
                 max_parents=3, ops_max=3, meta=False, empty_ok=True,
                 base_max=5, bb_safe=False):
    """bb_safe: the spec can be built with BranchBuilder (no symlinks / exec
    bits, and a path vacated by a deletion is never re-used: MemoryTree keeps
    unversioned files in its transport)."""
    n = draw(st.integers(n_min, n_max))
    ids = tm.IdSource()
    if bb_safe:
        symlinks = execs = False
        ids.tomb = set()
    revs = []
    models = {}
    for i in range(n):
        rid = "r%d" % i
        kw = dict(symlinks=symlinks, execs=execs, odd_names=odd_names)
        if i == 0:
            m = tm.new_model()
            ops = tm.draw_ops(draw, m, ids, n_min=1, n_max=base_max,
                              kinds=["add", "add", "add_dir"], **kw)
            parents = []
        else:
            # left parent biased to recent revisions -> long-ish mainlines
            left = draw(st.sampled_from(
                [r["id"] for r in revs[-3:]] + [revs[-1]["id"]]))
            parents = [left]
            if merges and len(revs) >= 2 and draw(st.integers(0, 9)) < 4:
                # extra parents: not already merged into the left parent and
                # not ancestors of one another (set_parent_ids drops those)
                g = {r["id"]: tuple(r["parents"]) for r in revs}
                anc_left = gm.ancestry(g, left)
                others = [r["id"] for r in revs if r["id"] not in anc_left]
                if others:
                    k = draw(st.integers(1, max_parents - 1))
                    extra = draw(st.lists(st.sampled_from(others), min_size=1,
                                          max_size=k, unique=True))
                    extra = [e for e in extra if not any(
                        o != e and e in gm.ancestry(g, o) for o in extra)]
                    parents += extra
            m = tm.clone(models[left])
            if bb_safe:
                # tombstones are per lineage: recompute from all ancestors is
                # overkill; a global set is a sound over-approximation
                pass
            ops = tm.draw_ops(draw, m, ids, n_min=0 if empty_ok else 1,
                              n_max=ops_max, **kw)
        gl = []
        if ghosts and i > 0 and draw(st.integers(0, 9)) == 0:
            gl = ["ghost%d" % i]
        rev = {"id": rid, "parents": parents, "ghosts": gl, "ops": ops,
               "msg": "m%d" % i, "ts": bz.T0 + 100 * i, "tz": 0,
               "committer": COMMITTERS[0], "props": {}}
        if meta:
            rev["msg"] = draw(st.sampled_from(
                ["m%d" % i, "line one\nline two", "ünïcode msg", "tab\tmsg",
                 " leading", "trailing \n\nparagraph"]))
            rev["tz"] = draw(st.sampled_from([0, 3600, -18000, 19800, -12600]))
            rev["committer"] = draw(st.sampled_from(COMMITTERS))
            if draw(st.booleans()):
                rev["props"] = {"author": draw(st.sampled_from(COMMITTERS))}
        models[rid] = m
        revs.append(rev)
    tagd = {}
    if tags:
        names = draw(st.lists(st.sampled_from(["t1", "t2", "rel-1.0", "ü"]),
                              unique=True, max_size=3))
        for t in names:
            tagd[t] = draw(st.sampled_from([r["id"] for r in revs]))
    return {"revs": revs, "tags": tagd}


def models_of(spec):
    """{rev_id: treemodel} recomputed from the spec alone."""
    models = {}
    for rev in spec["revs"]:
        if rev["parents"]:
            m = tm.clone(models[rev["parents"][0]])
        else:
            m = tm.new_model()
        tm.apply_ops(m, rev["ops"])
        models[rev["id"]] = m
    return models


def graph_of(spec, ghosts=True):
    """{rev_id: tuple(parents)} incl. ghost parents (which are not keys)."""
    g = {}
    for rev in spec["revs"]:
        ps = list(rev["parents"])
        if ghosts:
            ps += rev.get("ghosts", [])
        g[rev["id"]] = tuple(ps)
    return g


def uses_wt_only_features(spec):
    for rev in spec["revs"]:
        for op in rev["ops"]:
            if op[0] in ("chmod", "retarget"):
                return True
            if op[0] == "add" and (op[4] == "symlink" or op[6]):
                return True
    return False


def build_bb(spec, branch, upto=None):
    """Build spec with BranchBuilder into `branch`'s repository (files and
    directories only). The branch tip ends at the last built revision's
    left-hand... callers set the tip they want afterwards."""
    from breezy.branchbuilder import BranchBuilder
    bb = BranchBuilder(branch=branch)
    bb.start_series()
    models = {}
    try:
        for rev in spec["revs"]:
            if rev["parents"]:
                m = tm.clone(models[rev["parents"][0]])
                acts = []
            else:
                m = tm.new_model()
                acts = [bz.bb_root_action(), ("flush", None)]
            acts += bz.bb_actions(m, rev["ops"])
            models[rev["id"]] = m
            parents = [bz.enc(p) for p in rev["parents"] + rev.get("ghosts", [])]
            bb.build_snapshot(
                parents, acts, message=rev["msg"], timestamp=rev["ts"],
                timezone=rev["tz"], committer=rev["committer"],
                revision_id=bz.enc(rev["id"]))
            if upto is not None and rev["id"] == upto:
                break
    finally:
        bb.finish_series()
    return models


def set_tip(branch, spec, rev_id):
    """Point branch at rev_id (revno = length of its left-hand history)."""
    from . import graphmodel as gm
    g = graph_of(spec, ghosts=False)
    lh = gm.lefthand(g, rev_id)
    with branch.lock_write():
        branch.set_last_revision_info(len(lh), bz.enc(rev_id))


def build_wt(spec, path, format="2a", use_ids=True, tags=True):
    """Build spec through a real working tree at `path` (any DAG, symlinks and
    exec bits). Returns (wt, models, idmap) where idmap maps spec ids to the
    real revision ids (identical for bzr formats; git assigns its own).
    The tree ends on the last revision."""
    wt = bz.init_tree(path, format)
    models = {}
    idmap = {}
    set_ids = wt.branch.repository._format.supports_setting_revision_ids
    use_ids = use_ids and wt.supports_setting_file_ids()
    cur = None  # revision the tree currently sits on
    with wt.lock_write():
        for rev in spec["revs"]:
            left = rev["parents"][0] if rev["parents"] else None
            if left != cur:
                _goto(wt, spec, left, idmap,
                      models[left] if left else None)
            m = tm.clone(models[left]) if left else tm.new_model()
            if left is None and use_ids:
                wt.set_root_id(bz.enc(tm.ROOT_ID))
            bz.apply_ops_wt(wt, m, rev["ops"], use_ids=use_ids)
            models[rev["id"]] = m
            parents = [idmap[p] for p in rev["parents"]]
            if set_ids:
                parents += [bz.enc(g) for g in rev.get("ghosts", [])]
            if len(parents) > 1:
                wt.set_parent_ids(parents, allow_leftmost_as_ghost=False)
            props = dict(rev.get("props") or {})
            kw = {}
            if set_ids:
                kw["rev_id"] = bz.enc(rev["id"])
                kw["revprops"] = dict({"branch-nick": "nick"}, **props)
            elif props:
                kw["revprops"] = props
            idmap[rev["id"]] = wt.commit(
                rev["msg"], timestamp=rev["ts"], timezone=rev["tz"],
                committer=rev["committer"], allow_pointless=True, **kw)
            cur = rev["id"]
        if tags:
            for t, r in (spec.get("tags") or {}).items():
                wt.branch.tags.set_tag(t, idmap[r])
    return wt, models, idmap


def _goto(wt, spec, rev_id, idmap=None, model=None):
    """Make the working tree (and branch) sit exactly on rev_id: branch tip and
    tree parents are set, the versioning state is hard-reset to the basis tree
    and the directory content is written out from the model (no TreeTransform
    involved, so builder set-up does not depend on the code under test more
    than necessary)."""
    from breezy import revision as _rev
    if rev_id is None:
        target = _rev.NULL_REVISION
        revno = 0
    else:
        target = idmap[rev_id] if idmap else bz.enc(rev_id)
        revno = len(gm.lefthand(graph_of(spec, ghosts=False), rev_id))
    wt.branch.set_last_revision_info(revno, target)
    wt.reset_state([] if rev_id is None else [target])
    if model is None:
        model = models_of(spec)[rev_id] if rev_id is not None else \
            tm.new_model()
    materialize(wt.basedir, model)


def materialize(root, model):
    """Make directory `root` (minus control dirs) contain exactly the model."""
    import shutil
    for name in os.listdir(root):
        if name in (".bzr", ".git"):
            continue
        ap = os.path.join(root, name)
        if os.path.islink(ap) or not os.path.isdir(ap):
            os.unlink(ap)
        else:
            shutil.rmtree(ap)
    items = sorted((tm.path_of(model, fid), fid) for fid in model
                   if fid != tm.ROOT_ID)
    for path, fid in items:
        e = model[fid]
        ap = os.path.join(root, path)
        if e["kind"] == "directory":
            os.mkdir(ap)
        elif e["kind"] == "symlink":
            os.symlink(e["content"], ap)
        else:
            with open(ap, "wb") as f:
                f.write(bz.cbytes(e["content"]))
            os.chmod(ap, 0o755 if e["exec"] else 0o644)
    bz.age_files(root)
