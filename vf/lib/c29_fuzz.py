"""Coverage-guided campaign for C29 (thorough tier only).

    python -m vf.lib.c29_fuzz <outdir> <seed> <runs>

libFuzzer (atheris) drives a FuzzedDataProvider; the bytes are turned into the
same structured case the Hypothesis kinds use (messages + segmentation) and the
same oracle (vf.props.c29.run_request / run_response) decides.  Signatures that
are recorded as open known findings are skipped so the search goes on behind
them.  The outcome is written to <outdir>/result.json:
    {"skipped": true} | {"runs": n, "nontrivial": k} |
    {"violation": {"signature", "kind", "case", "detail"}}
"""

import json
import os
import sys
import time

ROOT = os.path.dirname(os.path.dirname(os.path.dirname(
    os.path.abspath(__file__))))


def _write(outdir, data):
    tmp = os.path.join(outdir, "result.json.tmp")
    with open(tmp, "w") as f:
        json.dump(data, f)
    os.replace(tmp, os.path.join(outdir, "result.json"))


def main(argv):
    outdir, seed, runs = argv[0], int(argv[1]), int(argv[2])
    deps = os.path.join(ROOT, ".deps")
    if deps not in sys.path:
        sys.path.append(deps)
    try:
        import atheris
    except Exception:  # noqa: BLE001 - any import problem means "unavailable"
        _write(outdir, {"skipped": True})
        return 0
    from vf import env as venv
    with atheris.instrument_imports(include=[
            "breezy.bzr.smart.protocol", "breezy.bzr.smart.message",
            "breezy.bzr.smart.medium", "breezy.bzr.smart.request"]):
        venv.bootstrap()
        from breezy.bzr.smart import medium, message, protocol, request  # noqa
    from vf import runner
    from vf.api import Expect, b2s
    from vf.lib import c29_wire as W
    from vf.props import c29
    known = runner.load_findings()
    state = {"n": 0, "nt": 0, "t0": time.time()}

    def pick(fdp, seq):
        return seq[fdp.ConsumeIntInRange(0, len(seq) - 1)]

    def some_bytes(fdp, maxlen):
        b = fdp.ConsumeBytes(fdp.ConsumeIntInRange(0, maxlen))
        if fdp.ConsumeIntInRange(0, 3) == 0:
            b += pick(fdp, W.TRICKY)
        return b

    def arg(fdp, v, maxlen=16):
        b = some_bytes(fdp, maxlen)
        if v in (1, 2):
            b = W._clean12(b)
        return b2s(b)

    def body_bytes(fdp):
        n = pick(fdp, [0, 1, 5, 40, 300])
        b = some_bytes(fdp, n)
        if fdp.ConsumeIntInRange(0, 15) == 0:
            b = b * 40
        return b2s(b)

    def request_msg(fdp):
        v = pick(fdp, [1, 2, 3])
        msg = {"v": v, "args": [arg(fdp, v) for _ in range(
            fdp.ConsumeIntInRange(0, 4))]}
        if v == 3:
            msg["hdr"] = {}
            if fdp.ConsumeBool():
                msg["hdr"][arg(fdp, 3, 6)] = arg(fdp, 3, 6)
        kinds = ["none", "bytes", "readv"]
        if v == 3:
            kinds += ["stream", "stream_err"]
        k = pick(fdp, kinds)
        if k == "none":
            msg["verb"] = "nobody"
            msg["body"] = None
            return msg
        msg["verb"] = "body"
        if k == "bytes":
            msg["body"] = {"t": "bytes", "d": body_bytes(fdp)}
        elif k == "readv":
            msg["body"] = {"t": "readv", "o": [
                [fdp.ConsumeIntInRange(0, 10**6), fdp.ConsumeIntInRange(0, 999)]
                for _ in range(fdp.ConsumeIntInRange(0, 4))]}
        else:
            chunks = [body_bytes(fdp) for _ in range(
                fdp.ConsumeIntInRange(0, 4))]
            msg["body"] = {"t": "stream", "c": chunks, "err": None}
            if k == "stream_err":
                msg["body"]["err"] = fdp.ConsumeIntInRange(0, len(chunks))
        return msg

    def response_msg(fdp):
        v = pick(fdp, [1, 2, 3])
        msg = {"v": v, "ok": fdp.ConsumeIntInRange(0, 3) != 0}
        msg["args"] = [arg(fdp, v) for _ in range(
            fdp.ConsumeIntInRange(1, 4))]
        if v == 1:
            if msg["ok"]:
                if msg["args"][0] in W.V1_ERROR_CODES + [
                        "nosuchrevision", "UnicodeEncodeError",
                        "UnicodeDecodeError"]:
                    msg["args"][0] = "ok"
            else:
                msg["args"][0] = pick(fdp, W.V1_ERROR_CODES)
        if msg["args"][0] == "UnknownMethod":
            msg["args"][0] = "ok"
        kinds = ["none", "bytes"]
        if v >= 2:
            kinds += ["stream", "stream_err"]
        k = pick(fdp, kinds)
        if not msg["ok"] and v != 3:
            k = "none"
        if k == "none":
            msg["body"] = None
        elif k == "bytes":
            msg["body"] = {"t": "bytes", "d": body_bytes(fdp)}
        else:
            chunks = [body_bytes(fdp) for _ in range(
                fdp.ConsumeIntInRange(0, 4))]
            body = {"t": "stream", "c": chunks, "err": None}
            if k == "stream_err":
                at = fdp.ConsumeIntInRange(0, len(chunks))
                if v == 3 and fdp.ConsumeBool():
                    body["err"] = {"at": at, "how": "exc",
                                   "exc": pick(fdp, sorted(W.stream_errors())),
                                   "p": pick(fdp, ["", "a", "p/q", "\xe9 x"])}
                else:
                    eargs = [arg(fdp, 3) for _ in range(
                        fdp.ConsumeIntInRange(1, 3))]
                    if eargs[0] == "UnknownMethod":
                        eargs[0] = "error"
                    body["err"] = {"at": at, "how": "failed", "args": eargs}
            msg["body"] = body
        return msg

    def cuts(fdp):
        return {"step": pick(fdp, [0, 0, 1, 2, 3, 5, 7]),
                "abs": [fdp.ConsumeIntInRange(0, 5000) for _ in range(
                    fdp.ConsumeIntInRange(0, 4))],
                "rel": [[fdp.ConsumeIntInRange(0, 40),
                         fdp.ConsumeIntInRange(0, 40)] for _ in range(
                             fdp.ConsumeIntInRange(0, 5))]}

    def build(fdp):
        if fdp.ConsumeBool():
            kind = "requests"
            mk = request_msg
            mode = pick(fdp, ["direct", "direct", "medium"])
        else:
            kind = "responses"
            mk = response_msg
            mode = pick(fdp, ["direct", "pipe", "socket"])
        case = {"msgs": [mk(fdp)], "mode": mode}
        if kind == "requests" and case["msgs"][0]["v"] == 3:
            case["marker"] = fdp.ConsumeBool()
        t = pick(fdp, ["none", "junk", "msg"])
        if t == "msg":
            case["msgs"].append(mk(fdp))
        elif t == "junk":
            case["junk"] = b2s(some_bytes(fdp, 12))
        case["cuts"] = cuts(fdp)
        return kind, case

    def finish(data):
        _write(outdir, data)
        sys.stdout.flush()
        os._exit(0)

    def one(data):
        fdp = atheris.FuzzedDataProvider(data)
        kind, case = build(fdp)
        fn = c29.run_request if kind == "requests" else c29.run_response
        sig = detail = None
        try:
            out = fn(case, None)
            if out is not None and out.status == "violation":
                sig, detail = out.signature, out.detail
            elif out is not None and out.label is not None:
                state["nt"] += 1
        except Expect as e:
            sig, detail = e.signature, e.detail
        except Exception as e:  # noqa: BLE001 - classified like the runner does
            what, sig, detail = runner.classify_exception("C29", e)
            if what == "harness":
                finish({"harness": detail, "kind": kind, "case": case})
        if sig is not None and sig not in known:
            finish({"violation": {
                "signature": sig, "kind": kind,
                "case": json.loads(runner.canon(case)),
                "detail": runner.jsonable(detail, 3000)}})
        state["n"] += 1
        if state["n"] % 2000 == 0 or state["n"] >= runs:
            # safety net only (the budget is the run count): a loaded machine
            # must not push the campaign past the runner's per-case timeout
            late = time.time() - state["t0"] > 220
            _write(outdir, {"runs": state["n"], "nontrivial": state["nt"],
                            "truncated": late})
            if late:
                os._exit(0)
        if state["n"] >= runs:
            os._exit(0)

    atheris.Setup([sys.argv[0], "-seed=%d" % (seed + 1), "-runs=%d" % (
        runs + 5000), "-max_len=2048", "-timeout=60", "-rss_limit_mb=3000",
        "-print_final_stats=0", "-verbosity=0",
        "-artifact_prefix=%s/" % outdir], one)
    atheris.Fuzz()
    return 0


if __name__ == "__main__":
    sys.exit(main(sys.argv[1:]))
