"""Coverage-guided campaign for C31 (thorough tier only).

    python -m vf.lib.c31_fuzz <outdir> <seed> <runs>

libFuzzer (atheris) produces the client path bytes (mixed with the component
alphabet of the Hypothesis kind), the verb, the root client path and the server
configuration; vf.props.c31.run - over the enforcing jail transport - decides.
Known open findings are skipped.  Result in <outdir>/result.json, same shape
as vf.lib.c29_fuzz."""

import json
import os
import shutil
import sys
import time

ROOT = os.path.dirname(os.path.dirname(os.path.dirname(
    os.path.abspath(__file__))))


def _write(outdir, data):
    tmp = os.path.join(outdir, "result.json.tmp")
    with open(tmp, "w") as f:
        json.dump(data, f)
    os.replace(tmp, os.path.join(outdir, "result.json"))


def main(argv):
    outdir, seed, runs = argv[0], int(argv[1]), int(argv[2])
    t_start = time.time()
    deps = os.path.join(ROOT, ".deps")
    if deps not in sys.path:
        sys.path.append(deps)
    try:
        import atheris
    except Exception:  # noqa: BLE001 - any import problem means "unavailable"
        _write(outdir, {"skipped": True})
        return 0
    from vf import env as venv
    with atheris.instrument_imports(include=[
            "breezy.bzr.smart.request", "breezy.bzr.smart.vfs",
            "breezy.bzr.smart.server", "breezy.urlutils"]):
        venv.bootstrap()
        from breezy.bzr.smart import request, server, vfs  # noqa: F401
    from vf import runner
    from vf.api import Expect
    from vf.props import c31
    known = runner.load_findings()
    env = venv.CaseEnv("thorough", seed)
    state = {"n": 0, "nt": 0, "t0": t_start}
    verbs = c31.VFS_VERBS * 3 + c31.OTHER_VERBS + ["translate"] * 6 + \
        ["jail-open"] * 3

    def pick(fdp, seq):
        return seq[fdp.ConsumeIntInRange(0, len(seq) - 1)]

    def path(fdp, root):
        parts = []
        for _ in range(fdp.ConsumeIntInRange(0, 6)):
            if fdp.ConsumeBool():
                parts.append(pick(fdp, c31.COMPS))
            else:
                raw = fdp.ConsumeBytes(fdp.ConsumeIntInRange(0, 8))
                parts.append(raw.decode("utf-8", "ignore").replace("/", ""))
        if fdp.ConsumeIntInRange(0, 2) == 0:
            parts.append(pick(fdp, c31.OUTSIDE))
        p = "/".join(parts)
        r = root or "/"
        style = fdp.ConsumeIntInRange(0, 5)
        if style <= 2:
            return r + p
        if style == 3:
            return "/" + p
        if style == 4:
            return p
        return r + "../" + p

    def build(fdp):
        root = pick(fdp, c31.ROOTS)
        verb = pick(fdp, verbs)
        case = {"verb": verb, "root": root,
                "config": pick(fdp, ["chroot", "chroot", "factory"]),
                "paths": [path(fdp, root) for _ in range(
                    fdp.ConsumeIntInRange(1, 2))],
                "extra": [pick(fdp, c31.EXTRA) for _ in range(
                    fdp.ConsumeIntInRange(0, 2))],
                "body": pick(fdp, ["", "data", "0,1"])}
        if verb == "jail-open":
            case["jailroot"] = pick(fdp, ["chroot", "local"])
        if case["config"] == "factory":
            w = ["inside", "outside", "prefix", "system", "parent"]
            case["exp"] = {"~": pick(fdp, w), "~user": pick(fdp, w)}
        return case

    def finish(data):
        _write(outdir, data)
        c31.teardown(env)
        shutil.rmtree(venv.scratch_root(), ignore_errors=True)
        sys.stdout.flush()
        os._exit(0)

    def one(data):
        fdp = atheris.FuzzedDataProvider(data)
        case = build(fdp)
        sig = detail = None
        try:
            out = c31.run(case, env)
            if out is not None and out.status == "violation":
                sig, detail = out.signature, out.detail
            elif out is not None and out.label is not None:
                state["nt"] += 1
        except Expect as e:
            sig, detail = e.signature, e.detail
        except Exception as e:  # noqa: BLE001 - classified like the runner does
            what, sig, detail = runner.classify_exception("C31", e)
            if what == "harness":
                finish({"harness": detail, "kind": "paths", "case": case})
        if sig is not None and sig not in known:
            finish({"violation": {
                "signature": sig, "kind": "paths",
                "case": json.loads(runner.canon(case)),
                "detail": runner.jsonable(detail, 3000)}})
        state["n"] += 1
        if state["n"] % 100 == 0 or state["n"] >= runs:
            # safety net only (the budget is the run count); t0 is the process
            # start, so a slow start on a loaded machine is covered as well
            late = time.time() - state["t0"] > 170
            _write(outdir, {"runs": state["n"], "nontrivial": state["nt"],
                            "truncated": late})
            if late or state["n"] >= runs:
                c31.teardown(env)
                shutil.rmtree(venv.scratch_root(), ignore_errors=True)
                os._exit(0)

    atheris.Setup([sys.argv[0], "-seed=%d" % (seed + 1), "-runs=%d" % (
        runs + 5000), "-max_len=512", "-timeout=120", "-rss_limit_mb=3000",
        "-print_final_stats=0", "-verbosity=0",
        "-artifact_prefix=%s/" % outdir], one)
    atheris.Fuzz()
    return 0


if __name__ == "__main__":
    sys.exit(main(sys.argv[1:]))
