"""C28 helpers: spy physical lock, reference models of reentrant locking for
the wrappers (CountedLock, LockableFiles), for LockableFiles over a real
LockDir with tokens, and for the tree / branch / repository object graph."""

import os
import shutil

from vf.api import check

GOOD = "tok"
BAD = "not-the-token"


class SpyLock:
    """Physical lock double: records every call.  Constructible the way
    LockableFiles constructs its lock class."""

    def __init__(self, transport=None, name=None, file_modebits=None,
                 dir_modebits=None):
        self.log = []

    def create(self, mode=None):
        pass

    def lock_read(self):
        self.log.append("R")

    def lock_write(self, token=None):
        self.validate_token(token)
        self.log.append("W")
        return GOOD

    fail_unlock = False     # one-shot: the next unlock() raises LockBroken

    def unlock(self):
        self.log.append("U")
        if self.fail_unlock:
            from breezy import errors
            self.fail_unlock = False
            raise errors.LockBroken(self)

    def validate_token(self, token):
        from breezy import errors
        if token is not None and token != GOOD:
            raise errors.TokenMismatch(token, GOOD)

    def break_lock(self):
        self.log.append("B")

    def leave_in_place(self):
        self.log.append("L")

    def dont_leave_in_place(self):
        self.log.append("D")

    def peek(self):
        held = False
        for e in self.log:
            if e in "RW":
                held = True
            elif e in "UB":
                held = False
        return {"holder": "spy"} if held else None


# ---------------------------------------------------------------- wrappers

WRAPPER_OPS = ("r", "w", "wt", "wx", "u", "b", "q", "p", "L", "D")


def make_wrapper(target):
    """-> (object under test, spy)."""
    if target == "counted":
        from breezy import counted_lock
        spy = SpyLock()
        return counted_lock.CountedLock(spy), spy
    from breezy.bzr import lockable_files
    from dromedary.memory import MemoryTransport
    lf = lockable_files.LockableFiles(MemoryTransport(), "lock", SpyLock)
    return lf, lf._lock


class WrapperModel:
    """(mode, count) + the calls the physical lock must have seen."""

    def __init__(self, target):
        self.target = target
        self.mode = None
        self.count = 0
        self.log = []
        self.phys = False
        self.maxcount = 0
        self.refused = 0
        self.returned = False     # came back to 0 from >= 2

    def applicable(self, op):
        """Is op inside the documented domain in the current state?"""
        if op == "b":
            # breaking one's own lock is outside LockableFiles' contract
            return self.target == "counted" or self.count == 0
        if op in ("L", "D"):
            return self.target == "lockable" and self.mode == "w"
        return True


def wrapper_step(obj, spy, m, op, ctx):
    """Execute op on obj, advance model m, compare. Raises Expect."""
    from breezy import errors
    raised = None
    ret = None
    try:
        if op == "r":
            obj.lock_read()
        elif op == "w":
            ret = obj.lock_write()
        elif op == "wt":
            ret = obj.lock_write(token=GOOD)
        elif op == "wx":
            ret = obj.lock_write(token=BAD)
        elif op == "u":
            obj.unlock()
        elif op == "uf":
            # the physical unlock fails (lock broken under us): whatever the
            # wrapper reports, it no longer holds the lock afterwards and the
            # next lock call is a first one again
            spy.fail_unlock = True
            try:
                obj.unlock()
            finally:
                spy.fail_unlock = False
        elif op == "b":
            obj.break_lock()
        elif op == "q":
            ret = obj.is_locked()
        elif op == "p":
            ret = obj.get_physical_lock_status()
        elif op == "L":
            obj.leave_in_place()
        elif op == "D":
            obj.dont_leave_in_place()
        else:
            raise AssertionError(op)
    except errors.LockError as e:
        raised = e
    T = m.target
    want = None            # expected exception classes (None: must succeed)
    if op == "r":
        if m.count == 0:
            m.log.append("R")
            m.mode, m.count, m.phys = "r", 1, True
        else:
            m.count += 1
    elif op in ("w", "wt", "wx"):
        if m.count == 0:
            if op == "wx":
                want = (errors.TokenMismatch,)
            else:
                m.log.append("W")
                m.mode, m.count, m.phys = "w", 1, True
        elif m.mode == "r":
            want = (errors.ReadOnlyError,) if op != "wx" else (
                errors.ReadOnlyError, errors.TokenMismatch)
        elif op == "wx":
            want = (errors.TokenMismatch,)
        else:
            m.count += 1
    elif op == "u":
        if m.count == 0:
            want = (errors.LockNotHeld,)
        elif m.count == 1:
            m.log.append("U")
            m.mode, m.count, m.phys = None, 0, False
            if m.maxcount >= 2:
                m.returned = True
            m.maxcount = 0
        else:
            m.count -= 1
    elif op == "uf":
        if m.count == 0:
            want = (errors.LockNotHeld,)
        elif m.count == 1:
            m.log.append("U")
            want = (errors.LockBroken,)
            m.mode, m.count, m.phys, m.maxcount = None, 0, False, 0
        else:
            m.count -= 1
    elif op == "b":
        m.log.append("B")
        m.phys = False
        if T == "counted":
            m.mode, m.count, m.maxcount = None, 0, 0
    elif op in ("L", "D"):
        m.log.append(op)
    m.maxcount = max(m.maxcount, m.count)
    what = "%s-%s" % (T, {"r": "lock_read", "w": "lock_write",
                          "wt": "lock_write-token",
                          "wx": "lock_write-wrong-token", "u": "unlock",
                          "uf": "unlock-with-failing-physical-unlock",
                          "b": "break_lock", "q": "is_locked",
                          "p": "physical-status", "L": "leave_in_place",
                          "D": "dont_leave_in_place"}[op])
    if want is not None:
        m.refused += 1
        check(raised is not None, "C28/%s-not-refused" % what, ctx)
        check(isinstance(raised, want), "C28/%s-refused-with-wrong-error"
              % what, [ctx, repr(raised)])
    else:
        check(raised is None, "C28/%s-raises" % what, [ctx, repr(raised)])
        if op in ("w", "wt"):
            check(ret == GOOD, "C28/%s-returns-wrong-token" % what,
                  [ctx, repr(ret)])
    if op == "q":
        check(bool(ret) == (m.count > 0), "C28/%s-wrong" % what, [ctx, ret])
    if op == "p":
        check(bool(ret) == m.phys, "C28/%s-wrong" % what, [ctx, ret])
    if spy.log != m.log:
        sig = "C28/%s-physical-lock-calls-differ" % what
        if want is not None and op != "uf":
            sig = "C28/%s-refused-but-physical-lock-touched" % what
        check(False, sig, [ctx, "".join(spy.log), "".join(m.log)])
    check(bool(obj.is_locked()) == (m.count > 0),
          "C28/%s-is_locked-disagrees-with-count" % what,
          [ctx, obj.is_locked(), m.count])


def wrapper_drain(obj, spy, m, ctx):
    """Make the count observable: unlock down to 0, one more is refused."""
    n = 0
    while m.count > 0:
        wrapper_step(obj, spy, m, "u", ctx + ["drain", n])
        n += 1
    wrapper_step(obj, spy, m, "u", ctx + ["drain-extra"])
    m.refused -= 1


def run_wrapper_seq(target, ops, drain=True):
    """-> (nontrivial, label)."""
    obj, spy = make_wrapper(target)
    m = WrapperModel(target)
    for i, op in enumerate(ops):
        if not m.applicable(op):
            continue
        wrapper_step(obj, spy, m, op, [target, "".join(ops) if all(
            len(o) == 1 for o in ops) else list(ops), i])
    refused, returned = m.refused, m.returned
    if drain:
        wrapper_drain(obj, spy, m, [target, list(ops)])
    if refused and returned:
        return True, "nested+refused"
    if refused:
        return True, "refused"
    if returned:
        return True, "nested-back-to-zero"
    return False, None


# ------------------------------------------- LockableFiles over a LockDir

class TokenModel:
    """Pure model of two LockableFiles ('a','b') over one LockDir.  Tokens are
    symbolic: token k = the k-th physical acquisition; -1 = a wrong token."""

    OPS = ("r", "w", "wtok", "u", "leave", "dont", "q", "p")

    def __init__(self):
        self.o = {n: {"mode": None, "count": 0, "leave": False,
                      "token": None, "dead": False} for n in "ab"}
        self.disk = None
        self.ntokens = 0
        self.refused = 0
        self.interesting = set()

    def applicable(self, who, op):
        m = self.o[who]
        if m["dead"]:
            return False      # its physical lock was broken: undefined after
        if op in ("leave", "dont"):
            return m["mode"] == "w"
        return True

    def step(self, who, op, arg=None):
        """-> tuple of acceptable error names, or None if the call succeeds."""
        m = self.o[who]
        want = None
        if op == "r":
            if m["count"] == 0:
                m["mode"], m["count"] = "r", 1
            else:
                m["count"] += 1
        elif op == "w":
            if m["count"] == 0:
                if self.disk is not None:
                    want = ("LockContention",)
                    self.interesting.add("contention")
                else:
                    m["mode"], m["count"] = "w", 1
                    m["token"] = self.disk = self.ntokens
                    self.ntokens += 1
            elif m["mode"] == "r":
                want = ("ReadOnlyError",)
            else:
                m["count"] += 1
        elif op == "wtok":
            valid = self.disk is not None and arg == self.disk
            if m["count"] == 0:
                if not valid:
                    want = ("TokenMismatch",)
                else:
                    m["mode"], m["count"] = "w", 1
                    m["token"] = arg
                    m["leave"] = True
                    self.interesting.add("via-token")
            elif m["mode"] == "r":
                want = ("ReadOnlyError",) if valid else (
                    "ReadOnlyError", "TokenMismatch")
            elif not valid:
                want = ("TokenMismatch",)
            else:
                m["count"] += 1
        elif op == "u":
            if m["count"] == 0:
                want = ("LockNotHeld",)
            elif m["count"] > 1:
                m["count"] -= 1
            else:
                if m["mode"] == "w":
                    if m["leave"]:
                        m["leave"] = False
                        self.interesting.add("left-in-place")
                    elif self.disk == m["token"]:
                        self.disk = None
                    else:
                        want = ("LockBroken",)
                        m["dead"] = True
                        self.interesting.add("broken")
                m["mode"], m["count"], m["token"] = None, 0, None
        elif op == "leave":
            m["leave"] = True
        elif op == "dont":
            m["leave"] = False
        if want is not None:
            self.refused += 1
        return want


class TokenWorld:
    """The real thing: LockableFiles over LockDir on a memory transport; a
    third LockDir observes the physical state."""

    def __init__(self):
        from breezy import lockdir
        from breezy.bzr import lockable_files
        from dromedary.memory import MemoryTransport
        t = MemoryTransport()
        self.objs = {}
        for n in "ab":
            self.objs[n] = lockable_files.LockableFiles(t, "lock",
                                                         lockdir.LockDir)
        self.objs["a"].create_lock()
        self.watch = lockdir.LockDir(t, "lock")
        self.m = TokenModel()
        self.tokens = []          # symbolic index -> real token

    def disk_token(self):
        i = self.watch.peek()
        return None if i is None else i.nonce


def token_step(w, who, op, arg, ctx):
    from breezy import errors
    m = w.m
    if not m.applicable(who, op):
        return False
    o = w.objs[who]
    raised = None
    ret = None
    tok = None
    if op == "wtok":
        tok = b"wrong-token" if arg is None or arg < 0 or \
            arg >= len(w.tokens) else w.tokens[arg]
        if arg is None or arg >= len(w.tokens):
            arg = -1
    try:
        if op == "r":
            o.lock_read()
        elif op == "w":
            ret = o.lock_write()
        elif op == "wtok":
            ret = o.lock_write(token=tok)
        elif op == "u":
            o.unlock()
        elif op == "leave":
            o.leave_in_place()
        elif op == "dont":
            o.dont_leave_in_place()
        elif op == "q":
            ret = o.is_locked()
        elif op == "p":
            ret = o.get_physical_lock_status()
    except errors.LockError as e:
        raised = e
    before = m.ntokens
    want = m.step(who, op, arg)
    what = "lockdir-files-" + {"r": "lock_read", "w": "lock_write",
                               "wtok": "lock_write-token", "u": "unlock",
                               "leave": "leave_in_place",
                               "dont": "dont_leave_in_place",
                               "q": "is_locked", "p": "physical-status"}[op]
    if want is not None:
        check(raised is not None, "C28/%s-not-refused" % what,
              [ctx, want])
        check(type(raised).__name__ in want,
              "C28/%s-refused-with-wrong-error" % what, [ctx, repr(raised)])
    else:
        check(raised is None, "C28/%s-raises" % what, [ctx, repr(raised)])
        if m.ntokens > before:
            check(ret is not None, "C28/%s-returns-no-token" % what, ctx)
            w.tokens.append(ret)
        elif op in ("w", "wtok"):
            check(ret == w.tokens[m.o[who]["token"]],
                  "C28/%s-returns-wrong-token" % what, [ctx, repr(ret)])
    if op == "q":
        check(bool(ret) == (m.o[who]["count"] > 0), "C28/%s-wrong" % what,
              [ctx, ret])
    if op == "p":
        check(bool(ret) == (m.disk is not None), "C28/%s-wrong" % what,
              [ctx, ret])
    got = w.disk_token()
    exp = None if m.disk is None else w.tokens[m.disk]
    if got != exp:
        sig = "C28/%s-physical-lock-state-differs" % what
        if want is not None and want != ("LockBroken",):
            sig = "C28/%s-refused-but-physical-lock-changed" % what
        check(False, sig, [ctx, repr(got), repr(exp)])
    for n in "ab":
        check(bool(w.objs[n].is_locked()) == (m.o[n]["count"] > 0),
              "C28/%s-is_locked-disagrees-with-count" % what,
              [ctx, n, w.objs[n].is_locked(), m.o[n]["count"]])
    return True


# ------------------------------------------------ tree / branch / repository

FORMATS = ("knit", "pack-0.92", "1.9", "2a")
STACKABLE = ("1.9", "2a")
_TEMPLATES = {}
LOCK_OPS = ("lock_read", "lock_write", "lock_tree_write")
BELOW = {"T": "B", "B": "R", "R": None}


def template(fmt):
    """Directory with base/ (branch), main/ (tree, stacked on ../base when the
    format can) and plain/ (tree, unstacked); built once per process."""
    from breezy import controldir
    from vf import env as venv
    if fmt in _TEMPLATES:
        return _TEMPLATES[fmt]
    d = os.path.join(venv.scratch_root(), "c28tpl", fmt)
    shutil.rmtree(d, ignore_errors=True)
    os.makedirs(d)
    f = controldir.format_registry.make_controldir(fmt)
    controldir.ControlDir.create_branch_convenience(
        os.path.join(d, "base"), format=f)
    wt = controldir.ControlDir.create_standalone_workingtree(
        os.path.join(d, "main"), format=f)
    if fmt in STACKABLE:
        wt.branch.set_stacked_on_url("../base")
    controldir.ControlDir.create_standalone_workingtree(
        os.path.join(d, "plain"), format=f)
    _TEMPLATES[fmt] = d
    return d


class GModel:
    """Pure model of the logical holds on a tree T, its branch B and B's
    repository R.  own[h] = holds taken through h itself; a tree hold also
    holds the branch, a locked branch holds the repository once.  The mode of
    an object is fixed when its count leaves 0."""

    def __init__(self, pack, stacked):
        self.pack = pack
        self.stacked = stacked
        self.own = {"T": 0, "B": 0, "R": 0}
        self.mode = {"T": None, "B": None, "R": None}
        self.elog = {"T": [], "B": [], "R": []}   # physical lock calls
        self.flog = []                            # calls on each fallback
        self.wg = False
        self.refused = 0
        self.cross = 0
        self.maxdepth = 0
        self.returned = False
        self.wg_unlock = False
        self.wg_unlocks = 0

    def count(self, h):
        if h == "T":
            return self.own["T"]
        if h == "B":
            return self.own["B"] + self.own["T"]
        return self.own["R"] + (1 if self.count("B") > 0 else 0)

    def _readonly(self, h):
        return self.count(h) > 0 and self.mode[h] == "r"

    def _can_write_b(self):
        if self.count("B") > 0:
            return self.mode["B"] == "w"
        return not self._readonly("R")

    def refuses(self, h, op):
        """Name of the error the call must be refused with, or None."""
        if op in LOCK_OPS:
            if op == "lock_read":
                return None
            if h == "R":
                bad = self._readonly("R")
            elif h == "B":
                bad = not self._can_write_b()
            elif op == "lock_tree_write":
                bad = self._readonly("T")
            else:
                bad = self._readonly("T") or not self._can_write_b()
            return "ReadOnlyError" if bad else None
        if op == "unlock":
            return "LockNotHeld" if self.count(h) == 0 else None
        return None

    def applicable(self, h, op, allow_cross=False):
        if op == "lock_tree_write":
            return h == "T"
        if op == "unlock":
            if self.own[h] > 0:
                return True
            if self.count(h) > 0:
                return False      # would steal a hold taken through another
            return allow_cross or not self._lower_locked(h)
        if op == "wg":
            return h == "R" and self.count("R") > 0 and \
                self.mode["R"] == "w" and not self.wg
        if op == "awg":
            return h == "R" and self.wg
        return True

    def _lower_locked(self, h):
        b = BELOW[h]
        while b is not None:
            if self.count(b) > 0:
                return True
            b = BELOW[b]
        return False

    def is_cross(self, h, op):
        return op == "unlock" and self.count(h) == 0 and \
            self._lower_locked(h)

    def physical(self, h):
        """Is h's lock directory held on disk?"""
        return self.count(h) > 0 and self.mode[h] == "w" and not (
            h == "R" and self.pack)

    def _first(self, h, mode):
        if h == "R" and self.pack:
            # pack repositories take no physical lock for a write lock
            if mode == "r":
                self.elog["R"].append("R")
        else:
            self.elog[h].append("W" if mode == "w" else "R")
        if h == "R":
            self.flog.append("R")

    def _last(self, h, mode):
        if h == "R" and self.pack:
            if mode == "r":
                self.elog["R"].append("U")
        else:
            self.elog[h].append("U")
        if h == "R":
            self.flog.append("U")

    def step(self, h, op):
        """Advance; -> name of the expected error or None."""
        self.wg_unlock = False
        err = self.refuses(h, op)
        if err is not None:
            self.refused += 1
            if self.is_cross(h, op):
                self.cross += 1
            return err
        before = {x: self.count(x) for x in "TBR"}
        if op in LOCK_OPS:
            own_mode = "r" if op == "lock_read" else "w"
            down_mode = "w" if op == "lock_write" else "r"
            self.own[h] += 1
            for x in {"T": "TBR", "B": "BR", "R": "R"}[h]:
                if before[x] == 0 and self.count(x) > 0:
                    md = own_mode if x == h else down_mode
                    self.mode[x] = md
                    self._first(x, md)
        elif op == "unlock":
            self.own[h] -= 1
            for x in "TBR":
                if before[x] > 0 and self.count(x) == 0:
                    if x == "R" and self.wg:
                        self.wg = False
                        self.wg_unlock = True
                        self.wg_unlocks += 1
                    self._last(x, self.mode[x])
                    self.mode[x] = None
        elif op == "wg":
            self.wg = True
        elif op == "awg":
            self.wg = False
        depth = max(self.count(x) for x in "TBR")
        if depth >= 2:
            self.maxdepth = depth
        if depth == 0 and self.maxdepth >= 2:
            self.returned = True
            self.maxdepth = 0
        return None


class Spy:
    """Logs calls of named methods of an instance, then calls through."""

    def __init__(self, obj, names):
        self.log = []
        for attr, tag in names.items():
            orig = getattr(obj, attr)

            def wrapper(*a, _orig=orig, _tag=tag, **k):
                r = _orig(*a, **k)
                self.log.append(_tag)
                return r
            setattr(obj, attr, wrapper)


class Graph:
    """Real objects T (tree), B = T.branch, R = B.repository, F = fallbacks of
    R, with observers on the physical locks."""

    def __init__(self, root, fmt, stacked):
        from breezy import workingtree
        dst = os.path.join(root, "w")
        shutil.copytree(template(fmt), dst)
        self.path = os.path.join(dst, "main" if stacked else "plain")
        T = workingtree.WorkingTree.open(self.path)
        B = T.branch
        R = B.repository
        self.h = {"T": T, "B": B, "R": R}
        self.F = list(R._fallback_repositories)
        self.m = GModel(fmt != "knit", bool(self.F))
        names = {"lock_read": "R", "lock_write": "W", "unlock": "U"}
        self.spies = {
            "T": Spy(T._control_files._lock, names),
            "B": Spy(B.control_files._lock, names),
            "R": Spy(R.control_files._lock, names),
        }
        self.fspies = [Spy(f, {"lock_read": "R", "unlock": "U"})
                       for f in self.F]
        bzr = os.path.join(self.path, ".bzr")
        self.lockdirs = {
            "T": os.path.join(bzr, "checkout", "lock", "held"),
            "B": os.path.join(bzr, "branch", "lock", "held"),
            "R": os.path.join(bzr, "repository", "lock", "held"),
        }

    def depth(self, h):
        """The object's own idea of how often it is locked."""
        o = self.h[h]
        if h == "T":
            return o._control_files._lock_count
        if h == "B":
            return o.control_files._lock_count
        n = o.control_files._lock_count
        if self.m.pack:
            n += o._write_lock_count
        return n


NAMES = {"T": "tree", "B": "branch", "R": "repository"}


def graph_observe(g, ctx, what, refused):
    m = g.m
    sfx = "-by-refused-call" if refused else ""
    if refused:
        for h in "TBR":
            check(g.depth(h) == m.count(h),
                  "C28/%s-refused-but-%s-lock-count-changed" % (
                      what, NAMES[h]), [ctx, h, g.depth(h), m.count(h)])
    for f in g.F:
        check(bool(f.is_locked()) == (m.count("R") > 0),
              "C28/%s-fallback-%s%s" % (
                  what, "left-locked" if f.is_locked() else "not-locked", sfx),
              [ctx, f.is_locked(), m.count("R")])
    for h in "TBR":
        c = m.count(h)
        o = g.h[h]
        check(bool(o.is_locked()) == (c > 0),
              "C28/%s-%s-is_locked-wrong%s" % (what, NAMES[h], sfx),
              [ctx, h, o.is_locked(), c])
        disk = os.path.isdir(g.lockdirs[h])
        check(disk == m.physical(h),
              "C28/%s-%s-physical-lock-%s%s" % (
                  what, NAMES[h], "held" if disk else "not-held", sfx),
              [ctx, h, c, m.mode[h]])
        check(g.spies[h].log == m.elog[h],
              "C28/%s-%s-physical-lock-calls-differ%s" % (what, NAMES[h], sfx),
              [ctx, "".join(g.spies[h].log), "".join(m.elog[h])])
        check(g.depth(h) == c,
              "C28/%s-%s-lock-count-wrong%s" % (what, NAMES[h], sfx),
              [ctx, h, g.depth(h), c])
    R = g.h["R"]
    check(bool(R.is_write_locked()) == (m.count("R") > 0 and
                                        m.mode["R"] == "w"),
          "C28/%s-repository-is_write_locked-wrong%s" % (what, sfx),
          [ctx, R.is_write_locked(), m.mode["R"]])
    for fs in g.fspies:
        check(fs.log == m.flog,
              "C28/%s-fallback-lock-calls-differ%s" % (what, sfx),
              [ctx, "".join(fs.log), "".join(m.flog)])


def graph_step(g, h, op, ctx, allow_cross=False):
    """One call on handle h. op: lock_read, lock_write, lock_tree_write (T),
    unlock, q (is_locked), p (get_physical_lock_status), wg / awg (start /
    abort a write group on R)."""
    from breezy import errors
    m = g.m
    if not m.applicable(h, op, allow_cross):
        return False
    o = g.h[h]
    what = "%s-%s" % (NAMES[h], {"q": "is_locked", "p": "physical-status",
                                 "wg": "start_write_group",
                                 "awg": "abort_write_group"}.get(op, op))
    raised = None
    ret = None
    try:
        if op == "q":
            ret = o.is_locked()
        elif op == "p":
            ret = o.get_physical_lock_status()
        elif op == "wg":
            o.start_write_group()
        elif op == "awg":
            o.abort_write_group()
        else:
            getattr(o, op)()
    except errors.LockError as e:
        raised = e
    want = m.step(h, op)
    if m.wg_unlock:
        what = "unlock-in-write-group"
    if want is not None:
        check(raised is not None, "C28/%s-not-refused" % what, ctx)
        check(type(raised).__name__ == want,
              "C28/%s-refused-with-wrong-error" % what, [ctx, repr(raised)])
    else:
        check(raised is None, "C28/%s-raises" % what, [ctx, repr(raised)])
    if op == "q":
        check(bool(ret) == (m.count(h) > 0), "C28/%s-wrong" % what, [ctx, ret])
    if op == "p":
        check(bool(ret) == m.physical(h), "C28/%s-wrong" % what, [ctx, ret])
    graph_observe(g, ctx, what, want is not None)
    return True
