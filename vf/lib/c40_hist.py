"""Shared by C40 / C44: history specs with binary-ish contents, a classifier
for 'path re-use inside one revision' shapes, revision-level comparisons."""

from hypothesis import strategies as st

from . import graphmodel as gm
from . import history
from . import treemodel as tm

BINARY = ["\x00\x01\xff bin %d\r\nrest", "\xfe\xff\x00\x00 %d", "cr\rlf\r\n%d\n",
          "no newline at end %d", "\x89PNG\r\n\x1a\n%d\x00\x00"]


@st.composite
def spec_with_binary(draw, **kw):
    """history_spec + some file contents replaced by binary-ish bytes (NUL,
    high bytes, CR/CRLF, no final newline); every such content is unique."""
    spec = draw(history.history_spec(**kw))
    n = 0
    for rev in spec["revs"]:
        for op in rev["ops"]:
            isfile = (op[0] == "add" and op[4] == "file") or op[0] == "modify"
            if isfile and draw(st.integers(0, 5)) == 0:
                n += 1
                c = draw(st.sampled_from(BINARY)) % n
                if op[0] == "add":
                    op[5] = c
                else:
                    op[2] = c
    return spec


def reuse_classes(parent_model, model):
    """Shapes in which a path of the parent tree is occupied, in the child
    tree, by a DIFFERENT file id (path re-use inside one revision)."""
    out = set()
    pp = {tm.path_of(parent_model, f): f for f in parent_model
          if f != tm.ROOT_ID}
    cp = {tm.path_of(model, f): f for f in model if f != tm.ROOT_ID}
    for path, old in pp.items():
        new = cp.get(path)
        if new is None or new == old:
            continue
        old_alive = old in model
        new_existed = new in parent_model
        if old_alive and new_existed:
            out.add("swap-or-rename-chain")
        elif old_alive and not new_existed:
            out.add("rename-then-add-at-old-path")
        elif not old_alive and new_existed:
            out.add("rename-onto-deleted-path")
        else:
            out.add("delete-then-add-at-same-path")
            if parent_model[old]["kind"] != model[new]["kind"]:
                out.add("kind-change")
    return out


def moved_dirs_with_children(parent_model, model):
    """Directories present in both trees whose path changed and that keep at
    least one child present in both trees."""
    out = []
    for f, e in model.items():
        if f == tm.ROOT_ID or e["kind"] != "directory" or \
                f not in parent_model:
            continue
        if tm.path_of(parent_model, f) == tm.path_of(model, f):
            continue
        if any(d in parent_model for d in tm.descendants(model, f)):
            out.append(f)
    return out


def spec_classes(spec, rev_ids=None):
    """{rev id: set of re-use classes vs. its left-hand parent}."""
    models = history.models_of(spec)
    out = {}
    for rev in spec["revs"]:
        if rev_ids is not None and rev["id"] not in rev_ids:
            continue
        if not rev["parents"]:
            continue
        c = reuse_classes(models[rev["parents"][0]], models[rev["id"]])
        if c:
            out[rev["id"]] = c
    return out


def ancestry(spec, rid):
    if rid is None:
        return set()
    return set(gm.ancestry(history.graph_of(spec, ghosts=False), rid))


@st.composite
def spec_no_reuse(draw, **kw):
    """Like history.history_spec, but by construction no revision takes
    again, within its own edit script, a path that a RENAME of the same script
    vacated (swap, rename chain, rename + add at the old path); paths freed by
    a deletion may be re-used.  `forbid(model, op)` excludes further op
    shapes.  The number of ops left out is returned as spec["skipped_ops"]."""
    n = draw(st.integers(kw.pop("n_min", 2), kw.pop("n_max", 8)))
    merges = kw.pop("merges", True)
    meta = kw.pop("meta", True)
    tags = kw.pop("tags", True)
    ops_max = kw.pop("ops_max", 3)
    base_max = kw.pop("base_max", 5)
    max_parents = kw.pop("max_parents", 3)
    opkw = dict(symlinks=kw.pop("symlinks", True), execs=kw.pop("execs", True),
                odd_names=kw.pop("odd_names", False))
    forbid = kw.pop("forbid", None)      # predicate(model, op) -> skip the op
    skipped = [0]

    def script(m, n_min, n_max, **k2):
        ops = []
        moved_away = set()      # paths vacated by a RENAME in this script
        deleted = set()         # paths vacated by a DELETE in this script
        for _ in range(draw(st.integers(n_min, n_max))):
            op = tm.draw_op(draw, m, ids, **dict(opkw, **k2))
            if op is None:
                continue
            if forbid is not None and forbid(m, op):
                skipped[0] += 1
                continue
            if op[0] in ("add", "rename"):
                pp = tm.path_of(m, op[2])
                dest = (pp + "/" + op[3]) if pp else op[3]
                if any(v == dest or v.startswith(dest + "/") or
                       dest.startswith(v + "/") for v in moved_away):
                    # a path freed by a rename is taken again in the same
                    # revision (swap, rename chain, rename + add): excluded
                    skipped[0] += 1
                    continue
                if op[0] == "rename" and dest in deleted and \
                        m[op[1]]["kind"] == "directory":
                    # a DIRECTORY renamed onto a path deleted in the same
                    # revision: excluded (own root cause, own shape)
                    skipped[0] += 1
                    continue
            if op[0] == "rename":
                moved_away.add(tm.path_of(m, op[1]))
            if op[0] == "delete":
                deleted.add(tm.path_of(m, op[1]))
                for dsc in tm.descendants(m, op[1]):
                    deleted.add(tm.path_of(m, dsc))
            tm.apply_op(m, op)
            ops.append(op)
        return ops
    ids = tm.IdSource()
    revs = []
    models = {}
    for i in range(n):
        rid = "r%d" % i
        if i == 0:
            m = tm.new_model()
            ops = script(m, 1, base_max, kinds=["add", "add", "add_dir"])
            parents = []
        else:
            left = draw(st.sampled_from(
                [r["id"] for r in revs[-3:]] + [revs[-1]["id"]]))
            parents = [left]
            if merges and len(revs) >= 2 and draw(st.integers(0, 9)) < 4:
                g = {r["id"]: tuple(r["parents"]) for r in revs}
                anc_left = gm.ancestry(g, left)
                others = [r["id"] for r in revs if r["id"] not in anc_left]
                if others:
                    k = draw(st.integers(1, max_parents - 1))
                    extra = draw(st.lists(st.sampled_from(others), min_size=1,
                                          max_size=k, unique=True))
                    extra = [e for e in extra if not any(
                        o != e and e in gm.ancestry(g, o) for o in extra)]
                    parents += extra
            m = tm.clone(models[left])
            ops = script(m, 0, ops_max)
        rev = {"id": rid, "parents": parents, "ghosts": [], "ops": ops,
               "msg": "m%d" % i, "ts": 1000000000 + 100 * i, "tz": 0,
               "committer": history.COMMITTERS[0], "props": {}}
        if meta:
            rev["msg"] = draw(st.sampled_from(
                ["m%d" % i, "line one\nline two", "ünïcode msg", "tab\tmsg",
                 "trailing \n\nparagraph"]))
            rev["tz"] = draw(st.sampled_from([0, 3600, -18000, 19800, -12600]))
            rev["committer"] = draw(st.sampled_from(history.COMMITTERS))
            if draw(st.booleans()):
                rev["props"] = {"author": draw(
                    st.sampled_from(history.COMMITTERS))}
        models[rid] = m
        revs.append(rev)
    tagd = {}
    if tags:
        for t in draw(st.lists(st.sampled_from(["t1", "t2", "rel-1.0", "\u00fc",
                                                "rel/1.0"]),
                               unique=True, max_size=3)):
            tagd[t] = draw(st.sampled_from([r["id"] for r in revs]))
    return {"revs": revs, "tags": tagd, "skipped_ops": skipped[0]}


def renames_dir_with_children(model, op):
    return op[0] == "rename" and model[op[1]]["kind"] == "directory" and \
        bool(tm.descendants(model, op[1]))
