"""Transport seam: a dromedary decorator (URL prefix ``vf+``) through which
every repository / branch / lock I/O of breezy passes - including the pack and
index writes issued from the Rust code in bzrformats.  One global Controller
decides what happens at each operation:

  record    log (index, op, path, size) for every mutating operation
  crash     at mutating operation k raise Crash (before it, after it, or after
            a partial effect for the non-atomic operations), then *freeze*:
            every later mutating call raises Crash too, so finally-clauses of
            the dying "process" cannot touch the disk
  fault     at mutating operation k raise a transport error once and carry on
  schedule  before every operation (reads included) hand the baton back to
            the Scheduler, which picks the next actor from a generated list

Usage:
    from vf.seam import ft
    ft.install()
    url = ft.url(path)                      # 'vf+file:///abs/path'
    with ft.session(mode="record") as c:    # c.log afterwards
        ...
"""

import contextlib
import threading

import dromedary
from dromedary.decorator import TransportDecorator

PREFIX = "vf+"

MUTATING = ("append_file", "append_bytes", "delete", "delete_tree", "mkdir",
            "open_write_stream", "put_file", "put_bytes",
            "put_bytes_non_atomic", "put_file_non_atomic", "rename", "move",
            "rmdir", "ws.write", "ws.close", "copy")
NON_ATOMIC = ("put_bytes_non_atomic", "put_file_non_atomic", "ws.write",
              "append_bytes", "append_file")


class Crash(BaseException):
    """The simulated process died here."""


class Controller:
    def __init__(self, mode="record", crash_at=None, crash_when="before",
                 partial=None, fault_at=None, fault_exc=None, scheduler=None,
                 count_reads=False, only_under=None):
        self.mode = mode
        self.count = 0
        self.log = []
        self.crash_at = crash_at
        self.crash_when = crash_when      # before | after | partial
        self.partial = partial            # bytes kept by a partial effect
        self.dead = False
        self.fault_at = fault_at
        self.fault_exc = fault_exc
        self.fired = False
        self.scheduler = scheduler
        self.count_reads = count_reads
        self.only_under = only_under      # only count ops whose path contains it
        self.tl = threading.local()

    # returns None (proceed), "after" (do op then crash) or ("partial", n)
    def before(self, name, path, size=None, mutating=True):
        if self.mode == "off":
            return None
        if self.mode == "schedule":
            if self.scheduler is not None:
                self.scheduler.yield_point((name, path))
            if mutating:
                self.log.append((self.count, name, path, size,
                                 getattr(_tl, "actor", None)))
                self.count += 1
            return None
        if not mutating and not self.count_reads:
            return None
        if self.only_under is not None and self.only_under not in path:
            return None
        if self.dead:
            raise Crash("process is dead (%s %s)" % (name, path))
        idx = self.count
        self.count += 1
        self.log.append((idx, name, path, size))
        if self.mode == "crash" and self.crash_at == idx:
            self.fired = True
            if self.crash_when == "before":
                self.dead = True
                raise Crash("crash before op %d %s %s" % (idx, name, path))
            if self.crash_when == "partial" and name in NON_ATOMIC:
                return ("partial", self.partial or 0)
            return "after"
        if self.mode == "fault" and self.fault_at == idx:
            self.fired = True
            exc = self.fault_exc
            if exc is None:
                from dromedary import errors as derr
                raise derr.TransportError("injected fault at op %d %s %s" % (
                    idx, name, path))
            raise exc(path) if isinstance(exc, type) else exc
        return None

    def die(self, name, path):
        self.dead = True
        raise Crash("crash after op %s %s" % (name, path))


CURRENT = None
_tl = threading.local()


@contextlib.contextmanager
def session(**kw):
    """Install a Controller for the duration of the block."""
    global CURRENT
    old = CURRENT
    c = Controller(**kw)
    CURRENT = c
    try:
        yield c
    finally:
        CURRENT = old


class _WriteStream:
    def __init__(self, inner, path):
        self._inner = inner
        self._path = path

    def write(self, data):
        c = CURRENT
        act = c.before("ws.write", self._path, len(data)) if c else None
        if isinstance(act, tuple):
            n = min(act[1], len(data))
            self._inner.write(data[:n])
            self._inner.flush()
            c.die("ws.write(partial)", self._path)
        r = self._inner.write(data)
        self._inner.flush()
        if act == "after":
            c.die("ws.write", self._path)
        return r

    def close(self, *a, **k):
        c = CURRENT
        if c is not None and c.dead:
            try:
                self._inner.close()
            except Exception:
                pass
            raise Crash("process is dead (ws.close %s)" % self._path)
        act = c.before("ws.close", self._path) if c else None
        r = self._inner.close(*a, **k)
        if act == "after":
            c.die("ws.close", self._path)
        return r

    def flush(self):
        return self._inner.flush()

    def __enter__(self):
        return self

    def __exit__(self, *exc):
        self.close()
        return False

    def fdatasync(self):
        return self._inner.fdatasync()

    def __getattr__(self, n):
        return getattr(self._inner, n)


class SeamTransport(TransportDecorator):
    @classmethod
    def _get_url_prefix(cls):
        return PREFIX

    def _p(self, rel):
        try:
            return self._decorated.abspath(rel)
        except Exception:
            return str(rel)

    def _do(self, name, rel, fn, size=None, mutating=True, partial_fn=None):
        c = CURRENT
        if c is None:
            return fn()
        path = self._p(rel)
        act = c.before(name, path, size, mutating)
        if isinstance(act, tuple):
            if partial_fn is not None:
                partial_fn(act[1])
            c.die(name + "(partial)", path)
        r = fn()
        if act == "after":
            c.die(name, path)
        return r

    # --- mutating -------------------------------------------------------
    def append_file(self, relpath, f, mode=None):
        return self._do("append_file", relpath,
                        lambda: self._decorated.append_file(relpath, f, mode=mode))

    def append_bytes(self, relpath, b, mode=None):
        return self._do(
            "append_bytes", relpath,
            lambda: self._decorated.append_bytes(relpath, b, mode=mode), len(b),
            partial_fn=lambda n: self._decorated.append_bytes(
                relpath, b[:min(n, len(b))], mode=mode))

    def delete(self, relpath):
        return self._do("delete", relpath,
                        lambda: self._decorated.delete(relpath))

    def delete_tree(self, relpath):
        return self._do("delete_tree", relpath,
                        lambda: self._decorated.delete_tree(relpath))

    def mkdir(self, relpath, mode=None):
        return self._do("mkdir", relpath,
                        lambda: self._decorated.mkdir(relpath, mode))

    def open_write_stream(self, relpath, mode=None):
        inner = self._do(
            "open_write_stream", relpath,
            lambda: self._decorated.open_write_stream(relpath, mode=mode))
        return _WriteStream(inner, self._p(relpath))

    def put_file(self, relpath, f, mode=None):
        return self._do("put_file", relpath,
                        lambda: self._decorated.put_file(relpath, f, mode))

    def put_bytes(self, relpath, b, mode=None):
        return self._do("put_bytes", relpath,
                        lambda: self._decorated.put_bytes(relpath, b, mode),
                        len(b))

    def put_bytes_non_atomic(self, relpath, b, *a, **k):
        return self._do(
            "put_bytes_non_atomic", relpath,
            lambda: self._decorated.put_bytes_non_atomic(relpath, b, *a, **k),
            len(b),
            partial_fn=lambda n: self._decorated.put_bytes_non_atomic(
                relpath, b[:min(n, len(b))], *a, **k))

    def put_file_non_atomic(self, relpath, f, *a, **k):
        return self._do(
            "put_file_non_atomic", relpath,
            lambda: self._decorated.put_file_non_atomic(relpath, f, *a, **k),
            partial_fn=lambda n: self._decorated.put_bytes_non_atomic(
                relpath, f.read()[:n], *a, **k))

    def rename(self, a, b):
        return self._do("rename", a, lambda: self._decorated.rename(a, b))

    def move(self, a, b):
        return self._do("move", a, lambda: self._decorated.move(a, b))

    def copy(self, a, b):
        return self._do("copy", a, lambda: self._decorated.copy(a, b))

    def rmdir(self, relpath):
        return self._do("rmdir", relpath,
                        lambda: self._decorated.rmdir(relpath))

    # --- reads ----------------------------------------------------------
    def get(self, relpath):
        return self._do("get", relpath, lambda: self._decorated.get(relpath),
                        mutating=False)

    def get_bytes(self, relpath):
        return self._do("get_bytes", relpath,
                        lambda: self._decorated.get_bytes(relpath),
                        mutating=False)

    def has(self, relpath):
        return self._do("has", relpath, lambda: self._decorated.has(relpath),
                        mutating=False)

    def stat(self, relpath):
        return self._do("stat", relpath, lambda: self._decorated.stat(relpath),
                        mutating=False)

    def list_dir(self, relpath):
        return self._do("list_dir", relpath,
                        lambda: self._decorated.list_dir(relpath),
                        mutating=False)

    def iter_files_recursive(self):
        return self._do("iter_files_recursive", ".",
                        lambda: self._decorated.iter_files_recursive(),
                        mutating=False)

    def _readv(self, relpath, offsets):
        return self._do("readv", relpath,
                        lambda: self._decorated.readv(relpath, offsets),
                        mutating=False)

    def readv(self, relpath, offsets, *a, **k):
        return self._do("readv", relpath,
                        lambda: self._decorated.readv(relpath, offsets, *a, **k),
                        mutating=False)


_installed = False


def install():
    global _installed
    if not _installed:
        dromedary.register_transport(PREFIX, SeamTransport)
        _installed = True


def url(path):
    """vf+file:///abs/path for a local directory."""
    from breezy import urlutils
    install()
    return PREFIX + urlutils.local_path_to_url(path)


def get_transport(path):
    from breezy import transport as _t
    return _t.get_transport(url(path))


# ---------------------------------------------------------------- scheduler

class Scheduler:
    """Cooperative threads: an actor only runs while it holds the baton, and
    gives it back before every transport operation.  `choices` is the generated
    schedule: at each step the k-th (mod n) live actor runs until its next
    yield.  `after_step(actor)` is called by the scheduler thread after every
    executed step (all actors are parked then), for invariants."""

    def __init__(self, choices, after_step=None, max_steps=20000,
                 max_preempt=None):
        self.choices = list(choices)
        self.i = 0
        self.sems = {}
        self.done = set()
        self.main = threading.Semaphore(0)
        self.errors = {}
        self.after_step = after_step
        self.trace = []
        self.max_steps = max_steps
        self.steps = 0
        self.exhausted = False
        self.max_preempt = max_preempt
        self.preempts = 0
        self.last = None

    def yield_point(self, desc):
        a = getattr(_tl, "actor", None)
        if a is None or a not in self.sems:
            return
        self.trace.append((a, desc))
        self.main.release()
        self.sems[a].acquire()
        if self.exhausted:
            raise Crash("schedule step bound exceeded")

    def run(self, actors):
        """actors: {name: callable}. Returns {name: exception-or-None}."""
        threads = []
        for name, fn in actors.items():
            self.sems[name] = threading.Semaphore(0)

            def body(name=name, fn=fn):
                _tl.actor = name
                self.sems[name].acquire()
                try:
                    if not self.exhausted:
                        fn()
                    self.errors[name] = None
                except BaseException as e:  # noqa: BLE001
                    self.errors[name] = e
                finally:
                    self.done.add(name)
                    _tl.actor = None
                    self.main.release()
            th = threading.Thread(target=body, daemon=True)
            threads.append(th)
            th.start()
        names = sorted(actors)
        while True:
            live = [a for a in names if a not in self.done]
            if not live:
                break
            if self.steps >= self.max_steps:
                self.exhausted = True
                for a in live:
                    self.sems[a].release()
                    self.main.acquire()
                continue
            c = self.choices[self.i] if self.i < len(self.choices) else 0
            self.i += 1
            a = live[c % len(live)]
            if self.max_preempt is not None and self.last in live and \
                    a != self.last:
                if self.preempts >= self.max_preempt:
                    a = self.last
                else:
                    self.preempts += 1
            self.last = a
            self.steps += 1
            self.sems[a].release()
            self.main.acquire()
            if self.after_step is not None and not self.exhausted:
                self.after_step(a)
        for th in threads:
            th.join(10)
        return self.errors


def current_actor():
    return getattr(_tl, "actor", None)


class VirtualTime:
    """Drop-in for the `time` module inside breezy.lockdir etc.: sleep() yields
    to the scheduler and advances a virtual clock; no wall clock involved."""

    def __init__(self, scheduler=None, start=1000000000.0):
        self.now = start
        self.scheduler = scheduler

    def time(self):
        return self.now

    def sleep(self, s):
        self.now += s
        sch = self.scheduler or (CURRENT.scheduler if CURRENT else None)
        if sch is not None:
            sch.yield_point(("sleep", s))

    def __getattr__(self, n):
        import time as _time
        return getattr(_time, n)
