"""Process bootstrap: scratch directories, hermetic breezy environment, rebuild
of the Rust extensions from /repo's working tree."""

import atexit
import fcntl
import hashlib
import os
import shutil
import subprocess
import sys
import tempfile

VERIF_ROOT = os.environ.get("VERIF_ROOT") or os.path.dirname(
    os.path.dirname(os.path.abspath(__file__)))
REPO = os.environ.get("VERIF_REPO", "/repo")
GUARD = "BREEZY_VERIF"

_SO_MAP = {
    "osutils": "_osutils_rs",
    "patch": "_patch_rs",
    "git": "_git_rs",
    "cmd": "_cmd_rs",
    "annotate": "_annotator_rs",
    "zlib_util": "zlib_util",
}
_SUFFIX = ".cpython-312-x86_64-linux-gnu.so"


class HarnessError(Exception):
    """Something went wrong in the machinery itself (exit 2, never a VIOLATION)."""


def _rust_hash(repo):
    h = hashlib.sha1()
    files = []
    for top in ("Cargo.toml", "Cargo.lock"):
        p = os.path.join(repo, top)
        if os.path.exists(p):
            files.append(p)
    for top in ("crates", "src"):
        for d, dirs, fs in os.walk(os.path.join(repo, top)):
            dirs.sort()
            for f in sorted(fs):
                if f.endswith((".rs", ".toml", ".lock")):
                    files.append(os.path.join(d, f))
    for p in files:
        h.update(os.path.relpath(p, repo).encode())
        h.update(b"\0")
        with open(p, "rb") as f:
            h.update(f.read())
        h.update(b"\0")
    return h.hexdigest()


def ensure_built(repo=None, verbose=False):
    """Make breezy/_*_rs*.so correspond to the Rust sources in the working tree.

    A stamp next to the build output records the source hash the installed
    extension modules were built from; if it is missing or different the
    extensions are rebuilt offline with cargo and copied into place.
    """
    repo = repo or REPO
    want = _rust_hash(repo)
    tdir = os.path.join(repo, "target")
    os.makedirs(tdir, exist_ok=True)
    stamp = os.path.join(tdir, ".verif-stamp")
    lock = open(os.path.join(tdir, ".verif-build.lock"), "w")
    fcntl.flock(lock, fcntl.LOCK_EX)
    try:
        have = None
        if os.path.exists(stamp):
            with open(stamp) as f:
                have = f.read().strip()
        sos_present = all(
            os.path.exists(os.path.join(repo, "breezy", m + _SUFFIX))
            for m in _SO_MAP.values())
        if have == want and sos_present:
            return False
        env = dict(os.environ)
        env["CARGO_NET_OFFLINE"] = "true"
        env.setdefault("CARGO_TARGET_DIR", tdir)
        cmd = ["cargo", "build", "--offline"]
        for n in ("osutils-py", "patch-py", "git-py", "cmd-py", "annotate-py",
                  "zlib-util-py"):
            cmd += ["-p", n]
        r = subprocess.run(cmd, cwd=repo, env=env, stdout=subprocess.PIPE,
                           stderr=subprocess.STDOUT, text=True)
        if r.returncode != 0:
            raise HarnessError("cargo build failed:\n" + r.stdout[-4000:])
        out = os.path.join(env["CARGO_TARGET_DIR"], "debug")
        for n, mod in _SO_MAP.items():
            src = os.path.join(out, "lib%s_py.so" % n)
            dst = os.path.join(repo, "breezy", mod + _SUFFIX)
            tmp = dst + ".verif-tmp"
            shutil.copyfile(src, tmp)
            os.chmod(tmp, 0o755)
            os.replace(tmp, dst)
        with open(stamp, "w") as f:
            f.write(want + "\n")
        if verbose:
            print("rebuilt rust extensions for", repo)
        return True
    finally:
        fcntl.flock(lock, fcntl.LOCK_UN)
        lock.close()


_scratch_root = None


def scratch_root():
    """Per-process scratch directory (tmpfs when available), removed at exit."""
    global _scratch_root
    if _scratch_root is None:
        base = "/dev/shm" if os.path.isdir("/dev/shm") and os.access(
            "/dev/shm", os.W_OK) else tempfile.gettempdir()
        _scratch_root = tempfile.mkdtemp(prefix="verif.%d." % os.getpid(),
                                         dir=base)
        atexit.register(_cleanup, _scratch_root, os.getpid())
    return _scratch_root


def _cleanup(path, pid):
    if os.getpid() != pid:
        return
    shutil.rmtree(path, ignore_errors=True)


_bootstrapped = False


def bootstrap():
    """Hermetic breezy library state for this process."""
    global _bootstrapped
    if _bootstrapped:
        return
    _bootstrapped = True
    os.environ[GUARD] = "1"
    root = scratch_root()
    home = os.path.join(root, "home")
    os.makedirs(home, exist_ok=True)
    for k in ("HOME", "BRZ_HOME", "XDG_CONFIG_HOME", "XDG_CACHE_HOME",
              "XDG_DATA_HOME"):
        os.environ[k] = home
    os.environ["BRZ_EMAIL"] = "Verif Tester <verif@example.com>"
    os.environ["EMAIL"] = "Verif Tester <verif@example.com>"
    os.environ["BRZ_PLUGIN_PATH"] = "-site:-user"
    os.environ["BRZ_DISABLE_PLUGINS"] = ""
    os.environ.pop("BRZ_LOG", None)
    os.environ["BRZ_LOG"] = os.path.join(root, "brz.log")
    os.environ["TZ"] = "UTC"
    os.environ["LC_ALL"] = "C.UTF-8"
    os.environ["LANG"] = "C.UTF-8"
    for k in ("BZR_HOME", "BZR_EMAIL", "BZREMAIL", "BZR_PLUGIN_PATH",
              "BRZ_PROGRESS_BAR", "VISUAL", "EDITOR", "BRZ_EDITOR"):
        os.environ.pop(k, None)
    # an empty user ignore file: the default list (*.o, *.tmp, *~ ...) would
    # silently ignore generated names
    cfg = os.path.join(home, "breezy")
    os.makedirs(cfg, exist_ok=True)
    with open(os.path.join(cfg, "ignore"), "w") as f:
        f.write("")
    import breezy
    if not os.path.abspath(breezy.__file__).startswith(
            os.path.abspath(REPO) + os.sep):
        raise HarnessError("breezy imported from %s, expected %s" % (
            breezy.__file__, REPO))
    breezy.initialize(setup_ui=False)
    import breezy.bzr  # noqa: F401
    import breezy.git  # noqa: F401
    from breezy import trace, ui
    trace.be_quiet(True)
    ui.ui_factory = SilentUIFactory()
    import logging
    logging.getLogger("brz").setLevel(logging.CRITICAL)
    logging.disable(logging.CRITICAL)


def _make_silent_ui():
    from breezy import ui

    class _Silent(ui.SilentUIFactory):
        """Answers every confirmation deterministically (yes)."""

        def get_boolean(self, prompt, **kw):
            return True

        def confirm_action(self, prompt, confirmation_id, prompt_kwargs):
            return True

        def get_username(self, prompt, **kw):
            return "verif"

        def get_password(self, prompt="", **kw):
            return "verif"

        def choose(self, msg, choices, default=None):
            return 0 if default is None else default

    return _Silent()


def SilentUIFactory():
    return _make_silent_ui()


class CaseEnv:
    """Handed to every run(case, env): per-case scratch directories."""

    def __init__(self, tier, seed, shard=0):
        self.tier = tier
        self.seed = seed
        self.shard = shard
        self.root = os.path.join(scratch_root(), "cases")
        os.makedirs(self.root, exist_ok=True)
        self._n = 0
        self._cur = []
        self.shared = {}  # per-process cache for expensive fixtures

    def newdir(self, name="d"):
        self._n += 1
        p = os.path.join(self.root, "%s%d" % (name, self._n))
        os.makedirs(p)
        self._cur.append(p)
        return p

    def end_case(self):
        for p in self._cur:
            shutil.rmtree(p, ignore_errors=True)
        self._cur = []
