"""C14 - transform previews match their applied result; automatic conflict
resolution ends in a conflict-free transform that applies cleanly or in a
reported malformed transform, never in a partially applied tree."""

import os

from hypothesis import strategies as st

from vf.api import Kind, ok, rejected, trivial, violation
from vf.lib import bz
from vf.lib import c13_tt as X
from vf.lib import c14_tt as P
from vf.lib import treemodel as tm

PROPERTY = "C14"
LEVEL = "exploration"
TECHNIQUE = ("preview / apply differential per tree accessor on generated "
             "transforms; conflict resolution run to its fixpoint and checked "
             "for its two allowed endings")
RULE = ("generated: (1) conflict-free transforms built from a model diff over "
        "a committed 2a or git tree (create, delete, rename, re-parent, swap, "
        "in-place kind change, content and exec change; all symlinks dangle); "
        "(2) raw scripts of 1-12 TreeTransform calls (new_file/new_directory/"
        "new_symlink under existing, new, deleted or non-directory parents, "
        "delete_contents, unversion_file, adjust_path incl. onto existing "
        "names and into own children, version_file, cancel_*, "
        "set_executability, create_* over deleted contents), each call inside "
        "the API's own preconditions but free to produce any raw conflict; "
        "enumerated: three transforms on a tree with a symlink to a directory. "
        "Raw conflicts go through resolve_conflicts; the preview is read "
        "accessor by accessor, the transform applied and the applied tree "
        "read the same way. Non-trivial: at least one raw conflict the "
        "resolvers repaired, or a preview containing a moved entry (labelled "
        "apart when it is a non-empty directory). Distinct by case hash.")
ASSUMPTIONS = [
    "a working tree answers NoSuchFile where a preview answers None for a "
    "versioned entry without a file: for such entries only the versioning "
    "facts are compared",
    "git does not version directories: directory entries are not compared on "
    "git trees",
]
LEVEL_TEXT = ("Differential between the preview tree and the tree after apply, "
              "per path and per accessor (listing, kind, text, exec bit, "
              "symlink target, file id, path2id, is_versioned, has_filename, "
              "stored_kind, sha1, size), on sampled transforms; every "
              "discrepancy is classified by accessor and by how the entry "
              "relates to the original tree, so that the open defect classes "
              "do not hide others. Conflict resolution is run to its end and "
              "must finish conflict-free or with MalformedTransform and an "
              "untouched tree.")
LEVEL_NOTE = ("Sampled. 20 open finding signatures (about 12 root causes) "
              "are listed; "
              "cases that hit a resolver crash end there, the rest of the "
              "space is searched normally.")
REGISTERED = True
NONTRIVIAL_FLOOR = {"quick": 500, "thorough": 5000}

DELEGATING_ACCESSORS = {"exec": "is_executable", "has_filename": "has_filename",
                        "stored_kind": "stored_kind", "sha1": "get_file_sha1",
                        "size": "get_file_size"}

# classes listed as open findings are reported after any other discrepancy of
# the same case (they are still reported): the search continues behind them
SHA1_NEWLY_VERSIONED = ("C14/preview-asks-original-tree-about-file-versioned-"
                        "by-this-transform")
REPORT_LAST = (
    SHA1_NEWLY_VERSIONED,
    "C14/preview-wrong-at-path-reused-after-deletion",
    "C14/preview-get_file-looks-up-new-file-id-in-original-tree",
    "C14/git-directory-move-leaves-children-at-old-index-paths",
    "C14/preview-lists-path-missing-after-apply:contentless:git",
    "C14/applied-tree-has-path-missing-from-preview:git")

SIG_ATTR = {
    "kind": "kind", "stored_kind": "stored_kind", "versioned": "is_versioned",
    "has_filename": "has_filename", "id": "file-id", "path2id": "path2id",
    "text": "get_file_text", "exec": "is_executable",
    "sha1": "get_file_sha1", "size": "get_file_size",
    "target": "get_symlink_target", "entry_kind": "entry-kind",
}


GIT_DIR_MOVE = "C14/git-directory-move-leaves-children-at-old-index-paths"


def compare(facts, pv, av, fmt="2a", git_dir_move=False, old_paths=None):
    old_paths = old_paths or {}
    """-> [(signature, detail)] preview view vs applied view."""
    out = []
    tag = ":git" if fmt == "git" else ""
    for p in sorted(set(pv) | set(av)):
        cls, deleg = facts.get(p, ("?", {}))
        if p not in av or p not in pv:
            if git_dir_move:
                # one root cause, many faces: see known_findings
                out.append((GIT_DIR_MOVE, [p, pv.get(p), av.get(p)]))
            elif p not in av:
                if tag and pv[p].get("kind") is None:
                    cls = "contentless"      # whatever else it also is
                out.append(("C14/preview-lists-path-missing-after-apply:" +
                             cls + tag, [p, pv[p]]))
            elif p in old_paths and \
                    old_paths[p].get("has_filename") is False:
                # gone from disk before the transform started and not touched
                # by it: previews list directory contents from disk
                out.append((
                    "C14/preview-omits-versioned-file-missing-from-disk" + tag,
                    [p, av[p]]))
            elif p in old_paths and (
                    av[p].get("has_filename") is False or
                    (av[p].get("text"), av[p].get("target")) ==
                    (old_paths[p].get("text"), old_paths[p].get("target"))):
                # an entry of the original tree, still listed at its old
                # path, that the preview dropped
                out.append((
                    "C14/applied-tree-keeps-old-path-missing-from-preview" +
                    tag, [p, av[p]]))
            else:
                out.append((
                    "C14/applied-tree-has-path-missing-from-preview" + tag,
                    [p, av[p]]))
            continue
        attrs = sorted(set(pv[p]) | set(av[p]))
        if av[p].get("has_filename") is False:
            # versioned but absent from disk after apply: only the
            # versioning facts are comparable (a working tree raises
            # NoSuchFile where a preview answers None)
            attrs = [a for a in attrs if a in (
                "entry_kind", "versioned", "id", "path2id", "has_filename")]
        for a in attrs:
            x, y = pv[p].get(a), av[p].get(a)
            if isinstance(y, str) and y.startswith("EXC:"):
                out.append(("C14/applied-tree-accessor-raises:" + SIG_ATTR[a],
                            [p, y]))
            elif x == y:
                continue
            elif cls == "reused-path":
                out.append((
                    "C14/preview-wrong-at-path-reused-after-deletion",
                    [p, a, x, y]))
            elif a in ("sha1", "stored_kind") and deleg.get(a) and \
                    cls == "newly-versioned":
                # what is left of F31a after its repair (82bdfa0): the original
                # tree is asked for the hash of a file it does not version
                out.append((SHA1_NEWLY_VERSIONED, [p, cls, x, y]))
            elif a in ("text", "target") and cls == "newly-versioned":
                out.append((
                    "C14/preview-get_file-looks-up-new-file-id-in-original-"
                    "tree", [p, cls, x, y]))
            else:
                out.append(("C14/preview-%s-wrong-for-%s-entry" % (
                    SIG_ATTR[a], cls), [p, a, x, y]))
    return out


RESOLVABLE = {"duplicate", "duplicate id", "missing parent", "parent loop",
              "versioning no contents"}


def pick(found):
    rest = [f for f in found if f[0] not in REPORT_LAST]
    return (rest or found)[0]


def _fin(tt):
    """finalize(); the two documented 'cannot clean up' errors become a
    returned marker (callers that care look at control_leftovers)."""
    from breezy import errors
    from breezy.transform import ImmortalLimbo
    try:
        tt.finalize()
    except errors.ImmortalPendingDeletion:
        return "pending-deletion"
    except ImmortalLimbo:
        return "limbo"
    return None


def check_case(case, env, build):
    """build(tt, wt) issues the transform calls. -> Outcome"""
    from breezy import errors
    from breezy.transform import MalformedTransform, resolve_conflicts
    root = env.newdir("c14")
    path = os.path.join(root, "t")
    wt, base = X.build_tree(path, case["fmt"], case["base"])
    for p, content in case.get("extras", []):
        with open(os.path.join(path, p), "wb") as f:
            f.write(bz.cbytes(content))
    bz.age_files(path)
    for p in case.get("missing", []):
        # versioned files that are gone from disk before the transform starts
        os.unlink(os.path.join(path, p))
    del wt
    wt = bz.open_tree(path)
    ids = wt.supports_setting_file_ids()
    fs0 = bz.snapshot_fs(path)
    v0 = P.tree_view(wt, ids, ids)
    tt = wt.transform()
    label = []
    try:
        build(tt, wt, base)
        raw = tt.find_raw_conflicts()
        kinds = sorted({c[0] for c in raw})
        if raw:
            try:
                resolve_conflicts(tt)
            except MalformedTransform as e:
                _fin(tt)
                final = sorted({c[0] for c in e.conflicts})
                if len(kinds) == 1 and final == kinds and \
                        kinds[0] in RESOLVABLE:
                    # a lone conflict of a kind whose resolver is documented
                    # to repair it, still alone after 10 passes: the resolver
                    # returned without changing the transform.  (When other
                    # kinds appear on the way the transform may legitimately
                    # end malformed.)
                    return violation(
                        "C14/resolvable-conflicts-end-malformed:" +
                        "+".join(kinds), [case, kinds])
                return _unchanged(case, path, fs0, v0, ids,
                                  "malformed-after-resolution", kinds)
            except Exception as e:  # noqa: BLE001 - reported, never dropped
                import traceback
                names = [f.name for f in traceback.extract_tb(e.__traceback__)]
                res = [n for n in names if n.startswith("resolve_") and
                       n != "resolve_conflicts"]
                if not res:
                    raise
                _fin(tt)
                # neither conflict-free nor a reported malformed transform
                return violation(
                    "C14/conflict-resolver-crashes:%s:%s" % (
                        res[-1], type(e).__name__),
                    [case, kinds, names[-3:], str(e)[:200]])
            left = tt.find_raw_conflicts()
            if left:
                return violation(
                    "C14/resolve_conflicts-returns-with-conflicts-left",
                    [case, kinds, sorted({c[0] for c in left})])
            label.append("resolved:" + "+".join(kinds))
        # (git only) does the transform move a directory that has children?
        git_dir_move = case["fmt"] == "git" and any(
            tt.tree_kind(t) == "directory" and tt.path_changed(t)
            for t in list(tt._tree_id_paths))
        # same final name, one side versioned without contents: on the
        # unchanged tree 'duplicate' reports and repairs this, so none is left
        clash = P.name_clash_with_contentless(tt)
        preview = tt.get_preview_tree()
        pv = P.tree_view(preview, ids, ids)
        # every new content must be on disk afterwards (versioned or not)
        from breezy.transform import FinalPaths
        fp = FinalPaths(tt)
        expected_new = {fp.get_path(t): k for t, k in tt._new_contents.items()}
        facts = {p: P.entry_facts(tt, preview, p) for p in pv}
        classes = {p: f[0] for p, f in facts.items()}
        try:
            tt.apply()
        except MalformedTransform as e:
            _fin(tt)
            late = sorted({c[0] for c in e.conflicts})
            return violation(
                "C14/conflict-free-transform-malformed-at-apply:" +
                "+".join(late), [case, kinds, late])
        except Exception as e:  # noqa: BLE001 - re-raised unless partial
            _fin(tt)
            import traceback
            names = [f.name for f in traceback.extract_tb(e.__traceback__)]
            fs_now = bz.snapshot_fs(path)
            partial = fs_now != fs0
            residue = ":tree-partially-applied" if partial else ""
            if partial and set(fs_now) == set(fs0) and all(
                    fs_now[k][:2] == fs0[k][:2] for k in fs0):
                # everything was rolled back except executable bits: that
                # residue is _FileMover.rollback not undoing chmod (listed
                # under C13 as exec-bit-not-rolled-back), not a half-done
                # file-system phase
                residue = ":only-exec-bits-left-changed"
            if clash:
                # its own class: must not hide behind the listed F18 ones
                return violation(
                    "C14/apply-fails-on-unreported-name-clash-with-contentless"
                    "-versioned-entry:%s%s" % (type(e).__name__, residue),
                    [case, kinds, [list(c) for c in clash], str(e)[:300]])
            return violation(
                "C14/apply-raises-after-conflict-check:%s@%s%s" % (
                    type(e).__name__, names[-1], residue),
                [case, kinds, names[-4:], str(e)[:300]])
    finally:
        _fin(tt)
    fs1 = bz.snapshot_fs(path)
    lost = sorted(p for p, k in expected_new.items()
                  if p not in fs1 or fs1[p][0] != k)
    if lost and not git_dir_move:
        return violation("C14/new-content-missing-after-apply",
                         [case, kinds, lost, X.control_leftovers(path)])
    if clash:
        return violation(
            "C14/apply-accepts-unreported-name-clash-with-contentless-"
            "versioned-entry", [case, kinds, [list(c) for c in clash]])
    wt2 = bz.open_tree(path)
    try:
        av = P.tree_view(wt2, ids, ids)
    except OSError as e:
        # the applied working tree cannot even be listed
        if git_dir_move:
            return violation(GIT_DIR_MOVE, [case, kinds, "unreadable: " +
                                            str(e)[:200]])
        return violation(
            "C14/applied-tree-unreadable-after-apply:%s%s" % (
                type(e).__name__, ":git" if case["fmt"] == "git" else ""),
            [case, kinds, str(e)[:200]])
    found = compare(facts, pv, av, case["fmt"], git_dir_move, v0)
    moved_dir = any(c == "moved" and pv[p]["entry_kind"] == "directory" and
                    any(q.startswith(p + "/") for q in pv)
                    for p, c in classes.items())
    if moved_dir:
        label.append("moved-non-empty-directory")
    elif any(c == "moved" for c in classes.values()):
        label.append("moved")
    lab = "%s:%s" % (case["fmt"], "+".join(label[:2])) if label else None
    if found:
        sig, detail = pick(found)
        return violation(sig, [case, detail, len(found)], label=lab)
    if lab is None:
        return trivial()
    return ok(lab)


def _unchanged(case, path, fs0, v0, ids, what, kinds):
    fs1 = bz.snapshot_fs(path)
    if fs1 != fs0:
        return violation("C14/%s-but-files-changed" % what,
                         [case, kinds, X_diff(fs0, fs1)])
    v1 = P.tree_view(bz.open_tree(path), ids, ids)
    if v1 != v0:
        return violation("C14/%s-but-versioning-changed" % what,
                         [case, kinds])
    left = X.control_leftovers(path)
    if left:
        sig = "C14/%s-limbo-left-after-finalize" % what
        if case.get("fmt") == "git" and any(
                st[0] == "cancel_creation" for st in case.get("script", [])):
            # open finding, own class: a git transform in which the creation
            # of a new directory that holds other new entries was cancelled
            sig += ":git-cancel_creation"
        return violation(sig, [case, left])
    return ok("%s:%s:%s" % (case["fmt"], what, "+".join(kinds)[:60]))


def X_diff(a, b):
    return {k: [a.get(k), b.get(k)] for k in sorted(set(a) | set(b))
            if a.get(k) != b.get(k)}


# ------------------------------------------------------------------- kinds

def run_diff(case, env):
    def build(tt, wt, base):
        final = X.apply_xops(tm.clone(base), case["ops"])
        X.transform_from_diff(tt, base, final,
                              set_ids=wt.supports_setting_file_ids())
    return check_case(case, env, build)


def run_script(case, env):
    def build(tt, wt, base):
        P.Script(tt, wt.supports_setting_file_ids()).run(case["script"])
    return check_case(case, env, build)


def _draw_base(draw, m, ids, lo=4, hi=9):
    base = []
    kw = dict(odd_names=False, max_depth=2)
    for _ in range(draw(st.integers(lo, hi))):
        op = X.safe_op(m, tm.draw_op(
            draw, m, ids, kinds=["add", "add", "add", "add_dir"], **kw), True)
        if op is None:
            continue
        tm.apply_op(m, op)
        base.append(op)
    return base


@st.composite
def gen_diff(draw):
    fmt = draw(st.sampled_from(["2a", "2a", "git"]))
    ids = tm.IdSource()
    m = tm.new_model()
    base = _draw_base(draw, m, ids)
    ops = []
    for _ in range(draw(st.integers(1, 7))):
        if draw(st.integers(0, 3)) == 0:
            op = X.draw_xop(draw, m)
        else:
            op = tm.draw_op(draw, m, ids, odd_names=False, max_depth=2)
        if op is None:
            continue
        op = X.safe_op(m, op, True)
        if op is None:
            continue
        X.apply_xop(m, op)
        ops.append(op)
    return {"fmt": fmt, "base": base, "ops": ops}


NAMES = ["a", "b", "c", "n", "m"]


@st.composite
def gen_script(draw):
    fmt = draw(st.sampled_from(["2a", "2a", "git"]))
    ids = tm.IdSource()
    m = tm.new_model()
    base = _draw_base(draw, m, ids, 3, 8)
    snap = {p: v[0] for p, v in tm.snapshot(m).items()}
    extras = []
    if draw(st.booleans()):
        free = [n for n in ("u", "v") if n not in snap]
        extras = [[n, "extra\n"] for n in free[:draw(st.integers(1, 2))]]
    # shape B (below) may want its victim to be gone from disk before the
    # transform starts; a missing file the transform never touches is not
    # generated (previews omit it: reported, not part of this check)
    shape_b = draw(st.integers(0, 3)) == 0
    missing = []
    if shape_b and draw(st.integers(0, 2)) == 0:
        cands = sorted(p for p, k in snap.items() if k != "directory")
        if cands:
            missing = [draw(st.sampled_from(cands))]
    tr = P.Tracker(snap, {p: "file" for p, _ in extras}, missing)
    base_ids = sorted(f for f in m if f != tm.ROOT_ID)
    script = []
    nid = 0

    def emit(op):
        if tr.legal(op):
            tr.apply(op)
            script.append(op)
            return True
        return False

    def tree_dirs():
        return [list(r) for r in tr.refs() if r[0] == "t" and
                tr.s[r]["tree"] and tr.final_kind(r) == "directory"]

    if draw(st.integers(0, 3)) == 0:
        # shape A: new directories nested in new directories, a new entry in
        # the innermost; the entry is moved / renamed, then a directory it
        # was created in is (limbo bookkeeping of DiskTreeTransform)
        depth = draw(st.integers(2, 4))
        parent = draw(st.sampled_from([["r"]] + tree_dirs()))
        chain = []
        for i in range(depth):
            nid += 1
            fid = "n%d-id" % nid if draw(st.integers(0, 5)) else None
            emit(["new_dir", "x%d" % i, parent, fid])
            parent = ["n", tr.n - 1]
            chain.append(parent)
        nid += 1
        fid = "n%d-id" % nid if draw(st.integers(0, 5)) else None
        if draw(st.integers(0, 3)):
            emit(["new_file", "f0", parent, draw(tm.text_strategy()), fid,
                  None])
        else:
            emit(["new_dir", "f0", parent, fid])
        leaf = ["n", tr.n - 1]
        outside = [["r"]] + tree_dirs()

        def adjust_leaf(tag):
            if draw(st.booleans()):
                emit(["adjust", "y" + tag, None, leaf])
            else:
                dest = draw(st.sampled_from(outside + chain[:-1]))
                emit(["adjust", None, dest, leaf])

        def adjust_dir(tag):
            d = draw(st.sampled_from(chain[1:] + chain[-1:]))
            if draw(st.booleans()):
                emit(["adjust", "z" + tag, None, d])
            else:
                emit(["adjust", None, draw(st.sampled_from(outside)), d])

        adjust_leaf("1")
        adjust_dir("1")
        for j in range(draw(st.integers(0, 2))):
            if draw(st.booleans()):
                adjust_leaf(str(j + 2))
            else:
                adjust_dir(str(j + 2))

    if shape_b:
        # shape B: an entry with contents takes the name of an entry that is
        # versioned, has no contents and is known to the transform
        cands = [r for r in tr.refs() if r[0] == "t" and tr.s[r]["versioned"]
                 and tr.s[r]["tree"] and tr.s[r]["kind"] != "directory"]
        if missing:
            cands = [("t", missing[0])]
        if cands:
            v = draw(st.sampled_from(cands))
            e = tr.s[v]
            if e["kind"] is None:
                emit(["adjust", None, None, list(v)])     # make it known
            else:
                emit(["delete_contents", list(v)])
            how = draw(st.sampled_from(["new_file", "new_dir", "rename"]))
            nid += 1
            fid = "n%d-id" % nid if draw(st.booleans()) else None
            if how == "new_file":
                emit(["new_file", e["name"], list(e["parent"]),
                      draw(tm.text_strategy()), fid, None])
            elif how == "new_dir":
                emit(["new_dir", e["name"], list(e["parent"]), fid])
            else:
                others = [r for r in tr.refs() if r != v and r[0] == "t" and
                          tr.final_kind(r) is not None]
                if others:
                    emit(["adjust", e["name"], list(e["parent"]),
                          list(draw(st.sampled_from(others)))])

    def anyref():
        return list(draw(st.sampled_from([("r",)] + tr.refs())))

    if draw(st.integers(0, 2)) == 0:
        # a path that does not exist in the tree: entries put below it have
        # a 'missing parent' that only create_directory can repair
        tr.add_ghost("ghost")

    for _ in range(draw(st.integers(1, 12))):
        k = draw(st.sampled_from(
            ["new_file", "new_file", "new_dir", "new_symlink",
             "delete_contents", "delete_contents", "unversion",
             "delete_versioned", "adjust", "adjust", "adjust", "version",
             "cancel_creation", "cancel_deletion", "cancel_versioning",
             "set_exec", "create_file", "create_dir", "create_symlink"]))
        fid = None
        if k.startswith("new_") and draw(st.integers(0, 4)) != 0:
            nid += 1
            fid = "n%d-id" % nid
            if base_ids and draw(st.integers(0, 7)) == 0:
                # an id the tree already uses: 'duplicate id' (each one at
                # most once: version_file refuses an id twice per transform)
                fid = draw(st.sampled_from(base_ids))
                base_ids.remove(fid)
        if k == "new_file":
            ops = [["new_file", draw(st.sampled_from(NAMES)), anyref(),
                    draw(tm.text_strategy()), fid,
                    draw(st.sampled_from([None, True, False]))]]
        elif k == "new_dir":
            ops = [["new_dir", draw(st.sampled_from(NAMES)), anyref(), fid]]
        elif k == "new_symlink":
            ops = [["new_symlink", draw(st.sampled_from(NAMES)), anyref(),
                    "nowhere", fid]]
        elif k == "delete_versioned":
            r = anyref()
            ops = [["delete_contents", r], ["unversion", r]]
        elif k == "adjust":
            r = anyref()
            name = draw(st.sampled_from([None] + NAMES))
            parent = draw(st.sampled_from([None, None] + [
                list(x) for x in [("r",)] + tr.refs()]))
            if parent is not None and r[0] == "n" and parent[0] == "n" and \
                    draw(st.integers(0, 9)) != 0:
                # new entry below a new entry: mostly avoided here (loops of
                # new directories crash in the limbo bookkeeping, listed
                # finding); shape A covers the well-formed part
                parent = None
            ops = [["adjust", name, parent, r]]
        elif k == "version":
            nid += 1
            vid = "n%d-id" % nid
            if base_ids and draw(st.integers(0, 7)) == 0:
                vid = draw(st.sampled_from(base_ids))
                base_ids.remove(vid)
            ops = [["version", anyref(), vid]]
        elif k == "set_exec":
            ops = [["set_exec", draw(st.booleans()), anyref()]]
        elif k == "create_file":
            ops = [["create_file", anyref(), draw(tm.text_strategy())]]
        elif k == "create_symlink":
            ops = [["create_symlink", anyref(), "nowhere"]]
        else:
            ops = [[{"create_dir": "create_dir"}.get(k, k), anyref()]]
        for op in ops:
            if tr.legal(op):
                tr.apply(op)
                script.append(op)
    return {"fmt": fmt, "base": base, "extras": extras, "missing": missing,
            "script": script}


def enum_symlink_dir(tier):
    base = [["add", "d-id", "root-id", "d", "directory", None, False],
            ["add", "f-id", "d-id", "f", "file", "f\n", False],
            ["add", "s-id", "root-id", "s", "symlink", "d", False]]
    for ops in ([["add", "n-id", "root-id", "n", "file", "x\n", False]],
                [["modify", "f-id", "changed\n"]],
                [["rename", "f-id", "root-id", "g"]]):
        yield {"fmt": "2a", "base": base, "ops": ops}


def kinds(tier):
    return [
        Kind("symlink-to-directory", run_diff, enumerate=enum_symlink_dir,
             hash_cases=False),
        Kind("diff-transforms", run_diff, strategy=gen_diff(),
             examples={"quick": 1000, "thorough": 15000}),
        Kind("raw-scripts", run_script, strategy=gen_script(),
             examples={"quick": 1400, "thorough": 15000}),
    ]
