"""C22 - revision numbers and revision specifiers resolve consistently."""

from hypothesis import strategies as st

from vf.api import Kind, check, ok, trivial
from vf.lib import bz, graphmodel as gm, history

PROPERTY = "C22"
LEVEL = "exploration"
TECHNIQUE = ("Hypothesis-generated revision DAGs built on real 2a/pack-0.92 "
             "branches; reference graph model (own left-hand history, ancestry, "
             "LCA code) as oracle for revno / dotted-revno maps and every "
             "revision specifier; queries repeated on a long-lived object "
             "across a tip move (cache consistency) and on fresh objects")
RULE = ("history_spec DAGs of 2-16 revisions (merges of merges, ghost parents, "
        "tags) built with BranchBuilder; a generated tip, a second tip the "
        "branch is moved to while locked, and a related branch for ancestor:. "
        "Non-trivial: the tip's ancestry contains a merge whose merged side "
        "itself contains a merge (nested) or at least one merge, and "
        "non-mainline revisions are queried. Distinct by case hash (DAG, tips, "
        "tags, query rotation).")
ASSUMPTIONS = [
    "the dotted-revno numbering scheme itself comes from vcsgraph.merge_sort "
    "(trusted base): only bijection, inverse and agreement between breezy's "
    "code paths are asserted",
    "date: specifiers are excluded (local-time dependent)",
]
LEVEL_TEXT = ("Sampled exploration against an independent reference model: every "
              "generated DAG is built on a real branch and every revno / dotted "
              "revno / specifier query over all of its revisions is compared with "
              "the model, on a long-lived object before and after the tip moves "
              "and on a fresh object.")
LEVEL_NOTE = ("Histories are bounded to 16 revisions and 3 parents; vcsgraph's "
              "merge_sort numbering is trusted; RemoteBranch is not covered here "
              "(C32 compares remote with local).")
REGISTERED = True
NONTRIVIAL_FLOOR = {"quick": 30, "thorough": 300}


class _Both:
    """A specifier resolved through both public code paths: as_revision_id()
    and in_history().rev_id must name the same revision."""

    def __init__(self, s):
        from breezy import revisionspec
        self.s = s
        self.spec = revisionspec.RevisionSpec.from_string(s)

    def as_revision_id(self, br):
        a = self.spec.as_revision_id(br)
        from breezy import revisionspec
        b = revisionspec.RevisionSpec.from_string(self.s).in_history(br).rev_id
        check(a == b, "C22/as_revision_id-and-in_history-disagree",
              [self.s, a, b])
        return a

    def in_history(self, br):
        return self.spec.in_history(br)


def _spec(s):
    return _Both(s)


def _expect_invalid(fn, sig, detail):
    from breezy.revisionspec import InvalidRevisionSpec
    try:
        got = fn()
    except InvalidRevisionSpec:
        return
    check(False, sig, [detail, repr(got)])


def check_branch(br, g, tip, tags, other_path, other_tip, rot):
    """All queries against `br` (locked by the caller) whose tip is `tip`."""
    from breezy import errors
    full = g                                   # with ghost parents
    lh = gm.lefthand(full, tip)
    anc = gm.ancestry(full, tip)
    e = bz.enc
    # --- last_revision_info / get_rev_id / revision_id_to_revno
    revno, last = br.last_revision_info()
    check(last == e(tip) and revno == len(lh), "C22/last-revision-info",
          [tip, revno, len(lh)])
    check(br.get_rev_id(0) == b"null:", "C22/get_rev_id-0", None)
    order = list(range(1, len(lh) + 1))
    order = order[rot % len(order):] + order[:rot % len(order)]
    for n in order:
        got = br.get_rev_id(n)
        check(got == e(lh[n - 1]), "C22/get_rev_id", [tip, n, got, lh[n - 1]])
        got = br.revision_id_to_revno(e(lh[n - 1]))
        check(got == n, "C22/revision_id_to_revno", [tip, lh[n - 1], got, n])
    try:
        got = br.get_rev_id(len(lh) + 1)
        check(False, "C22/get_rev_id-out-of-range-accepted", [tip, got])
    except (errors.NoSuchRevision, errors.RevnoOutOfBounds):
        pass
    for r in sorted(set(g) - set(lh)):
        try:
            got = br.revision_id_to_revno(e(r))
            check(False, "C22/revno-for-non-mainline-revision", [tip, r, got])
        except errors.NoSuchRevision:
            pass
    # --- dotted revno map
    m = br.get_revision_id_to_revno_map()
    keys = {k.decode() for k in m}
    check(keys == anc, "C22/revno-map-keys-differ-from-ancestry",
          [tip, sorted(keys ^ anc)])
    check(len(set(m.values())) == len(m), "C22/revno-map-not-injective",
          [tip, sorted((k.decode(), v) for k, v in m.items())])
    for r in sorted(anc):
        dr = m[e(r)]
        if r in lh:
            check(dr == (lh.index(r) + 1,), "C22/mainline-dotted-revno",
                  [tip, r, dr])
        else:
            check(len(dr) == 3, "C22/merged-revision-revno-shape", [tip, r, dr])
    ranc = sorted(anc)
    ranc = ranc[rot % len(ranc):] + ranc[:rot % len(ranc)]
    for r in ranc:
        dr = m[e(r)]
        got = br.dotted_revno_to_revision_id(dr)
        check(got == e(r), "C22/dotted_revno_to_revision_id", [tip, r, dr, got])
        got = br.revision_id_to_dotted_revno(e(r))
        check(got == dr, "C22/revision_id_to_dotted_revno", [tip, r, dr, got])
    for r in sorted(set(g) - anc):
        try:
            got = br.revision_id_to_dotted_revno(e(r))
            check(False, "C22/dotted-revno-for-revision-outside-ancestry",
                  [tip, r, got])
        except errors.NoSuchRevision:
            pass
    # --- iter_merge_sorted_revisions, both directions
    views = {}
    for direction in ("reverse", "forward"):
        seq = [(rid.decode(), rn, depth) for rid, depth, rn, _eom in
               br.iter_merge_sorted_revisions(direction=direction)]
        check(len(seq) == len(set(x[0] for x in seq)),
              "C22/merge-sorted-duplicates", [tip, direction, seq])
        views[direction] = seq
        for rid, rn, depth in seq:
            check(m.get(e(rid)) == tuple(rn), "C22/merge-sorted-revno-differs",
                  [tip, direction, rid, rn, m.get(e(rid))])
            check((depth == 0) == (rid in lh), "C22/merge-sorted-depth",
                  [tip, direction, rid, depth])
    check(sorted(views["reverse"]) == sorted(views["forward"]),
          "C22/merge-sorted-directions-differ", [tip, views])
    check({x[0] for x in views["reverse"]} == anc,
          "C22/merge-sorted-not-ancestry", [tip])
    # --- specifiers
    for n in order:
        r = lh[n - 1]
        for s in (str(n), "revno:%d" % n, "-%d" % (len(lh) - n + 1),
                  "last:%d" % (len(lh) - n + 1)):
            got = _spec(s).as_revision_id(br)
            check(got == e(r), "C22/spec-revno", [tip, s, got, r])
        info = _spec(str(n)).in_history(br)
        check(info.revno == n and info.rev_id == e(r), "C22/spec-in_history",
              [tip, n, info.revno, info.rev_id])
    got = _spec("-%d" % (len(lh) + 5)).as_revision_id(br)
    check(got == e(lh[0]), "C22/spec-negative-beyond-history", [tip, got])
    _expect_invalid(lambda: _spec(str(len(lh) + 1)).as_revision_id(br),
                    "C22/spec-out-of-range-accepted", [tip, len(lh) + 1])
    _expect_invalid(lambda: _spec("last:%d" % (len(lh) + 2)).as_revision_id(br),
                    "C22/spec-last-out-of-range-accepted", [tip])
    for r in ranc:
        got = _spec("revid:" + r).as_revision_id(br)
        check(got == e(r), "C22/spec-revid", [tip, r, got])
        dr = ".".join(str(x) for x in m[e(r)])
        got = _spec(dr).as_revision_id(br)
        check(got == e(r), "C22/spec-dotted", [tip, dr, got, r])
        # before: -> left-hand parent (null: when there is none)
        ps = full[r]
        want = e(ps[0]) if ps else b"null:"
        for s in ("before:revid:" + r, "before:" + dr):
            got = _spec(s).as_revision_id(br)
            check(got == want, "C22/spec-before", [tip, s, got, want])
        # mainline: -> oldest mainline revision whose ancestry contains r
        want = next(x for x in lh if r in gm.ancestry(full, x))
        got = _spec("mainline:revid:" + r).as_revision_id(br)
        check(got == e(want), "C22/spec-mainline", [tip, r, got, want])
    _expect_invalid(lambda: _spec("before:0").as_revision_id(br),
                    "C22/spec-before-null-accepted", [tip])
    for t, r in sorted(tags.items()):
        got = _spec("tag:" + t).as_revision_id(br)
        check(got == e(r), "C22/spec-tag", [tip, t, got, r])
    try:
        got = _spec("tag:no-such-tag").as_revision_id(br)
        check(False, "C22/spec-unknown-tag-accepted", [tip, got])
    except errors.NoSuchTag:
        pass
    # ancestor:PATH
    common = gm.ancestry(full, tip) & gm.ancestry(full, other_tip)
    try:
        got = _spec("ancestor:" + other_path).as_revision_id(br)
    except errors.NoCommonAncestor:
        check(not common, "C22/spec-ancestor-refused-with-common-ancestry",
              [tip, other_tip, sorted(common)])
    else:
        check(got.decode() in common, "C22/spec-ancestor-not-common",
              [tip, other_tip, got])
        mx = gm.heads(full, sorted(common))
        if len(mx) == 1:
            check(got == e(mx[0]), "C22/spec-ancestor-not-the-unique-lca",
                  [tip, other_tip, got, mx])


def nontrivial_label(g, tip):
    anc = gm.ancestry(g, tip)
    merges = [r for r in anc if len([p for p in g[r] if p in g]) > 1]
    if not merges:
        return None
    for r in merges:
        for p in g[r][1:]:
            if p in g and any(len([q for q in g[x] if q in g]) > 1
                              for x in gm.ancestry(g, p)):
                return "nested-merge"
    return "merge"


def run(case, env):
    from breezy import branch as _branch
    spec = case["spec"]
    d = env.newdir()
    br = bz.init_branch(d + "/b", case["format"])
    history.build_bb(spec, br)
    g = history.graph_of(spec)
    tip, tip2, other_tip = case["tip"], case["tip2"], case["other"]
    history.set_tip(br, spec, tip)
    tags = case["tags"]
    for t, r in tags.items():
        br.tags.set_tag(t, bz.enc(r))
    # a related branch for ancestor:
    ob = br.controldir.sprout(d + "/o", revision_id=bz.enc(other_tip)
                              ).open_branch()
    check(ob.last_revision() == bz.enc(other_tip), "C22/sprout-tip", None)
    rot = case["rot"]
    # 1. long-lived write-locked object: before and after the tip moves
    live = _branch.Branch.open(d + "/b")
    with live.lock_write():
        check_branch(live, g, tip, tags, d + "/o", other_tip, rot)
        lh2 = gm.lefthand(g, tip2)
        # hooks that read the numbering while the tip is being changed (as
        # plugins do) must not leave caches of the old tip behind
        seen = []

        def reading_hook(params):
            b = params.branch
            seen.append(len(b.get_revision_id_to_revno_map()))
            b.revision_id_to_dotted_revno(b.last_revision())
            list(b.iter_merge_sorted_revisions())
            b.get_rev_id(1)
        names = ["pre_change_branch_tip", "post_change_branch_tip"]
        pick = names if case["rot"] % 3 == 0 else names[:case["rot"] % 3 - 1]
        for hn in pick:
            _branch.Branch.hooks.install_named_hook(hn, reading_hook, "vf-c22")
        try:
            live.set_last_revision_info(len(lh2), bz.enc(tip2))
        finally:
            for hn in pick:
                _branch.Branch.hooks.uninstall_named_hook(hn, "vf-c22")
        check_branch(live, g, tip2, tags, d + "/o", other_tip, rot + 1)
    # 2. a fresh object under a read lock
    fresh = _branch.Branch.open(d + "/b")
    with fresh.lock_read():
        check_branch(fresh, g, tip2, tags, d + "/o", other_tip, rot + 2)
    # 3. fresh object, no explicit lock (each call locks for itself)
    fresh = _branch.Branch.open(d + "/b")
    lh2 = gm.lefthand(g, tip2)
    for n in range(1, len(lh2) + 1):
        check(fresh.get_rev_id(n) == bz.enc(lh2[n - 1]),
              "C22/get_rev_id-unlocked", [tip2, n])
    la = nontrivial_label(g, tip) or nontrivial_label(g, tip2)
    if la is None:
        return trivial()
    return ok(la)


@st.composite
def cases(draw, n_max=12):
    spec = draw(history.history_spec(
        n_min=2, n_max=n_max, merges=True, ghosts=True, bb_safe=True,
        ops_max=1, base_max=1, tags=False))
    ids = [r["id"] for r in spec["revs"]]
    late = ids[len(ids) // 2:]
    tip = draw(st.sampled_from(late))
    tip2 = draw(st.sampled_from(ids))
    other = draw(st.sampled_from(ids))
    names = draw(st.lists(st.sampled_from(["t1", "rel-1.0", "ü", "a b"]),
                          unique=True, max_size=3))
    tags = {t: draw(st.sampled_from(ids)) for t in names}
    return {"spec": spec, "format": draw(st.sampled_from(["2a", "2a",
                                                          "pack-0.92"])),
            "tip": tip, "tip2": tip2, "other": other, "tags": tags,
            "rot": draw(st.integers(0, 7))}


def kinds(tier):
    return [
        Kind("dag-queries", run,
             strategy=cases(n_max=12 if tier == "quick" else 16),
             examples={"quick": 320, "thorough": 12000}),
    ]
