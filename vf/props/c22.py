"""C22 - revision numbers and revision specifiers resolve consistently."""

import os

from hypothesis import strategies as st

from vf.api import Kind, check, ok, trivial
from vf.lib import bz, graphmodel as gm, history

PROPERTY = "C22"
LEVEL = "exploration"
TECHNIQUE = ("Hypothesis-generated revision DAGs built on real 2a/pack-0.92 "
             "branches; reference graph model (own left-hand history, ancestry, "
             "LCA code) as oracle for revno / dotted-revno maps and every "
             "revision specifier; queries repeated on a long-lived object "
             "across a tip move (cache consistency) and on fresh objects")
RULE = ("history_spec DAGs of 2-16 revisions (merges of merges, ghost parents, "
        "tags) built with BranchBuilder; a generated tip, a second tip the "
        "branch is moved to while locked, and a related branch for ancestor: / "
        "revno:N:PATH. The query groups (revnos, dotted map, merge-sorted "
        "walks with start / stop, specifiers) run in a generated order on "
        "each object, followed by a second pass over the warm caches. Kind "
        "git-dag: the same on a git branch (the generic Branch.get_rev_id / "
        "revision_id_to_revno); kind remote-dag: on a RemoteBranch through an "
        "in-process smart server. "
        "Non-trivial: the tip's ancestry contains a merge whose merged side "
        "itself contains a merge (nested) or at least one merge, and "
        "non-mainline revisions are queried. Distinct by case hash (DAG, tips, "
        "tags, query rotation).")
ASSUMPTIONS = [
    "the dotted-revno numbering scheme itself comes from vcsgraph.merge_sort "
    "(trusted base): only bijection, inverse and agreement between breezy's "
    "code paths are asserted",
    "date: specifiers are excluded (local-time dependent)",
    "iter_merge_sorted_revisions with start / stop: the documented rules "
    "(start is the first item and only its ancestry follows; exclude / include "
    "end before / at the stop revision, any revision of the walk; with-merges "
    "ends at the stop revision's left-hand parent and without-common-ancestry "
    "removes the stop revision's ancestry, for stop revisions on the mainline)",
]
LEVEL_TEXT = ("Sampled exploration against an independent reference model: every "
              "generated DAG is built on a real branch and every revno / dotted "
              "revno / specifier query over all of its revisions is compared with "
              "the model, on a long-lived object before and after the tip moves "
              "and on a fresh object, with cold and warm caches.")
LEVEL_NOTE = ("Histories are bounded to 16 revisions and 3 parents; vcsgraph's "
              "merge_sort numbering is trusted; bzr (2a, pack-0.92), git and "
              "RemoteBranch objects.")
REGISTERED = True
NONTRIVIAL_FLOOR = {"quick": 30, "thorough": 300}

NULL = b"null:"
AUTO = object()


class Ctx:
    """What one round of queries against one branch object needs."""

    def __init__(self, br, g, tip, tags, other_path, other_tip, rot, m,
                 can_write, extras=False):
        self.extras = extras
        self.br, self.g, self.tip, self.tags = br, g, tip, tags
        self.other_path, self.other_tip, self.rot = other_path, other_tip, rot
        self.m = m                       # reference revno map (fresh object)
        self.can_write = can_write
        self.lh = gm.lefthand(g, tip)
        self.anc = gm.ancestry(g, tip)
        order = list(range(1, len(self.lh) + 1))
        self.order = order[rot % len(order):] + order[:rot % len(order)]
        ranc = sorted(self.anc)
        self.ranc = ranc[rot % len(ranc):] + ranc[:rot % len(ranc)]

    def revno_of(self, rid):
        """RevisionInfo.revno: the mainline number, 0 for null:, else None."""
        if rid == NULL:
            return 0
        r = rid.decode()
        return self.lh.index(r) + 1 if r in self.lh else None

    def resolve(self, s, want, sig, want_revno=AUTO):
        """A specifier resolved through both public code paths
        (as_revision_id() and in_history()) names `want`."""
        from breezy import revisionspec
        a = revisionspec.RevisionSpec.from_string(s).as_revision_id(self.br)
        info = revisionspec.RevisionSpec.from_string(s).in_history(self.br)
        check(a == info.rev_id, "C22/as_revision_id-and-in_history-disagree",
              [s, a, info.rev_id])
        check(a == want, sig, [self.tip, s, a, want])
        if want_revno is AUTO:
            want_revno = self.revno_of(want)
        check(info.revno == want_revno, "C22/spec-in_history-revno",
              [self.tip, s, info.revno, want_revno])
        check(info[0] == want_revno and info[1] == want,
              "C22/spec-in_history-tuple-form", [self.tip, s])

    def invalid(self, s, sig):
        from breezy import revisionspec
        for how in ("as_revision_id", "in_history"):
            spec = revisionspec.RevisionSpec.from_string(s)
            try:
                got = getattr(spec, how)(self.br)
            except revisionspec.InvalidRevisionSpec:
                continue
            check(False, sig, [self.tip, s, how, repr(got)])


def sec_basic(c):
    from breezy import errors
    br, lh, e = c.br, c.lh, bz.enc
    revno, last = br.last_revision_info()
    check(last == e(c.tip) and revno == len(lh), "C22/last-revision-info",
          [c.tip, revno, len(lh)])
    check(br.revno() == len(lh) and br.last_revision() == e(c.tip),
          "C22/last-revision-info", [c.tip, "revno()/last_revision()"])
    check(br.get_rev_id(0) == NULL, "C22/get_rev_id-0", None)
    check(br.revision_id_to_revno(NULL) == 0, "C22/revno-of-null", None)
    for n in c.order:
        got = br.get_rev_id(n)
        check(got == e(lh[n - 1]), "C22/get_rev_id", [c.tip, n, got, lh[n - 1]])
        got = br.revision_id_to_revno(e(lh[n - 1]))
        check(got == n, "C22/revision_id_to_revno", [c.tip, lh[n - 1], got, n])
    for bad in (len(lh) + 1, len(lh) + 7, -1):
        try:
            got = br.get_rev_id(bad)
            check(False, "C22/get_rev_id-out-of-range-accepted",
                  [c.tip, bad, got])
        except (errors.NoSuchRevision, errors.RevnoOutOfBounds):
            pass
    for r in sorted(set(c.g) - set(lh)):
        try:
            got = br.revision_id_to_revno(e(r))
            check(False, "C22/revno-for-non-mainline-revision", [c.tip, r, got])
        except errors.NoSuchRevision:
            pass


def sec_map(c):
    from breezy import errors
    br, lh, anc, e, tip = c.br, c.lh, c.anc, bz.enc, c.tip
    m = br.get_revision_id_to_revno_map()
    keys = {k.decode() for k in m}
    check(keys == anc, "C22/revno-map-keys-differ-from-ancestry",
          [tip, sorted(keys ^ anc)])
    check(len(set(m.values())) == len(m), "C22/revno-map-not-injective",
          [tip, sorted((k.decode(), v) for k, v in m.items())])
    check(dict(m) == c.m, "C22/revno-map-differs-from-a-fresh-object's",
          [tip, sorted((k.decode(), v, c.m.get(k)) for k, v in m.items()
                       if c.m.get(k) != v)])
    for r in sorted(anc):
        dr = m[e(r)]
        if r in lh:
            check(dr == (lh.index(r) + 1,), "C22/mainline-dotted-revno",
                  [tip, r, dr])
        else:
            check(len(dr) == 3, "C22/merged-revision-revno-shape", [tip, r, dr])
    for r in c.ranc:
        dr = m[e(r)]
        got = br.dotted_revno_to_revision_id(dr)
        check(got == e(r), "C22/dotted_revno_to_revision_id", [tip, r, dr, got])
        got = br.revision_id_to_dotted_revno(e(r))
        check(got == dr, "C22/revision_id_to_dotted_revno", [tip, r, dr, got])
    for r in sorted(set(c.g) - anc):
        try:
            got = br.revision_id_to_dotted_revno(e(r))
            check(False, "C22/dotted-revno-for-revision-outside-ancestry",
                  [tip, r, got])
        except errors.NoSuchRevision:
            pass
    used = set(m.values())
    for dr in ((1, 1, 99), (len(lh), 9, 1), (len(lh) + 1,), (1, 1)):
        if dr in used:
            continue
        try:
            got = br.dotted_revno_to_revision_id(dr)
            check(False, "C22/unused-dotted-revno-accepted", [tip, dr, got])
        except (errors.NoSuchRevision, errors.RevnoOutOfBounds):
            pass


def sec_msort(c):
    br, lh, anc, e, tip, g = c.br, c.lh, c.anc, bz.enc, c.tip, c.g
    views = {}
    for direction in ("reverse", "forward"):
        seq = [(rid.decode(), tuple(rn), depth, eom) for rid, depth, rn, eom in
               br.iter_merge_sorted_revisions(direction=direction)]
        check(len(seq) == len(set(x[0] for x in seq)),
              "C22/merge-sorted-duplicates", [tip, direction, seq])
        views[direction] = seq
        for rid, rn, depth, _eom in seq:
            check(c.m.get(e(rid)) == rn, "C22/merge-sorted-revno-differs",
                  [tip, direction, rid, rn, c.m.get(e(rid))])
            check((depth == 0) == (rid in lh), "C22/merge-sorted-depth",
                  [tip, direction, rid, depth])
    check(views["reverse"] == views["forward"][::-1],
          "C22/merge-sorted-directions-differ", [tip, views])
    check({x[0] for x in views["reverse"]} == anc,
          "C22/merge-sorted-not-ancestry", [tip])
    full = views["reverse"]
    pos = {x[0]: i for i, x in enumerate(full)}

    def walk(**kw):
        kw = {k: (e(v) if k.endswith("_id") and v is not None else v)
              for k, v in kw.items()}
        seq = [(rid.decode(), tuple(rn), depth, eom) for rid, depth, rn, eom in
               br.iter_merge_sorted_revisions(**kw)]
        for x in seq:
            check(x[0] in pos and full[pos[x[0]]][:3] == x[:3],
                  "C22/merge-sorted-walk-disagrees-with-the-full-listing",
                  [tip, kw, x])
        idx = [pos[x[0]] for x in seq]
        check(idx == sorted(set(idx)),
              "C22/merge-sorted-walk-not-a-subsequence", [tip, kw, seq])
        return [x[0] for x in seq]

    # start revisions: it comes first, exactly its ancestry follows
    picks = [c.ranc[0], c.ranc[len(c.ranc) // 2]]
    for s in dict.fromkeys(picks):
        base = walk(start_revision_id=s)
        check(base[:1] == [s] and set(base) == gm.ancestry(g, s),
              "C22/merge-sorted-start-not-its-ancestry",
              [tip, s, base, sorted(gm.ancestry(g, s))])
        # any revision of the walk as stop revision (the two "with-merges"
        # rules below are only defined for mainline stops)
        stop = base[(c.rot * 7 + len(base) // 2) % len(base)]
        i = base.index(stop)
        got = walk(start_revision_id=s, stop_revision_id=stop,
                   stop_rule="exclude")
        check(got == base[:i], "C22/merge-sorted-stop-exclude",
              [tip, s, stop, got, base])
        got = walk(start_revision_id=s, stop_revision_id=stop,
                   stop_rule="include")
        check(got == base[:i + 1], "C22/merge-sorted-stop-include",
              [tip, s, stop, got, base])
    # mainline start and stop: the two "with merges" rules
    s = lh[len(lh) - 1 - c.rot % len(lh)]
    slh = gm.lefthand(g, s)
    stop = slh[(c.rot // 2) % len(slh)]
    below = gm.ancestry(g, g[stop][0]) if g[stop] and g[stop][0] in g else set()
    got = walk(start_revision_id=s, stop_revision_id=stop,
               stop_rule="with-merges")
    check(set(got) == gm.ancestry(g, s) - below and len(got) == len(set(got)),
          "C22/merge-sorted-stop-with-merges",
          [tip, s, stop, got, sorted(gm.ancestry(g, s) - below)])
    if stop != s:
        got = walk(start_revision_id=s, stop_revision_id=stop,
                   stop_rule="with-merges-without-common-ancestry")
        want = gm.ancestry(g, s) - gm.ancestry(g, stop)
        check(set(got) == want and len(got) == len(set(got)),
              "C22/merge-sorted-stop-without-common-ancestry",
              [tip, s, stop, got, sorted(want)])


def sec_specs(c):
    from breezy import errors
    br, lh, anc, e, tip, g = c.br, c.lh, c.anc, bz.enc, c.tip, c.g
    for n in c.order:
        r = lh[n - 1]
        for s in (str(n), "revno:%d" % n, "-%d" % (len(lh) - n + 1),
                  "revno:-%d" % (len(lh) - n + 1),
                  "last:%d" % (len(lh) - n + 1)):
            c.resolve(s, e(r), "C22/spec-revno", n)
    c.resolve("last:", e(tip), "C22/spec-last-empty", len(lh))
    c.resolve("0", NULL, "C22/spec-revno-zero", 0)
    c.resolve("-%d" % (len(lh) + 5), e(lh[0]),
              "C22/spec-negative-beyond-history", 1)
    c.invalid(str(len(lh) + 1), "C22/spec-out-of-range-accepted")
    c.invalid("last:%d" % (len(lh) + 2), "C22/spec-last-out-of-range-accepted")
    c.invalid("last:0", "C22/spec-last-zero-accepted")
    c.invalid("%d.1.99" % len(lh), "C22/spec-unused-dotted-revno-accepted")
    for r in c.ranc:
        c.resolve("revid:" + r, e(r), "C22/spec-revid")
        dr = ".".join(str(x) for x in c.m[e(r)])
        c.resolve(dr, e(r), "C22/spec-dotted")
        c.resolve("revno:" + dr, e(r), "C22/spec-dotted")
        # before: -> left-hand parent (null: when there is none)
        ps = g[r]
        want = e(ps[0]) if ps else NULL
        for s in ("before:revid:" + r, "before:" + dr):
            c.resolve(s, want, "C22/spec-before")
        if ps and ps[0] in g:
            pps = g[ps[0]]
            c.resolve("before:before:revid:" + r, e(pps[0]) if pps else NULL,
                      "C22/spec-before-before")
        # mainline: -> oldest mainline revision whose ancestry contains r
        want = next(x for x in lh if r in gm.ancestry(g, x))
        for s in ("mainline:revid:" + r, "mainline:" + dr):
            c.resolve(s, e(want), "C22/spec-mainline")
    c.resolve("before:last:1", e(g[tip][0]) if g[tip] else NULL,
              "C22/spec-before")
    c.invalid("before:0", "C22/spec-before-null-accepted")
    c.invalid("before:revid:null:", "C22/spec-before-null-accepted")
    for r in sorted(set(g) - anc):
        # revisions of the repository outside this branch's ancestry
        c.resolve("revid:" + r, e(r), "C22/spec-revid-outside-ancestry")
        ps = g[r]
        c.resolve("before:revid:" + r, e(ps[0]) if ps else NULL,
                  "C22/spec-before-outside-ancestry")
        c.invalid("mainline:revid:" + r, "C22/spec-mainline-of-unmerged-accepted")
    for t, r in sorted(c.tags.items()):
        c.resolve("tag:" + t, e(r), "C22/spec-tag")
        ps = g[r]
        c.resolve("before:tag:" + t, e(ps[0]) if ps else NULL,
                  "C22/spec-before")
    from breezy import revisionspec
    try:
        got = revisionspec.RevisionSpec.from_string(
            "tag:no-such-tag").as_revision_id(br)
        check(False, "C22/spec-unknown-tag-accepted", [tip, got])
    except errors.NoSuchTag:
        pass
    c.invalid("revno:", "C22/spec-empty-revno-accepted")
    c.invalid("revno:1.x", "C22/spec-malformed-dotted-revno-accepted")
    if c.extras:
        sec_other_branch(c)
    # ancestor:PATH
    from breezy import revisionspec
    common = gm.ancestry(g, tip) & gm.ancestry(g, c.other_tip)
    try:
        got = revisionspec.RevisionSpec.from_string(
            "ancestor:" + c.other_path).as_revision_id(br)
    except errors.NoCommonAncestor:
        check(not common, "C22/spec-ancestor-refused-with-common-ancestry",
              [tip, c.other_tip, sorted(common)])
    else:
        check(got.decode() in common, "C22/spec-ancestor-not-common",
              [tip, c.other_tip, got])
        mx = gm.heads(g, sorted(common))
        if len(mx) == 1:
            check(got == e(mx[0]), "C22/spec-ancestor-not-the-unique-lca",
                  [tip, c.other_tip, got, mx])
        c.resolve("ancestor:" + c.other_path, got, "C22/spec-ancestor")


def sec_other_branch(c):
    """Specifiers that name a revision through the other branch (each opens
    it: done on two of the three objects of a case)."""
    br, lh, anc, e, tip, g = c.br, c.lh, c.anc, bz.enc, c.tip, c.g
    # numbers in another branch: revno:N:PATH, -N:PATH
    olh = gm.lefthand(g, c.other_tip)
    # preferably a number that names different revisions in the two branches
    differ = [i for i in range(1, len(olh) + 1)
              if i > len(lh) or lh[i - 1] != olh[i - 1]]
    n = differ[c.rot % len(differ)] if differ else 1 + c.rot % len(olh)
    for s, i in (("revno:%d:%s" % (n, c.other_path), n),
                 ("%d:%s" % (n, c.other_path), n),
                 ("-1:%s" % c.other_path, len(olh)),
                 ("revno:-%d:%s" % (len(olh) + 3, c.other_path), 1)):
        c.resolve(s, e(olh[i - 1]), "C22/spec-revno-in-another-branch", i)
    c.invalid("revno:%d:%s" % (len(olh) + 1, c.other_path),
              "C22/spec-out-of-range-accepted")
    # mainline: of a revision named in the other branch
    s = "mainline:revno:%d:%s" % (n, c.other_path)
    if olh[n - 1] in anc:
        want = next(x for x in lh if olh[n - 1] in gm.ancestry(g, x))
        c.resolve(s, e(want), "C22/spec-mainline")
    else:
        c.invalid(s, "C22/spec-mainline-of-unmerged-accepted")
    if c.can_write:
        # branch:PATH names the other branch's tip (and fetches it)
        c.resolve("branch:" + c.other_path, e(c.other_tip), "C22/spec-branch")


def sec_requery(c):
    """Second pass over the now warm caches of the same object."""
    br, lh, e = c.br, c.lh, bz.enc
    for r in c.ranc:
        got = br.revision_id_to_dotted_revno(e(r))
        check(got == c.m[e(r)], "C22/revision_id_to_dotted_revno-second-call",
              [c.tip, r, got, c.m[e(r)]])
        got = br.dotted_revno_to_revision_id(c.m[e(r)])
        check(got == e(r), "C22/dotted_revno_to_revision_id-second-call",
              [c.tip, r, got])
    for n in c.order[::-1]:
        check(br.get_rev_id(n) == e(lh[n - 1]), "C22/get_rev_id-second-call",
              [c.tip, n])
        check(br.revision_id_to_revno(e(lh[n - 1])) == n,
              "C22/revision_id_to_revno-second-call", [c.tip, n])
    check(br.last_revision_info() == (len(lh), e(c.tip)),
          "C22/last-revision-info", [c.tip, "second call"])


SECTIONS = [sec_basic, sec_map, sec_msort, sec_specs]


def ref_map(path):
    """The revno map as a fresh object of the same branch computes it."""
    from breezy import branch as _branch
    b = _branch.Branch.open(path)
    with b.lock_read():
        return dict(b.get_revision_id_to_revno_map())


def check_branch(br, path, g, tip, tags, other_path, other_tip, rot,
                 can_write=False, extras=False):
    """All queries against `br` (locked by the caller) whose tip is `tip`."""
    c = Ctx(br, g, tip, tags, other_path, other_tip, rot, ref_map(path),
            can_write, extras)
    secs = SECTIONS[rot % 4:] + SECTIONS[:rot % 4]
    for sec in secs:
        sec(c)
    sec_requery(c)


def nontrivial_label(g, tip):
    anc = gm.ancestry(g, tip)
    merges = [r for r in anc if len([p for p in g[r] if p in g]) > 1]
    if not merges:
        return None
    for r in merges:
        for p in g[r][1:]:
            if p in g and any(len([q for q in g[x] if q in g]) > 1
                              for x in gm.ancestry(g, p)):
                return "nested-merge"
    return "merge"


def exercise(path, opath, g, tip, tip2, other_tip, tags, rot, open_path=None):
    """The three phases on the branch at `path` (opened as `open_path`)."""
    from breezy import branch as _branch
    open_path = open_path or path
    # 1. long-lived write-locked object: before and after the tip moves
    live = _branch.Branch.open(open_path)
    with live.lock_write():
        check_branch(live, path, g, tip, tags, opath, other_tip, rot, True,
                     extras=True)
        lh2 = gm.lefthand(g, tip2)
        # hooks that read the numbering while the tip is being changed (as
        # plugins do) must not leave caches of the old tip behind
        seen = []

        def reading_hook(params):
            b = params.branch
            seen.append(len(b.get_revision_id_to_revno_map()))
            b.revision_id_to_dotted_revno(b.last_revision())
            list(b.iter_merge_sorted_revisions())
            b.get_rev_id(1)
        names = ["pre_change_branch_tip", "post_change_branch_tip"]
        pick = names if rot % 3 == 0 else names[:rot % 3 - 1]
        for hn in pick:
            _branch.Branch.hooks.install_named_hook(hn, reading_hook, "vf-c22")
        try:
            live.set_last_revision_info(len(lh2), bz.enc(tip2))
        finally:
            for hn in pick:
                _branch.Branch.hooks.uninstall_named_hook(hn, "vf-c22")
        check_branch(live, path, g, tip2, tags, opath, other_tip, rot + 1, True)
    # 2. a fresh object under a read lock
    fresh = _branch.Branch.open(open_path)
    with fresh.lock_read():
        check_branch(fresh, path, g, tip2, tags, opath, other_tip, rot + 2,
                     extras=True)
    # 3. fresh object, no explicit lock (each call locks for itself)
    fresh = _branch.Branch.open(open_path)
    lh2 = gm.lefthand(g, tip2)
    for n in range(1, len(lh2) + 1):
        check(fresh.get_rev_id(n) == bz.enc(lh2[n - 1]),
              "C22/get_rev_id-unlocked", [tip2, n])
        check(fresh.revision_id_to_revno(bz.enc(lh2[n - 1])) == n,
              "C22/revision_id_to_revno-unlocked", [tip2, n])
    m = ref_map(path)
    for r in sorted(gm.ancestry(g, tip2)):
        check(fresh.revision_id_to_dotted_revno(bz.enc(r)) == m[bz.enc(r)],
              "C22/revision_id_to_dotted_revno-unlocked", [tip2, r])
    if rot % 12 == 11:
        # an empty number with a branch ("revno::PATH") is accepted by the
        # parser; it has no documented meaning, so: the other branch's tip or
        # InvalidRevisionSpec - nothing else.  Last, in one case out of twelve,
        # because it is an open finding (UnboundLocalError).
        from breezy import revisionspec
        s = "revno::" + opath
        try:
            got = revisionspec.RevisionSpec.from_string(s).as_revision_id(fresh)
        except revisionspec.InvalidRevisionSpec:
            pass
        except UnboundLocalError as exc:
            check(False, "C22/spec-empty-revno-with-branch-raises-"
                  "UnboundLocalError", [s, str(exc)])
        else:
            check(got == bz.enc(other_tip),
                  "C22/spec-empty-revno-with-branch", [s, got, other_tip])


def run(case, env, remote=False):
    spec = case["spec"]
    d = env.newdir()
    br = bz.init_branch(d + "/b", case["format"])
    history.build_bb(spec, br)
    g = history.graph_of(spec)
    tip, tip2, other_tip = case["tip"], case["tip2"], case["other"]
    history.set_tip(br, spec, tip)
    tags = case["tags"]
    for t, r in tags.items():
        br.tags.set_tag(t, bz.enc(r))
    # a related branch for ancestor: / revno:N:PATH
    ob = br.controldir.sprout(d + "/o", revision_id=bz.enc(other_tip)
                              ).open_branch()
    check(ob.last_revision() == bz.enc(other_tip), "C22/sprout-tip", None)
    open_path = None
    if remote:
        srv = env.shared["c22-srv"]
        open_path = srv.get_url() + os.path.relpath(d + "/b", env.root)
    exercise(d + "/b", d + "/o", g, tip, tip2, other_tip, tags, case["rot"],
             open_path)
    la = nontrivial_label(g, tip) or nontrivial_label(g, tip2)
    if la is None:
        return trivial()
    return ok(la)


def run_remote(case, env):
    return run(case, env, remote=True)


def run_git(case, env):
    """The same queries on a git branch: LocalGitBranch uses the generic
    Branch.get_rev_id / revision_id_to_revno / dotted-revno code."""
    spec = case["spec"]
    d = env.newdir()
    wt, _models, idmap = history.build_wt(spec, d + "/b", "git", tags=False)
    real = {k: v.decode() for k, v in idmap.items()}
    g = {real[r]: tuple(real[p] for p in ps)
         for r, ps in history.graph_of(spec, ghosts=False).items()}
    tip, tip2, other_tip = (real[case[k]] for k in ("tip", "tip2", "other"))
    br = wt.branch
    with br.lock_write():
        br.set_last_revision_info(len(gm.lefthand(g, tip)), bz.enc(tip))
    tags = {t: real[r] for t, r in case["tags"].items() if " " not in t}
    for t, r in tags.items():
        br.tags.set_tag(t, bz.enc(r))
    ob = br.controldir.sprout(d + "/o", revision_id=bz.enc(other_tip)
                              ).open_branch()
    check(ob.last_revision() == bz.enc(other_tip), "C22/sprout-tip", None)
    exercise(d + "/b", d + "/o", g, tip, tip2, other_tip, tags, case["rot"])
    la = nontrivial_label(g, tip) or nontrivial_label(g, tip2)
    return ok("git:" + la) if la else trivial()


def setup_server(env):
    from breezy.tests import test_server
    from breezy import urlutils

    class _Dir:
        def get_url(self):
            return urlutils.local_path_to_url(env.root) + "/"
    srv = test_server.SmartTCPServer_for_testing()
    srv.start_server(_Dir())
    env.shared["c22-srv"] = srv


def teardown_server(env):
    srv = env.shared.pop("c22-srv", None)
    if srv is not None:
        srv.stop_server()


@st.composite
def cases(draw, n_max=12, ghosts=True):
    spec = draw(history.history_spec(
        n_min=2, n_max=n_max, merges=True, ghosts=ghosts, bb_safe=True,
        ops_max=1, base_max=1, tags=False))
    ids = [r["id"] for r in spec["revs"]]
    late = ids[len(ids) // 2:]
    tip = draw(st.sampled_from(late))
    tip2 = draw(st.sampled_from(ids))
    other = draw(st.sampled_from(ids))
    names = draw(st.lists(st.sampled_from(["t1", "rel-1.0", "ü", "a b"]),
                          unique=True, max_size=3))
    tags = {t: draw(st.sampled_from(ids)) for t in names}
    return {"spec": spec, "format": draw(st.sampled_from(["2a", "2a",
                                                          "pack-0.92"])),
            "tip": tip, "tip2": tip2, "other": other, "tags": tags,
            "rot": draw(st.integers(0, 11))}


def kinds(tier):
    q = tier == "quick"
    return [
        Kind("dag-queries", run, strategy=cases(n_max=12 if q else 16),
             examples={"quick": 320, "thorough": 12000}),
        Kind("git-dag", run_git,
             strategy=cases(n_max=8 if q else 12, ghosts=False),
             examples={"quick": 96, "thorough": 3000}),
        Kind("remote-dag", run_remote, strategy=cases(n_max=6 if q else 10),
             examples={"quick": 32, "thorough": 1000},
             setup=setup_server, teardown=teardown_server),
    ]
