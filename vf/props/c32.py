"""C32 - operations through a smart server match local operations: the same
program of branch / repository operations is run on two byte-identical copies
of a generated layout, once through bzr:// handles and once through local
paths; after every step the returned values are equal and the state of both
copies, read locally, is equal."""

import os
import shutil

from hypothesis import strategies as st

from vf.api import Kind, check, ok, trivial
from vf.lib import bz
from vf.lib import history as H

PROPERTY = "C32"
LEVEL = "exploration"
TECHNIQUE = ("differential execution remote (in-process smart TCP server on "
             "127.0.0.1) vs local on byte-identical copies, with a local "
             "snapshot comparison after every step")
RULE = ("layout: a source branch with a generated history (3-7 revisions, "
        "merges, tags) outside the served copies, and in each copy a shared "
        "repository or standalone branches in format 2a or 1.9 with branch b0 "
        "holding a prefix of the history; program of 3-15 steps over persistent "
        "handles (URL in copy A, path in copy B): create branch, push / "
        "overwriting push / pull into it, commit through a BranchBuilder over "
        "the handle, pull and fetch from it into a local scratch branch, set / "
        "delete / merge tags, config set / get / remove, set_parent, "
        "set_last_revision_info, pack, lock_write + leave_lock_in_place + "
        "break_lock, and reads (revision info, get_parent_map, get_revision, "
        "file texts, iter_inventories, get_rev_id, dotted revnos, "
        "all_revision_ids), some as write-then-read under one lock. Served by "
        "the protocol 3 test server or the protocol-2-only one. Non-trivial: at "
        "least one write through the remote handle is followed by a read. "
        "Distinct by case hash.")
ASSUMPTIONS = [
    "values that legitimately differ between a remote and a local handle are "
    "normalised by the table in _norm (URLs of the two copies, object "
    "identities, lock tokens); pack file names are not compared",
    "the local execution is the reference: the property is equality, not "
    "correctness of either side",
]
LEVEL_TEXT = ("Sampled programs over sampled layouts; every step is compared. "
              "The program space is unbounded, hence exploration.")
LEVEL_NOTE = ("Trusts breezy.tests.test_server.SmartTCPServer_for_testing as a "
              "faithful in-process server and the local snapshot reader.")
REGISTERED = True
NONTRIVIAL_FLOOR = {"quick": 40, "thorough": 1500}

KEYS = ["vf_opt", "nickname", "vf_other"]
VALUES = ["v", "two words", "a,b", "", "x=y", "trés", '"quoted"', "#hash",
          "  padded  "]
TAGS = ["t0", "t1", "rel 1.0", "été"]


# ---------------------------------------------------------------- server

def _setup(cls_name):
    def setup(env):
        from breezy.tests import test_server
        from breezy import urlutils

        class _Dir:
            def get_url(self):
                return urlutils.local_path_to_url(env.root) + "/"
        srv = getattr(test_server, cls_name)()
        srv.start_server(_Dir())
        env.shared["c32-srv"] = srv
    return setup


def teardown(env):
    srv = env.shared.pop("c32-srv", None)
    if srv is not None:
        srv.stop_server()


# ---------------------------------------------------------------- observation

def _s(x):
    return x.decode("utf-8", "replace") if isinstance(x, bytes) else x


def snapshot(root):
    """State of every branch below root, read locally."""
    from breezy import branch as _b
    from breezy import errors
    out = {}
    names = []
    for d, dirs, files in os.walk(root):
        if ".bzr" in dirs:
            names.append(os.path.relpath(d, root))
            dirs.remove(".bzr")
    for name in sorted(names):
        p = os.path.join(root, name)
        try:
            b = _b.Branch.open(p)
        except errors.NotBranchError:
            out[name] = "no-branch"
            continue
        with b.lock_read():
            repo = b.repository
            revs = sorted(repo.all_revision_ids())
            st_ = b.get_config_stack()
            try:
                stacked = b.get_stacked_on_url()
            except (errors.NotStacked, _b.UnstackableBranchFormat,
                    errors.UnstackableRepositoryFormat):
                stacked = None
            out[name] = {
                "tip": (b.last_revision_info()[0], _s(b.last_revision_info()[1])),
                "tags": sorted((k, _s(v)) for k, v in
                               b.tags.get_tag_dict().items()),
                "revs": [_s(r) for r in revs],
                "parent": _strip(b.get_parent(), root),
                "config": [(k, st_.get(k)) for k in KEYS],
                "locked": b.get_physical_lock_status(),
                "shared-repo": repo.is_shared(),
                "stacked": _strip(stacked, root),
                "parents": sorted((_s(k), [_s(p) for p in v]) for k, v in
                                  repo.get_parent_map(revs).items()),
                "tiptree": (bz.snapshot_tree(repo.revision_tree(
                    b.last_revision()), contents=True)
                    if b.last_revision() in revs else None),
            }
    return out


def _strip(url, root):
    """URL of something in one of the two copies -> copy-independent form."""
    if url is None:
        return None
    url = str(url)
    for marker in ("/A/", "/B/"):
        i = url.find(marker)
        if i != -1:
            return "<copy>/" + url[i + 3:].rstrip("/")
    return url.rstrip("/")


def _norm(v, root=None):
    from breezy import errors
    if isinstance(v, BaseException):
        return ("EXC", type(v).__name__)
    if isinstance(v, bytes):
        return _s(v)
    if isinstance(v, dict):
        return sorted((_norm(k), _norm(x)) for k, x in v.items())
    if isinstance(v, (list, tuple)):
        return [_norm(x) for x in v]
    if isinstance(v, (set, frozenset)):
        return sorted(_norm(x) for x in v)
    return v


# ---------------------------------------------------------------- one side

class Side:
    """One copy of the layout and its persistent handles."""

    def __init__(self, root, base_transport, fmt_name, shared, spec, srcb,
                 scratch):
        self.root = root
        self.t = base_transport     # transport of root: bzr:// or file://
        self.fmt = bz.fmt(fmt_name)
        self.shared = shared
        self.spec = spec
        self.src = srcb
        self.scratch = scratch      # local scratch dir for pull/fetch targets
        self.h = {}
        self.ncommit = 0
        self.nscratch = 0

    def loc(self, name):
        return ("repo/" + name) if self.shared else name

    def handle(self, name):
        from breezy import branch as _b
        if name not in self.h:
            self.h[name] = _b.Branch.open_from_transport(
                self.t.clone(self.loc(name)))
        return self.h[name]

    def rid(self, i):
        revs = self.spec["revs"]
        return bz.enc(revs[i % len(revs)]["id"])

    # -- steps ----------------------------------------------------------
    def step(self, op):
        from breezy import errors
        from dromedary import errors as te
        try:
            return getattr(self, "op_" + op[0].replace("-", "_"))(*op[1:])
        except (errors.BzrError, te.TransportError, te.PathError,
                KeyError) as e:
            return e

    def op_create(self, name):
        t = self.t.clone(self.loc(name))
        t.create_prefix()
        cd = self.fmt.initialize_on_transport(t)
        if not self.shared:
            cd.create_repository()
        cd.create_branch()
        return "created"

    def op_push(self, name, i, overwrite):
        b = self.handle(name)
        r = self.src.push(b, stop_revision=self.rid(i), overwrite=overwrite)
        return (r.old_revno, r.new_revno, r.old_revid, r.new_revid)

    def op_pull(self, name, i, overwrite, locked):
        b = self.handle(name)
        if locked:
            with b.lock_write():
                # the tip (and the history views) are read before the pull so
                # that the handle's caches are warm when the tip moves
                before = (b.last_revision_info(), b.revno(),
                          self._history_views(b))
                r = b.pull(self.src, stop_revision=self.rid(i),
                           overwrite=overwrite)
                return (before,
                        (r.old_revno, r.new_revno, r.old_revid, r.new_revid),
                        b.last_revision_info(), b.revno(), b.last_revision(),
                        self._history_views(b))
        r = b.pull(self.src, stop_revision=self.rid(i), overwrite=overwrite)
        return (r.old_revno, r.new_revno, r.old_revid, r.new_revid)

    def op_pull_tag(self, name, i, tag, j):
        """Under one write lock: read the tags, pull (the source's tags come
        along), set one more tag, read the tags again."""
        b = self.handle(name)
        with b.lock_write():
            t0 = b.tags.get_tag_dict()
            r = b.pull(self.src, stop_revision=self.rid(i))
            b.tags.set_tag(tag, self.rid(j))
            return (t0, (r.old_revno, r.new_revno), b.tags.get_tag_dict())

    def op_gen_history(self, name, i, j):
        b = self.handle(name)
        with b.lock_write():
            if not (b.repository.has_revision(self.rid(i)) and
                    b.repository.has_revision(self.rid(j))):
                return "revision absent"
            b.generate_revision_history(self.rid(i), last_rev=self.rid(j))
            return b.last_revision_info()

    def op_commit(self, name):
        b = self.handle(name)
        r = self._commit(b)
        return r if isinstance(r, str) else b.last_revision_info()

    def op_commit_query(self, name):
        """Under one write lock on a long-lived handle: ask the repository
        for a revision id that does not exist yet, commit a revision with
        exactly that id, ask again."""
        b = self.handle(name)
        repo = b.repository
        rid = b"c%d" % (self.ncommit + 1)
        with b.lock_write():
            q0 = (repo.get_parent_map([rid]), repo.has_revision(rid),
                  repo.get_graph().get_parent_map([rid, b"ghost-x"]))
            r = self._commit(b)
            if isinstance(r, str):
                return r
            q1 = (repo.get_parent_map([rid]), repo.has_revision(rid),
                  repo.get_graph().get_parent_map([rid, b"ghost-x"]),
                  b.last_revision_info())
            return (q0, q1)

    def _commit(self, b):
        from breezy.branchbuilder import BranchBuilder
        self.ncommit += 1
        rid = b"c%d" % self.ncommit
        tip = b.last_revision()
        if tip != b"null:" and not b.repository.has_revision(tip):
            # set_last_revision_info accepts an absent revision; a MemoryTree
            # on such a branch fails with an AttributeError on either side
            # (_allow_leftmost_as_ghost) - not what is compared here
            self.ncommit -= 1
            return "tip revision absent"
        bb = BranchBuilder(branch=b)
        bb.start_series()
        try:
            if tip == b"null:":
                bb.build_snapshot(
                    None, [("add", ("", b"croot", "directory", None)),
                           ("add", ("cf", b"cf-id", "file", b"c\n"))],
                    revision_id=rid, timestamp=1500000000 + self.ncommit,
                    timezone=0, committer="C <c@example.com>", message="c")
            else:
                bb.build_snapshot(
                    [tip], [], revision_id=rid, message="cé %d" %
                    self.ncommit, timestamp=1500000000 + self.ncommit,
                    timezone=3600, committer="C <c@example.com>")
        finally:
            bb.finish_series()
        return b.last_revision_info()

    def _scratch_branch(self):
        self.nscratch += 1
        p = os.path.join(self.scratch, "s%d" % self.nscratch)
        return bz.init_branch(p, format="2a" if self.fmt.repository_format
                              .rich_root_data else "1.9")

    def op_pull_from(self, name, i):
        b = self.handle(name)
        tmp = self._scratch_branch()
        r = tmp.pull(b)
        return ((r.old_revno, r.new_revno, r.old_revid, r.new_revid),
                sorted(tmp.repository.all_revision_ids()),
                tmp.tags.get_tag_dict())

    def op_fetch_from(self, name, i):
        b = self.handle(name)
        tmp = self._scratch_branch()
        with b.lock_read():
            tmp.repository.fetch(b.repository, revision_id=self.rid(i))
        return sorted(tmp.repository.all_revision_ids())

    def op_tag(self, name, tag, i, locked):
        b = self.handle(name)
        with b.lock_write():
            b.tags.set_tag(tag, self.rid(i))
            if locked:
                return b.tags.get_tag_dict()
        return None

    def op_deltag(self, name, tag):
        b = self.handle(name)
        with b.lock_write():
            b.tags.delete_tag(tag)

    def op_tags_merge(self, name, other):
        if name == other:
            return "same branch"
        a, b = self.handle(name), self.handle(other)
        updates, conflicts = a.tags.merge_to(b.tags)
        return (updates, sorted(conflicts))

    def op_cfg_set(self, name, key, value, locked):
        b = self.handle(name)
        if locked:
            with b.lock_write():
                b.get_config_stack().set(key, value)
                return b.get_config_stack().get(key)
        b.get_config_stack().set(key, value)

    def op_cfg_get(self, name, key):
        return self.handle(name).get_config_stack().get(key)

    def op_cfg_remove(self, name, key):
        self.handle(name).get_config_stack().remove(key)

    def op_set_parent(self, name, other):
        b = self.handle(name)
        b.set_parent(self.handle(other).base)
        return _strip(b.get_parent(), self.root)

    def op_setrev(self, name, i, locked):
        from vf.lib import graphmodel as gm
        b = self.handle(name)
        rid = self.spec["revs"][i % len(self.spec["revs"])]["id"]
        revno = len(gm.lefthand(H.graph_of(self.spec, ghosts=False), rid))
        with b.lock_write():
            if not b.repository.has_revision(bz.enc(rid)):
                # a tip that is not in the repository is not a state the
                # property is about (reads then fail in side-specific ways)
                return "revision absent"
            before = None
            if locked and b.revno() > 0:
                # fill the handle's caches before the tip moves
                before = (b.get_rev_id(b.revno()), b.get_rev_id(1),
                          b.revision_id_to_dotted_revno(b.last_revision()),
                          self._history_views(b))
            b.set_last_revision_info(revno, bz.enc(rid))
            if locked:
                return (before, b.last_revision_info(), b.revno(),
                        b.last_revision(), b.get_rev_id(revno),
                        b.get_rev_id(1),
                        b.revision_id_to_dotted_revno(bz.enc(rid)),
                        b.revision_id_to_revno(bz.enc(rid)),
                        self._history_views(b))

    @staticmethod
    def _history_views(b):
        return (sorted(b.get_revision_id_to_revno_map().items()),
                [(r[0], r[1], r[2], r[3])
                 for r in b.iter_merge_sorted_revisions()])

    def op_history(self, name):
        b = self.handle(name)
        with b.lock_read():
            return self._history_views(b)

    def op_pack(self, name):
        b = self.handle(name)
        b.repository.pack()
        return sorted(b.repository.all_revision_ids())

    def op_leave_break(self, name):
        b = self.handle(name)
        b.lock_write()
        b.leave_lock_in_place()
        b.unlock()
        held = b.get_physical_lock_status()
        b.break_lock()
        return (held, b.get_physical_lock_status())

    # reads
    def op_info(self, name):
        b = self.handle(name)
        return (b.last_revision_info(), b.revno(), b.last_revision())

    def op_parentmap(self, name, with_null):
        b = self.handle(name)
        keys = [bz.enc(r["id"]) for r in self.spec["revs"]] + [
            b"ghost-x", b"c1"] + ([b"null:"] if with_null else [])
        with b.lock_read():
            return b.repository.get_parent_map(keys)

    def op_get_revision(self, name, i):
        b = self.handle(name)
        with b.lock_read():
            r = b.repository.get_revision(self.rid(i))
            return (r.message, r.timestamp, r.timezone, r.committer,
                    list(r.parent_ids), dict(r.properties))

    def op_gettext(self, name, i, k):
        b = self.handle(name)
        with b.lock_read():
            tree = b.repository.revision_tree(self.rid(i))
            files = sorted(p for p, ie in tree.iter_entries_by_dir()
                           if ie.kind == "file")
            if not files:
                return ("no files",)
            p = files[k % len(files)]
            return (p, tree.get_file_text(p), tree.get_file_sha1(p))

    def op_iter_inv(self, name, i, j):
        b = self.handle(name)
        with b.lock_read():
            out = []
            # (distinct ids: asking for the same inventory twice is not a
            # documented use; the two sides treat it differently)
            rids = [self.rid(i)] + ([self.rid(j)] if self.rid(j) != self.rid(i)
                                    else [])
            for inv in b.repository.iter_inventories(rids):
                out.append((inv.revision_id, sorted(
                    (p, ie.kind, ie.file_id, ie.revision)
                    for p, ie in inv.iter_entries())))
            return out

    def op_get_rev_id(self, name, revno):
        return self.handle(name).get_rev_id(revno)

    def op_dotted(self, name, i):
        b = self.handle(name)
        with b.lock_read():
            return b.revision_id_to_dotted_revno(self.rid(i))

    def op_all_ids(self, name):
        b = self.handle(name)
        with b.lock_read():
            return sorted(b.repository.all_revision_ids())

    def op_tags(self, name):
        return self.handle(name).tags.get_tag_dict()


WRITES = {"create", "push", "pull", "pull-tag", "gen-history", "commit", "commit-query", "tag", "deltag", "tags-merge",
          "cfg-set", "cfg-remove", "set-parent", "setrev", "pack",
          "leave-break"}


# ---------------------------------------------------------------- run

def run(case, env):
    from breezy import transport as _t
    srv = env.shared["c32-srv"]
    base = env.newdir("c32")
    spec = case["hist"]
    srcb = bz.init_branch(os.path.join(base, "src"), format=case["fmt"])
    H.build_bb(spec, srcb)
    H.set_tip(srcb, spec, spec["revs"][-1]["id"])
    with srcb.lock_write():
        for tag, i in case["srctags"]:
            srcb.tags.set_tag(tag, bz.enc(spec["revs"][i % len(spec["revs"])]
                                          ["id"]))
    a_root = os.path.join(base, "A")
    b_root = os.path.join(base, "B")
    os.makedirs(a_root)
    shared = case["shared"]
    if shared:
        bz.init_repo(os.path.join(a_root, "repo"), format=case["fmt"],
                     shared=True)
        b0 = bz.init_branch(os.path.join(a_root, "repo", "b0"),
                            format=case["fmt"])
    else:
        b0 = bz.init_branch(os.path.join(a_root, "b0"), format=case["fmt"])
    if case["init"] is not None:
        srcb.push(b0, stop_revision=bz.enc(
            spec["revs"][case["init"] % len(spec["revs"])]["id"]))
    del b0
    shutil.copytree(a_root, b_root, symlinks=True)
    check(snapshot(a_root) == snapshot(b_root),
          "C32/harness-copies-differ-at-start", [case])
    rel = os.path.relpath(a_root, env.root)
    rt = _t.get_transport_from_url(srv.get_url() + rel)
    lt = _t.get_transport_from_path(b_root)
    src_a = bz.open_branch(os.path.join(base, "src"))
    src_b = bz.open_branch(os.path.join(base, "src"))
    sa = Side(a_root, rt, case["fmt"], shared, spec, src_a,
              os.path.join(base, "sa"))
    sb = Side(b_root, lt, case["fmt"], shared, spec, src_b,
              os.path.join(base, "sb"))
    os.makedirs(sa.scratch)
    os.makedirs(sb.scratch)
    wrote = False
    read_after_write = False
    try:
        for n, op in enumerate(case["prog"]):
            ra = _norm(sa.step(op))
            rb = _norm(sb.step(op))
            if op[0] == "parentmap" and ra != rb and isinstance(rb, list) and \
                    ra == [x for x in rb if x[0] != "null:"]:
                check(False, "C32/get_parent_map-drops-null-revision-when-no-"
                      "other-key-is-present",
                      {"step": n, "op": op, "remote": ra, "local": rb,
                       "case": case})
            if op[0] == "gen-history" and ra != rb and \
                    rb == ("EXC", "DivergedBranches") and isinstance(ra, list):
                check(False, "C32/generate_revision_history-ignores-last_rev-"
                      "on-remote-branch",
                      {"step": n, "op": op, "remote": ra, "local": rb,
                       "case": case})
            if op[0] == "pull-tag" and ra != rb and isinstance(ra, list) and \
                    isinstance(rb, list) and ra[:2] == rb[:2] and \
                    all(t in rb[2] for t in ra[2]):
                check(False, "C32/pull-then-set_tag-under-one-lock-loses-"
                      "pulled-tags-on-remote-branch",
                      {"step": n, "op": op, "remote": ra, "local": rb,
                       "case": case})
            check(ra == rb, "C32/%s-result-differs" % op[0],
                  {"step": n, "op": op, "remote": repr(ra)[:1500],
                   "local": repr(rb)[:1500], "case": case})
            xa = snapshot(a_root)
            xb = snapshot(b_root)
            if xa != xb:
                diff = {}
                for k in sorted(set(xa) | set(xb)):
                    if xa.get(k) != xb.get(k):
                        va, vb = xa.get(k), xb.get(k)
                        if isinstance(va, dict) and isinstance(vb, dict):
                            diff[k] = {f: (repr(va[f])[:300], repr(vb[f])[:300])
                                       for f in va if va[f] != vb.get(f)}
                        else:
                            diff[k] = (repr(va)[:300], repr(vb)[:300])
                field = sorted({f for v in diff.values()
                                if isinstance(v, dict) for f in v}) or ["branch"]
                check(False, "C32/%s-leaves-different-%s" % (op[0], field[0]),
                      {"step": n, "op": op, "diff": diff, "case": case})
            if op[0] in WRITES and not isinstance(ra, tuple):
                wrote = True
            elif op[0] in WRITES:
                wrote = wrote or ra[0] != "EXC"
            elif wrote:
                read_after_write = True
            if op[0] in ("pull-tag", "gen-history", "commit-query") or \
                    op[0] in WRITES and len(op) > 1 and op[-1] is True:
                read_after_write = True    # write + read under one lock
    finally:
        for side in (sa, sb):
            side.h.clear()
        rt.disconnect()
    return ok("%s/%s" % (case["fmt"], "shared" if shared else "standalone")) \
        if read_after_write else trivial()


# ---------------------------------------------------------------- strategy

@st.composite
def gen_case(draw, tier):
    fmt_name = draw(st.sampled_from(["2a", "2a", "1.9"]))
    spec = draw(H.history_spec(n_min=3, n_max=7, merges=True, ghosts=False,
                               tags=False, bb_safe=True, ops_max=2))
    n = len(spec["revs"])
    case = {"fmt": fmt_name, "shared": draw(st.booleans()), "hist": spec,
            "init": draw(st.sampled_from([n - 1, n - 1, n - 2, 1, 0, None])),
            "srctags": draw(st.lists(st.tuples(
                st.sampled_from(TAGS), st.integers(0, n - 1)).map(list),
                max_size=3))}
    names = ["b0"]
    prog = []
    ridx = st.integers(0, n - 1)
    for _ in range(draw(st.integers(6, 15))):
        name = draw(st.sampled_from(names))
        kind = draw(st.sampled_from(
            ["create", "push", "push", "pull", "commit", "pull-from",
             "fetch-from", "tag", "tag", "deltag", "tags-merge", "cfg-set",
             "cfg-set", "cfg-get", "cfg-remove", "set-parent", "setrev",
             "setrev", "setrev",
             "pack", "leave-break", "info", "info", "parentmap",
             "get-revision", "gettext", "iter-inv", "get-rev-id", "dotted",
             "all-ids", "tags", "history", "pull-tag", "gen-history",
             "commit-query", "commit-query", "pull"]))
        if kind == "create":
            if len(names) >= 3:
                continue
            new = "b%d" % len(names)
            names.append(new)
            prog.append(["create", new])
        elif kind == "push":
            prog.append(["push", name, draw(ridx), draw(st.booleans())])
        elif kind == "pull":
            prog.append(["pull", name, draw(ridx), draw(st.booleans()),
                         draw(st.booleans())])
        elif kind == "pull-tag":
            prog.append(["pull-tag", name, draw(ridx),
                         draw(st.sampled_from(TAGS)), draw(ridx)])
        elif kind == "gen-history":
            prog.append(["gen-history", name, draw(ridx), draw(ridx)])
        elif kind == "parentmap":
            prog.append([kind, name, draw(st.sampled_from(
                [False, False, False, True]))])
        elif kind in ("commit", "commit-query", "pack", "leave-break", "info", "all-ids",
                      "tags", "history"):
            prog.append([kind, name])
        elif kind in ("pull-from", "fetch-from", "get-revision", "dotted"):
            prog.append([kind, name, draw(ridx)])
        elif kind == "tag":
            prog.append(["tag", name, draw(st.sampled_from(TAGS)), draw(ridx),
                         draw(st.booleans())])
        elif kind == "deltag":
            prog.append(["deltag", name, draw(st.sampled_from(TAGS))])
        elif kind in ("tags-merge", "set-parent"):
            prog.append([kind, name, draw(st.sampled_from(names))])
        elif kind == "cfg-set":
            prog.append(["cfg-set", name, draw(st.sampled_from(KEYS)),
                         draw(st.sampled_from(VALUES)), draw(st.booleans())])
        elif kind in ("cfg-get", "cfg-remove"):
            prog.append([kind, name, draw(st.sampled_from(KEYS))])
        elif kind == "setrev":
            prog.append(["setrev", name, draw(ridx),
                         draw(st.sampled_from([True, True, True, False]))])
        elif kind == "gettext":
            prog.append(["gettext", name, draw(ridx), draw(st.integers(0, 5))])
        elif kind == "iter-inv":
            prog.append(["iter-inv", name, draw(ridx), draw(ridx)])
        elif kind == "get-rev-id":
            prog.append(["get-rev-id", name, draw(st.integers(0, n + 1))])
    case["prog"] = prog
    return case


def kinds(tier):
    return [
        Kind("remote-v3", run, strategy=gen_case(tier),
             examples={"quick": 160, "thorough": 3400},
             setup=_setup("SmartTCPServer_for_testing"), teardown=teardown),
        Kind("remote-v2", run, strategy=gen_case(tier),
             examples={"quick": 40, "thorough": 600},
             setup=_setup("SmartTCPServer_for_testing_v2_only"),
             teardown=teardown),
    ]
