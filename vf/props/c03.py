"""C03 - fetch, push and pull copy history completely and faithfully."""

import os

from hypothesis import strategies as st

from vf.api import Expect, Kind, check, ok, rejected, trivial, violation
from vf.lib import bz
from vf.lib import c03_fetch as cf
from vf.lib import graphmodel as gm
from vf.lib import history as hist
from vf.lib import treemodel as tm

PROPERTY = "C03"
LEVEL = "exploration"
TECHNIQUE = ("Hypothesis-generated histories, format pairs, overlaps and routes; "
             "differential source-vs-target oracle (revision set from an "
             "independent ancestry model, metadata, trees, testaments, per-file "
             "parents), Repository.check(), byte-level idempotence of a repeated "
             "transfer")
RULE = ("history spec (2-12 revisions, merges up to 3 parents, ghost parents, "
        "tags, varied metadata) built with BranchBuilder in a source format; "
        "target in a target format (all pairs of 2a, pack-0.92, 1.9, "
        "1.9-rich-root, rich-root-pack, 1.14, 1.14-rich-root, knit) pre-populated "
        "with the ancestries of 0-2 source revisions and 0-2 unrelated revisions, "
        "optionally stacked on a repository holding the ancestry of a prefix "
        "revision; a revision to transfer; route = Repository.fetch | Branch.pull "
        "| Branch.push | ControlDir.sprout into a shared repository, with source "
        "and/or target opened through a smart TCP server in the 'smart' kind; "
        "appended merge shapes BranchBuilder records as given (a parent that is "
        "an ancestor of another parent; a merge whose tree equals its second "
        "parent's), optionally a source that is itself stacked, the target "
        "kept write-locked across both transfers, 1/2/3/50 revisions per round "
        "of the walk to common revisions; 'long-history' kind: fixed 125-205 "
        "revision histories with merges at the 10/50/100/200 batch boundaries; "
        "Branch-level routes (pull, push, sprout, Branch.fetch) with "
        "branch.fetch_tags=True on the source and a tag naming a revision "
        "that exists nowhere; 'ghost-fill' kinds: Repository.fetch(X, "
        "find_ghosts=True/False) into a target that holds X but has a merged "
        "ancestor of X only as a ghost (local and smart). "
        "Non-trivial: the target already holds a proper non-empty subset of the "
        "transferred ancestry and that ancestry contains a merge; or the two "
        "formats differ; or a smart-server route; or a stacked target. Distinct "
        "by case hash (DAG, overlap, pair, route).")
ASSUMPTIONS = [
    "BranchBuilder builds the source history the spec describes (source is the "
    "reference of the differential comparison)",
    "rich-root -> non-rich-root transfers are refused by design "
    "(IncompatibleRepositories) and only asserted to leave the target unchanged",
    "bzrformats / vcsgraph / dromedary are trusted base",
]
LEVEL_TEXT = ("Generated (history, format pair, overlap, route) combinations are "
              "transferred with the real fetch code, locally and through a real "
              "smart TCP server; the target is compared revision by revision with "
              "the source (metadata, trees, three testament forms, per-file "
              "graph), checked with Repository.check(), and the transfer is "
              "repeated to show that nothing is written the second time. Sampling "
              "of an unbounded space.")
LEVEL_NOTE = ("Differential against the source repository; ancestry computed with "
              "the harness' own graph code; storage layers trusted.")
REGISTERED = True
NONTRIVIAL_FLOOR = {"quick": 150, "thorough": 5000}

FORMATS = ["2a", "pack-0.92", "1.9", "1.9-rich-root", "rich-root-pack", "1.14",
           "1.14-rich-root", "knit"]
RICH = {"2a", "1.9-rich-root", "rich-root-pack", "1.14-rich-root"}
STACKABLE = {"2a", "1.9", "1.9-rich-root", "1.14", "1.14-rich-root"}


@st.composite
def fetch_case(draw, tier="quick", smart=False):
    n_max = 7 if tier == "quick" else 12
    spec = draw(hist.history_spec(n_min=2, n_max=n_max, merges=True,
                                  ghosts=True, tags=True, meta=True,
                                  odd_names=False, bb_safe=True, ops_max=2,
                                  base_max=3))
    _append_patterns(draw, spec)
    ids = [r["id"] for r in spec["revs"]]
    w = draw(st.integers(0, 9))
    if smart:
        # through the server every cross-serializer pair takes the streaming
        # path (inventory deltas): give it more weight there
        w = draw(st.sampled_from([0, 0, 3, 5, 6, 7, 8, 9, 9, 9]))
    if w < 3:
        sfmt = tfmt = "2a"
    elif w < 5:
        sfmt = tfmt = draw(st.sampled_from(FORMATS))
    else:
        sfmt = draw(st.sampled_from(FORMATS))
        tfmt = draw(st.sampled_from(FORMATS))
        if sfmt in RICH and tfmt not in RICH and draw(st.integers(0, 3)):
            # keep refusals at low weight
            sfmt, tfmt = tfmt, sfmt
    x = draw(st.sampled_from(ids[-2:] * 2 + ids))
    pre = draw(st.lists(st.sampled_from(ids),
                        min_size=draw(st.sampled_from([0, 1, 1, 1])),
                        max_size=2, unique=True))
    route = draw(st.sampled_from(["fetch", "fetch", "pull", "push", "sprout",
                                  "bfetch"]))
    stacked = None
    # (a stacked 2a target also forces the streaming path for local
    # cross-serializer fetches)
    # and a stacked knit-pack target is where text deltas against a basis
    # that lives only in the fallback could be stored
    p_stack = 2 if ((tfmt == "2a" and sfmt != "2a") or
                    tfmt in ("1.9", "1.9-rich-root", "1.14",
                             "1.14-rich-root")) else 4
    if route != "sprout" and tfmt in STACKABLE and \
            draw(st.integers(0, p_stack - 1)) == 0:
        stacked = draw(st.sampled_from(ids))
    unrelated = 0
    if stacked is None:
        unrelated = draw(st.sampled_from([0, 0, 1, 2]))
    remote = None
    if smart:
        remote = draw(st.sampled_from(["src", "src", "tgt", "tgt", "both"]))
    # the source itself stacked on a repository holding the ancestry of a
    # prefix revision (the stream is then assembled from source + fallback)
    src_stacked = None
    if sfmt in STACKABLE and draw(st.integers(0, 5)) == 0:
        src_stacked = draw(st.sampled_from(ids))
    return {"spec": spec, "sfmt": sfmt, "tfmt": tfmt, "x": x, "pre": pre,
            "route": route, "stacked": stacked, "unrelated": unrelated,
            "remote": remote, "hold": draw(st.booleans()),
            "src_stacked": src_stacked,
            # branch.fetch_tags=True on the source branch: Branch-level
            # transfers also bring the tagged revisions that exist; a tag may
            # name a revision that is in neither repository
            "fetch_tags": route != "fetch" and draw(st.integers(0, 1)) == 0,
            "dangling": draw(st.integers(0, 2)) != 0,
            "tag_rev": draw(st.sampled_from(ids)),
            # revisions examined per round of the walk to common revisions
            # (class attribute of InterVersionedFileRepository, default 50)
            "walk_batch": draw(st.sampled_from([50, 50, 1, 2, 3]))}


def _append_patterns(draw, spec):
    """Merge shapes history_spec never draws (BranchBuilder records them as
    given): (a) a merge one of whose parents is an ancestor of another parent;
    (b) a merge [L, O] whose tree equals O's (O's own edit script replayed on
    its left parent L), so that the smallest inventory delta is the one
    against the SECOND parent and the left parent is an ancestor of it;
    (c) the same with an empty sibling L' of L as left parent (no redundant
    parent)."""
    revs = spec["revs"]
    g = {r["id"]: tuple(r["parents"]) for r in revs}
    proto = revs[-1]

    def mk(parents, ops):
        i = len(revs)
        rev = {"id": "r%d" % i, "parents": parents, "ghosts": [],
               "ops": [list(o) for o in ops], "msg": "m%d" % i,
               "ts": bz.T0 + 100 * i, "tz": 0,
               "committer": proto["committer"], "props": {}}
        revs.append(rev)
        g[rev["id"]] = tuple(parents)
        return rev["id"]

    k = draw(st.sampled_from(["none", "none", "redundant", "adopt",
                              "adopt-sibling", "both"]))
    if k in ("redundant", "both"):
        a = draw(st.sampled_from(sorted(g)))
        anc = sorted(gm.ancestry(g, a) - {a})
        if anc:
            b = draw(st.sampled_from(anc))
            ps = [a, b] if draw(st.integers(0, 3)) else [b, a]
            mk(ps, [])
    if k in ("adopt", "adopt-sibling", "both"):
        cands = [r for r in revs if r["parents"] and r["ops"]]
        if cands:
            o = draw(st.sampled_from(cands))
            left = o["parents"][0]
            if k == "adopt-sibling":
                left = mk([left], [])
            mk([left, o["id"]], o["ops"])


def _build_unrelated(branch, n):
    from breezy.branchbuilder import BranchBuilder
    bb = BranchBuilder(branch=branch)
    bb.start_series()
    try:
        bb.build_snapshot(None, [
            ("add", ("", bz.enc(tm.ROOT_ID), "directory", None)),
            ("add", ("uf", b"uf-id", "file", b"unrelated 0\n"))],
            revision_id=b"u0", timestamp=bz.T0 - 500, timezone=0,
            committer=bz.COMMITTER, message="unrelated 0")
        if n > 1:
            bb.build_snapshot([b"u0"], [("modify", ("uf", b"unrelated 1\n"))],
                              revision_id=b"u1", timestamp=bz.T0 - 400,
                              timezone=0, committer=bz.COMMITTER,
                              message="unrelated 1")
    finally:
        bb.finish_series()
    return ["u0", "u1"][:n]


def _check_source(repo, spec, g):
    """Harness sanity: BranchBuilder produced the DAG and trees of the spec."""
    models = hist.models_of(spec)
    with repo.lock_read():
        for rev in spec["revs"]:
            rid = rev["id"]
            got = tuple(cf._s(p) for p in repo.get_revision(
                bz.enc(rid)).parent_ids)
            if got != tuple(g[rid]):
                raise RuntimeError("harness: source %s has parents %r, spec %r"
                                   % (rid, got, g[rid]))
            if bz.snapshot_tree(repo.revision_tree(bz.enc(rid))) != \
                    bz.model_snapshot(models[rid]):
                raise RuntimeError("harness: source tree %s differs from the "
                                   "spec" % rid)


def _transfer(case, env, d, tpath):
    """Perform the route once; returns the FetchResult-like object or None."""
    from breezy import controldir
    route = case["route"]
    remote = case["remote"]
    x = bz.enc(case["x"])
    s_smart = remote in ("src", "both")
    t_smart = remote in ("tgt", "both")
    spath = os.path.join(d, "src")
    try:
        if route == "fetch":
            # the repeated local fetch re-uses the same Repository objects
            # (stale caches must not make it copy again); remote ones are
            # re-opened because the connection is closed after each transfer
            objs = case.setdefault("_objs", {})
            if "s" in objs and not remote:
                srepo, trepo = objs["s"], objs["t"]
            else:
                srepo = cf.open_branch(env, spath, s_smart).repository
                if case["stacked"] is not None:
                    trepo = cf.open_branch(env, tpath, t_smart).repository
                else:
                    trepo = cf.open_repo(env, tpath, t_smart)
                objs["s"], objs["t"] = srepo, trepo
                if case.get("hold") and not remote and not case["_refusal"]:
                    # a caller that keeps the target write-locked across both
                    # fetches (caches live as long as the lock)
                    trepo.lock_write()
                    objs["locked"] = trepo
            return trepo.fetch(srepo, revision_id=x)
        if route == "bfetch":
            sb = cf.open_branch(env, spath, s_smart)
            tb = cf.open_branch(env, tpath, t_smart)
            tb.fetch(sb, stop_revision=x)
            return None
        if route == "pull":
            sb = cf.open_branch(env, spath, s_smart)
            tb = cf.open_branch(env, tpath, t_smart)
            tb.pull(sb, overwrite=True, stop_revision=x)
            return None
        if route == "push":
            sb = cf.open_branch(env, spath, s_smart)
            tb = cf.open_branch(env, tpath, t_smart)
            sb.push(tb, overwrite=True, stop_revision=x)
            return None
        if route == "sprout":
            scd = cf.open_controldir(env, spath, s_smart)
            n = case.setdefault("_n", 0)
            case["_n"] = n + 1
            newp = os.path.join(tpath, "new%d" % n)
            if t_smart:
                # one remembered connection, re-used by sprout for the target
                pt = [cf.smart_transport(env, tpath)]
                scd.sprout(cf.smart_url(env, newp), revision_id=x,
                           possible_transports=pt)
            else:
                scd.sprout(newp, revision_id=x)
            return None
        raise ValueError(route)
    finally:
        if remote:
            cf.smart_disconnect(env)


def run(case, env):
    from breezy import errors
    from breezy import branch as _branch
    from breezy import repository as _repository
    case = dict(case)
    spec = case["spec"]
    sfmt, tfmt = case["sfmt"], case["tfmt"]
    d = env.newdir("c03")
    spath = os.path.join(d, "src")
    g = hist.graph_of(spec, ghosts=True)
    want = gm.ancestry(g, case["x"])
    if case.get("src_stacked") is None:
        sb = bz.init_branch(spath, sfmt)
        hist.build_bb(spec, sb)
        hist.set_tip(sb, spec, case["x"])
        _check_source(sb.repository, spec, g)
    else:
        # full history elsewhere; the source is a stacked clone of x
        fb = bz.init_branch(os.path.join(d, "srcfull"), sfmt)
        hist.build_bb(spec, fb)
        hist.set_tip(fb, spec, case["x"])
        _check_source(fb.repository, spec, g)
        sbase = bz.init_branch(os.path.join(d, "srcbase"), sfmt)
        sbase.repository.fetch(fb.repository,
                               revision_id=bz.enc(case["src_stacked"]))
        from breezy import transport as _tr
        fb.create_clone_on_transport(_tr.get_transport(spath),
                                     revision_id=bz.enc(case["x"]),
                                     stacked_on=sbase.base)
        sb = _branch.Branch.open(spath)
        sb.set_stacked_on_url("../srcbase")
        # only x's ancestry (and the fallback's content) is in this source:
        # set-up fetches (overlap, the target's own fallback) and the
        # comparison use the full repository
        sb = fb
        spec = dict(spec, tags={})
        spath = os.path.join(d, "srcfull")
    refusal = sfmt in RICH and tfmt not in RICH
    case["_refusal"] = refusal
    srepo = sb.repository

    # ---- target
    tpath = os.path.join(d, "tgt")
    stacked = case["stacked"] if not refusal else None
    if case["route"] == "sprout":
        bz.init_repo(tpath, tfmt, shared=True)
        trepo_path = tpath
    else:
        tb = bz.init_branch(tpath, tfmt)
        trepo_path = tpath
        if stacked is not None:
            base = bz.init_branch(os.path.join(d, "base"), tfmt)
            base.repository.fetch(srepo, revision_id=bz.enc(stacked))
            tb.set_stacked_on_url("../base")
    if sb.supports_tags() and (spec["tags"] or case.get("fetch_tags")) and (
            case["route"] == "sprout" or
            _branch.Branch.open(tpath).supports_tags()):
        for name, rid in sorted(spec["tags"].items()):
            sb.tags.set_tag(name, bz.enc(rid))
        if case.get("fetch_tags") and case.get("src_stacked") is None and \
                case["route"] != "fetch":
            sb.tags.set_tag("extra", bz.enc(case["tag_rev"]))
            if case.get("dangling"):
                sb.tags.set_tag("gone", b"revision-that-exists-nowhere")
            sb.get_config_stack().set("branch.fetch_tags", True)
            tagged = set(spec["tags"].values()) | {case["tag_rev"]}
            for r in sorted(tagged):
                want |= gm.ancestry(g, r)
            case["_fetch_tags_on"] = True
    pre = set()
    if not refusal:
        for r in case["pre"]:
            if case["route"] == "sprout" or stacked is None:
                _repository.Repository.open(trepo_path).fetch(
                    srepo, revision_id=bz.enc(r))
            else:
                _branch.Branch.open(tpath).repository.fetch(
                    srepo, revision_id=bz.enc(r))
            pre |= gm.ancestry(g, r)
    unrelated = []
    if case["unrelated"] and stacked is None:
        if case["route"] == "sprout":
            ub = bz.init_branch(os.path.join(tpath, "u"), tfmt)
        else:
            ub = _branch.Branch.open(tpath)
        unrelated = _build_unrelated(ub, case["unrelated"])

    def open_target():
        if stacked is not None:
            return _branch.Branch.open(tpath).repository
        return _repository.Repository.open(trepo_path)

    def target_state():
        t = open_target()
        with t.lock_read():
            revs = {cf._s(r) for r in t.all_revision_ids()}
            tst = {r: cf.testament_texts(t, bz.enc(r), True)
                   for r in unrelated}
        return revs, tst

    before_revs, before_tst = target_state()
    before_disk = cf.repo_dir_snapshot(trepo_path)
    base_disk = cf.repo_dir_snapshot(os.path.join(d, "base")) \
        if stacked is not None else None

    # ---- the transfer
    label_bits = [case["route"]]
    if case["remote"]:
        label_bits.append("smart-" + case["remote"])
    if refusal:
        try:
            _transfer(case, env, d, tpath)
        except errors.IncompatibleRepositories:
            after_revs, _ = target_state()
            check(after_revs == before_revs,
                  "C03/refused-transfer-changed-target-revisions",
                  sorted(after_revs ^ before_revs))
            check(cf.repo_dir_snapshot(trepo_path) == before_disk,
                  "C03/refused-transfer-changed-target-files", None)
            return rejected("rich-root into non-rich-root: IncompatibleRepositories",
                            label="+".join(label_bits + ["refused"]))
        return check(False, "C03/rich-root-into-plain-accepted",
                     [sfmt, tfmt, case["route"]])
    from breezy.bzr.vf_repository import InterVersionedFileRepository as _IVFR
    old_batch = _IVFR._walk_to_common_revisions_batch_size
    _IVFR._walk_to_common_revisions_batch_size = case.get("walk_batch", 50)
    try:
        return _run_transfers(case, env, d, tpath, spath, sfmt, tfmt, spec, g,
                              want, pre, unrelated, stacked, trepo_path,
                              open_target, target_state, before_revs,
                              before_tst, base_disk, label_bits)
    finally:
        _IVFR._walk_to_common_revisions_batch_size = old_batch
        held = case.get("_objs", {}).pop("locked", None)
        if held is not None:
            held.unlock()


_PRE2A_SIG = ("C03/remote-stacked-source-into-stacked-pre-2a-target-parent-"
              "inventory-not-copied")


def _family_sig(sfmt, tfmt, symptom):
    """Signature of the 'remote stacked source -> stacked target' family by
    (source storage class, target storage class, symptom). The names merged
    earlier are kept where the class coincides."""
    sc = "2a" if sfmt == "2a" else "pre-2a"
    tc = "2a" if tfmt == "2a" else "pre-2a"
    if tc == "pre-2a" and sc == "pre-2a":
        return _PRE2A_SIG           # silent and loud symptoms, one finding
    return "C03/remote-stacked-%s-source-into-stacked-%s-target-%s" % (
        sc, tc, symptom)


def _remote_stacked_source_failure(case, sfmt, tfmt, e):
    """Names the failure classes that need all of: a source that is itself
    stacked, opened through the smart server, and a stacked target (the
    client then builds a self-contained stream through the VFS fallback of
    RemoteStreamSource). Only the listed exception shapes are classified;
    anything else stays a generic violation."""
    if case.get("src_stacked") is None or case.get("stacked") is None or \
            case.get("remote") not in ("src", "both"):
        return None
    name = type(e).__name__
    msg = str(e)
    if sfmt not in RICH and tfmt in RICH:
        # Inter1and2Helper._find_root_ids hands tuples of parent ids to the
        # remote graph; which error is raised depends on the remote call
        if name == "TypeError" and "bytes-like object" in msg:
            return ("C03/rich-root-upgrade-from-remote-stacked-source-into-"
                    "stacked-target-typeerror")
        if name == "ValueError" and "not a bytes string" in msg:
            return ("C03/rich-root-upgrade-from-remote-stacked-source-into-"
                    "stacked-target-valueerror")
    incomplete = (
        (name == "BzrCheckError" and (
            "missing referenced chk root" in msg or "missing text keys" in msg
            or "missing chk node" in msg or "Newly created pack file" in msg))
        or (name == "ErrorFromSmartServer" and (
            "NoSuchRevision" in msg or "BzrCheckError" in msg))
        or (name == "AssertionError" and
            "second push failed to complete a fetch" in msg))
    if incomplete:
        return _family_sig(sfmt, tfmt, "incomplete-stream")
    return None


_ROOT_HEADS_SIG = ("C03/rich-root-upgrade-from-remote-stacked-source-root-"
                   "text-parents-not-heads")


def _root_text_heads_class(case, sfmt, tfmt, stacked, repo):
    """Names one class of check() failure: rich-root upgrade from a source
    that is stacked and opened through the smart server (target not stacked):
    the server builds the synthesised root texts of the revisions held by the
    stacked repository with that repository's own graph, in which parents
    living in the fallback are unknown, so a parent that is an ancestor of
    another parent is not dropped. Only inconsistencies of exactly that shape
    (root id, stored parents a proper superset of the right ones) count."""
    if case.get("src_stacked") is None or stacked is not None or \
            case.get("remote") not in ("src", "both") or sfmt in RICH or \
            tfmt not in RICH:
        return
    res = repo.check(None)
    bad = res.inconsistent_parents
    if bad and all(cf._s(i[1]) == tm.ROOT_ID and set(i[3]) < set(i[2])
                   for i in bad):
        raise Expect(_ROOT_HEADS_SIG,
                     [[cf._s(i[0]), [cf._s(x) for x in i[2]],
                       [cf._s(x) for x in i[3]]] for i in bad][:5])


def _run_transfers(case, env, d, tpath, spath, sfmt, tfmt, spec, g, want, pre,
                   unrelated, stacked, trepo_path, open_target, target_state,
                   before_revs, before_tst, base_disk, label_bits):
    from breezy import errors
    from breezy import branch as _branch
    try:
        res = _transfer(case, env, d, tpath)
    except errors.LockContention as e:
        if case["route"] == "sprout" and tfmt == "knit" and \
                case["remote"] in ("tgt", "both"):
            # nobody else holds a lock: the sprout contends with itself
            return violation(
                "C03/sprout-into-remote-shared-knit-repository-locks-itself-out",
                {"sfmt": sfmt, "tfmt": tfmt, "remote": case["remote"],
                 "error": str(e)}, label="sprout+smart")
        raise
    except Exception as e:  # noqa: BLE001 - re-raised unless it is one of
        # the two named classes (remote stacked source -> stacked target)
        sig = _remote_stacked_source_failure(case, sfmt, tfmt, e)
        if sig is None:
            raise
        return violation(sig, {"sfmt": sfmt, "tfmt": tfmt,
                               "route": case["route"],
                               "remote": case["remote"],
                               "error": "%s: %s" % (type(e).__name__,
                                                    str(e)[:300])},
                         label=case["route"] + "+smart+stacked+stacked-source")

    def verify(tag):
        t = open_target()
        s = _branch.Branch.open(spath).repository
        cf.compare_history("C03", s, t, want | pre, tag)
        with t.lock_read():
            revs = {cf._s(r) for r in t.all_revision_ids()}
            gone = sorted(before_revs - revs)
            check(not gone, "C03/%starget-lost-revisions" % (
                tag + "-" if tag else ""), gone)
            for r in unrelated:
                check(cf.testament_texts(t, bz.enc(r), True) == before_tst[r],
                      "C03/%sunrelated-revision-changed" % (
                          tag + "-" if tag else ""), r)
        _root_text_heads_class(case, sfmt, tfmt, stacked, t)
        cf.check_clean(t, "C03/%s" % (tag + "-" if tag else ""))
        if stacked is not None:
            check(cf.repo_dir_snapshot(os.path.join(d, "base")) == base_disk,
                  "C03/%sfallback-repository-modified" % (
                      tag + "-" if tag else ""), None)
            models = hist.models_of(spec)
            try:
                cf.stacking_invariant(
                    "C03", tpath, hist.graph_of(spec, ghosts=True), models,
                    tag=(tag + "-" if tag else "") + "stacked")
            except Expect as e:
                if e.signature.endswith("parent-inventory-missing") and \
                        case.get("src_stacked") is not None and \
                        case.get("remote") in ("src", "both"):
                    raise Expect(_family_sig(sfmt, tfmt,
                                             "parent-inventory-not-copied"),
                                 e.detail)
                raise
    verify("")

    # ---- the same transfer again: nothing copied, nothing changed
    disk1 = cf.repo_dir_snapshot(trepo_path)
    res2 = _transfer(case, env, d, tpath)
    if res2 is not None and getattr(res2, "total_fetched", None) is not None:
        check(res2.total_fetched == 0, "C03/refetch-reports-revisions-copied",
              res2.total_fetched)
    disk2 = cf.repo_dir_snapshot(trepo_path)
    if disk1 != disk2:
        diff = sorted(k for k in set(disk1) | set(disk2)
                      if disk1.get(k) != disk2.get(k))
        check(False, "C03/refetch-changed-repository-files", diff[:10])
    verify("refetch")

    # ---- non-triviality
    merge_in_want = any(len([p for p in g[r] if p in g]) > 1 for r in want)
    overlap = bool(pre & want) and bool(want - pre)
    nt = []
    if overlap and merge_in_want:
        nt.append("overlap+merge")
    if sfmt != tfmt:
        nt.append("cross-format")
    if case["remote"]:
        nt.append("smart")
    if stacked is not None:
        nt.append("stacked")
    if case.get("_fetch_tags_on"):
        nt.append("fetch-tags-dangling" if case.get("dangling")
                  else "fetch-tags")
    if not nt:
        return trivial()
    return ok("+".join(label_bits[:1] + nt))


def _long_spec(n):
    """Deterministic history of n mainline revisions (one file modified in
    every revision, a new file every 7th) with side revisions branched 35
    revisions back and merged right around the batch boundaries used by the
    fetch code (50-revision walk rounds, 100-revision conversion batches with
    a 100-entry tree cache, 10-revision rounds of the text index)."""
    revs = []
    main = []

    def add(parents, ops):
        i = len(revs)
        revs.append({"id": "r%d" % i, "parents": parents, "ghosts": [],
                     "ops": ops, "msg": "m%d" % i, "ts": bz.T0 + 10 * i,
                     "tz": 0, "committer": hist.COMMITTERS[0], "props": {}})
        return "r%d" % i

    main.append(add([], [["add", "f1-id", tm.ROOT_ID, "a", "file", "0\n", False],
                         ["add", "f2-id", tm.ROOT_ID, "b", "file", "side\n",
                          False]]))
    merge_at = {9, 10, 11, 49, 50, 51, 99, 100, 101, 102, 149, 199, 200, 201}
    for k in range(1, n):
        ops = [["modify", "f1-id", "%d\n" % k]]
        if k % 7 == 0:
            ops.append(["add", "g%d-id" % k, tm.ROOT_ID, "g%d" % k, "file",
                        "g %d\n" % k, False])
        parents = [main[-1]]
        if k in merge_at and k > 36:
            side = add([main[k - 36]], [["modify", "f2-id", "side %d\n" % k]])
            parents.append(side)
        elif k in merge_at:
            side = add([main[0]], [["modify", "f2-id", "side %d\n" % k]])
            parents.append(side)
        main.append(add(parents, ops))
    return {"revs": revs, "tags": {}}


def long_cases(tier):
    base = {"pre": ["r3"], "stacked": None, "unrelated": 1, "remote": None,
            "hold": False, "src_stacked": None}
    out = [
        dict(base, sfmt="pack-0.92", tfmt="2a", route="fetch", n=205,
             walk_batch=50),
        dict(base, sfmt="1.9", tfmt="1.9-rich-root", route="pull", n=125,
             walk_batch=50, pre=["r60"]),
        dict(base, sfmt="2a", tfmt="2a", route="push", n=125, walk_batch=50,
             pre=["r60", "r20"], hold=True),
    ]
    if tier == "thorough":
        out += [
            dict(base, sfmt="knit", tfmt="2a", route="fetch", n=230,
                 walk_batch=50),
            dict(base, sfmt="2a", tfmt="2a", route="fetch", n=205,
                 walk_batch=50, stacked="r150", unrelated=0),
            dict(base, sfmt="pack-0.92", tfmt="1.9", route="fetch", n=205,
                 walk_batch=50, pre=["r101"]),
        ]
    return out


def run_long(case, env):
    case = dict(case)
    spec = _long_spec(case.pop("n"))
    case["spec"] = spec
    case["x"] = spec["revs"][-1]["id"]
    out = run(case, env)
    if out.status == "ok":
        out.label = "long:" + (out.label or case["route"])
    elif out.status == "trivial":
        return ok("long:" + case["route"])
    return out


# ------------------------------------------------------------ ghost filling
# Repository.fetch(revision_id=X, find_ghosts=True) into a target that already
# holds X but in which a merged ancestor of X is a ghost, while the source has
# it. The target is pre-populated from a second build of the same history in
# which the revision(s) G were never built (BranchBuilder records them as
# ghost parents). G is an empty commit on top of an ancestor of the merge's
# left-hand parent, so the merge revision is byte-for-byte the same with and
# without G (asserted).

GF_PAIRS = [("2a", "2a"), ("2a", "2a"), ("pack-0.92", "pack-0.92"),
            ("1.9", "1.9"), ("pack-0.92", "1.9"), ("1.9-rich-root", "2a"),
            ("knit", "pack-0.92"), ("1.14-rich-root", "1.14-rich-root")]


@st.composite
def ghostfill_case(draw, tier="quick", smart=False):
    spec = draw(hist.history_spec(n_min=2, n_max=6 if tier == "quick" else 10,
                                  merges=True, ghosts=True, odd_names=False,
                                  bb_safe=True, ops_max=2, base_max=3))
    revs = spec["revs"]
    g = {r["id"]: tuple(r["parents"]) for r in revs}
    left = draw(st.sampled_from(sorted(g)))
    pg = draw(st.sampled_from(sorted(gm.ancestry(g, left))))
    proto = revs[-1]

    def mk(parents, ops):
        i = len(revs)
        revs.append({"id": "r%d" % i, "parents": parents, "ghosts": [],
                     "ops": ops, "msg": "m%d" % i, "ts": bz.T0 + 100 * i,
                     "tz": 0, "committer": proto["committer"], "props": {}})
        return "r%d" % i
    chain = [mk([pg], [])]
    if draw(st.booleans()):
        chain.append(mk([chain[-1]], []))       # two revisions to fill in
    merge_ops = [["add", "gf-id", tm.ROOT_ID, "gfn", "file",
                  draw(tm.text_strategy()), False]] if draw(st.booleans()) \
        else []
    m = mk([left, chain[-1]], merge_ops)
    x = m
    if draw(st.booleans()):
        x = mk([m], [["add", "gx-id", tm.ROOT_ID, "gxn", "file", "x\n", False]])
    sfmt, tfmt = draw(st.sampled_from(GF_PAIRS))
    remote = draw(st.sampled_from(["src", "tgt", "both"])) if smart else None
    return {"spec": spec, "missing": chain, "x": x, "sfmt": sfmt,
            "tfmt": tfmt, "find_ghosts": draw(st.integers(0, 3)) != 0,
            "remote": remote,
            "walk_batch": draw(st.sampled_from([50, 1, 2]))}


def run_ghostfill(case, env):
    from breezy import repository as _repository
    from breezy.bzr.vf_repository import InterVersionedFileRepository as _IVFR
    spec = case["spec"]
    missing = set(case["missing"])
    x = case["x"]
    d = env.newdir("c03g")
    g = hist.graph_of(spec, ghosts=True)
    full = bz.init_branch(os.path.join(d, "src"), case["sfmt"])
    full.nick = "nick"      # the nick goes into every revision's properties
    hist.build_bb(spec, full)
    _check_source(full.repository, spec, g)
    lack_spec = {"tags": {}, "revs": []}
    for rev in spec["revs"]:
        if rev["id"] in missing:
            continue
        r2 = dict(rev)
        r2["parents"] = [p for p in rev["parents"] if p not in missing]
        r2["ghosts"] = list(rev.get("ghosts", [])) + [
            p for p in rev["parents"] if p in missing]
        lack_spec["revs"].append(r2)
    lack = bz.init_branch(os.path.join(d, "lack"), case["sfmt"])
    lack.nick = "nick"
    hist.build_bb(lack_spec, lack)
    shared = [r["id"] for r in lack_spec["revs"]]
    with full.repository.lock_read(), lack.repository.lock_read():
        for r in shared:
            if cf.testament_texts(full.repository, bz.enc(r), True) != \
                    cf.testament_texts(lack.repository, bz.enc(r), True):
                raise RuntimeError("harness: revision %s differs between the "
                                   "two builds" % r)
        if cf.text_parent_map(full.repository, set(shared), False) != \
                cf.text_parent_map(lack.repository, set(shared), False):
            raise RuntimeError("harness: per-file graphs differ between the "
                               "two builds")
    tpath = os.path.join(d, "tgt")
    bz.init_branch(tpath, case["tfmt"])
    _repository.Repository.open(tpath).fetch(lack.repository,
                                             revision_id=bz.enc(x))
    want_all = gm.ancestry(g, x)
    with _repository.Repository.open(tpath).lock_read():
        pass
    t0 = _repository.Repository.open(tpath)
    with t0.lock_read():
        before = {cf._s(r) for r in t0.all_revision_ids()}
    if before & missing or x not in before:
        raise RuntimeError("harness: target pre-population is not what the "
                           "scenario needs: %r" % sorted(before))
    remote = case["remote"]
    s_smart = remote in ("src", "both")
    t_smart = remote in ("tgt", "both")
    fg = case["find_ghosts"]

    def transfer():
        try:
            srepo = cf.open_branch(env, os.path.join(d, "src"),
                                   s_smart).repository
            trepo = cf.open_repo(env, tpath, t_smart)
            return trepo.fetch(srepo, revision_id=bz.enc(x), find_ghosts=fg)
        finally:
            if remote:
                cf.smart_disconnect(env)
    old_batch = _IVFR._walk_to_common_revisions_batch_size
    _IVFR._walk_to_common_revisions_batch_size = case.get("walk_batch", 50)
    try:
        transfer()
        t = _repository.Repository.open(tpath)
        s = full.repository
        if fg:
            # every ancestor the source can supply must now be there
            cf.compare_history("C03", s, t, want_all, "ghostfill")
        else:
            cf.compare_history("C03", s, t, want_all - missing,
                               "ghostfill-default")
        with t.lock_read():
            now = {cf._s(r) for r in t.all_revision_ids()}
        check(before <= now, "C03/ghostfill-target-lost-revisions",
              sorted(before - now))
        cf.check_clean(t, "C03/ghostfill-")
        disk1 = cf.repo_dir_snapshot(tpath)
        transfer()
        disk2 = cf.repo_dir_snapshot(tpath)
        if disk1 != disk2:
            check(False, "C03/ghostfill-refetch-changed-repository-files",
                  sorted(k for k in set(disk1) | set(disk2)
                         if disk1.get(k) != disk2.get(k))[:10])
    finally:
        _IVFR._walk_to_common_revisions_batch_size = old_batch
    return ok("ghostfill:%s:%s:%s->%s:%d" % (
        "find_ghosts" if fg else "default", remote or "local", case["sfmt"],
        case["tfmt"], len(missing)))


def kinds(tier):
    return [
        Kind("local", run, strategy=fetch_case(tier, smart=False),
             examples={"quick": 400, "thorough": 12000}),
        Kind("smart", run, strategy=fetch_case(tier, smart=True),
             examples={"quick": 200, "thorough": 6000},
             setup=cf.smart_setup, teardown=cf.smart_teardown),
        Kind("long-history", run_long, enumerate=long_cases, hash_cases=False),
        Kind("ghost-fill", run_ghostfill,
             strategy=ghostfill_case(tier, smart=False),
             examples={"quick": 80, "thorough": 2000}),
        Kind("ghost-fill-smart", run_ghostfill,
             strategy=ghostfill_case(tier, smart=True),
             examples={"quick": 48, "thorough": 1200},
             setup=cf.smart_setup, teardown=cf.smart_teardown),
    ]
