"""C40 - bundles and merge directives reproduce the revisions they carry."""

import io
import os

from hypothesis import strategies as st

from vf.api import Expect, Kind, check, ok, trivial, violation
from vf.lib import bz, history
from vf.lib import c40_hist as ch
from vf.lib import treemodel as tm

PROPERTY = "C40"
LEVEL = "exploration"
TECHNIQUE = ("round trip on generated histories: write_bundle -> read_bundle -> "
             "install_revisions compared by StrictTestament3 / revision fields / "
             "per-file graphs; bundle merge vs branch merge; merge directive "
             "to_lines/from_lines; tamper detection")
RULE = ("history (4-8 revisions, merges, renames, deletions, exec bits, "
        "symlinks, binary-ish contents, multi-line / non-ASCII messages, "
        "timezones incl. negative non-hour ones) in 2a or pack-0.92; a target "
        "revision and a base in ancestry(target) or null; bundle formats 4, "
        "0.9 (0.8 on pack-0.92) installed into a repository holding exactly "
        "ancestry(base); merge of the bundle into a tree at another revision "
        "vs. merge from the branch; MergeDirective2 / MergeDirective built by "
        "from_objects with/without bundle and patch, serialised and parsed; "
        "one flipped byte in the patch and in the bundle payload. Non-trivial: "
        "the bundled range contains a merge and a rename or a binary file; "
        "distinct by case hash.")
ASSUMPTIONS = [
    "the source history is built through a real working tree (vf.lib.history."
    "build_wt); testaments are compared between repositories of the same "
    "format, so the root model is the same on both sides",
    "tamper detection means: the operation raises one of the documented "
    "verification errors, or the merge directive reports the patch as "
    "'failed' - anything else (silent success with different content, or an "
    "undocumented exception type) is reported",
]
LEVEL_TEXT = ("Sampled histories and (base, target) pairs; each is pushed "
              "through every bundle format and both merge-directive classes "
              "and compared with the source revision by revision.")
LEVEL_NOTE = ("Histories are bounded (<= 8 revisions, <= 3 parents). When the "
              "reference merge from the branch itself raises, the bundle / "
              "directive merges are only required to fail the same way.")
REGISTERED = True
NONTRIVIAL_FLOOR = {"quick": 30, "thorough": 1000}

F26 = "C40/v09-bundle-complex-renames"
SILENT_REV = "C40/v4-bundle-tampered-revision-record-installed-silently"
SLASHID = "C40/v4-record-name-ambiguous-for-file-id-with-leading-slash"
TZPARSE = "C40/merge-directive-negative-non-hour-timezone-misparsed"
DIRMOVE = "C40/v09-write-fails-on-moved-directory-with-children"
NULLBASE = "C40/v09-write-bundle-from-null-base-ValueError"


def _known():
    from vf import runner
    return runner.load_findings()


def _enc(rid):
    from breezy import revision as _rev
    return _rev.NULL_REVISION if rid is None else bz.enc(rid)


def _testament(repo, rid):
    from breezy.bzr.testament import StrictTestament3
    return StrictTestament3.from_revision(repo, rid).as_short_text()


def _rev_fields(repo, rid):
    r = repo.get_revision(rid)
    return {"message": r.message, "committer": r.committer,
            "timestamp": r.timestamp, "timezone": r.timezone,
            "parents": list(r.parent_ids),
            "properties": dict(r.properties),
            "inventory_sha1": r.inventory_sha1}


def _text_graph(repo, rids):
    """{text key: parents} of every text introduced by the revisions."""
    rids = set(rids)
    keys = [k for k in repo.texts.keys() if k[1] in rids]
    return repo.texts.get_parent_map(keys)


class Ctx:
    def __init__(self, case, env):
        self.case = case
        self.spec = case["spec"]
        self.fmt = case["format"]
        self.dir = env.newdir()
        self.wt, self.models, self.idmap = history.build_wt(
            self.spec, self.dir + "/src", self.fmt)
        self.repo = self.wt.branch.repository
        ids = [r["id"] for r in self.spec["revs"]]
        self.target = ids[case["target"]]
        self.base = None if case["base"] is None else ids[case["base"]]
        self.range = ch.ancestry(self.spec, self.target) - ch.ancestry(
            self.spec, self.base)
        self.noted = []
        self.n = 0
        self.tamper = None
        self.wtip = None if case.get("wtip") is None else ids[case["wtip"]]

    def receiver(self, name):
        self.n += 1
        r = bz.init_repo("%s/recv-%s-%d" % (self.dir, name, self.n), self.fmt)
        if self.base is not None:
            r.fetch(self.repo, bz.enc(self.base))
        return r

    def _v09_deltas(self, base, target):
        """(old model, new model) of every delta a patch-based bundle of
        base..target carries: each bundled revision against its LAST parent
        (v08._write_revisions), the target against the forced base."""
        revs = {r["id"]: r for r in self.spec["revs"]}
        rng = ch.ancestry(self.spec, target) - ch.ancestry(self.spec, base)
        for rid in sorted(rng):
            if rid == target:
                pm = self.models[base] if base else tm.new_model()
            else:
                ps = revs[rid]["parents"]
                pm = self.models[ps[-1]] if ps else tm.new_model()
            yield pm, self.models[rid]

    def complex_for_v09(self, base=0, target=None):
        base = self.base if base == 0 else base
        target = target or self.target
        out = set()
        for pm, m in self._v09_deltas(base, target):
            out |= ch.reuse_classes(pm, m)
        return out

    def dir_moves_for_v09(self, base=0, target=None):
        base = self.base if base == 0 else base
        target = target or self.target
        return any(ch.moved_dirs_with_children(pm, m)
                   for pm, m in self._v09_deltas(base, target))

    def note(self, sig, detail):
        if sig not in _known():
            raise Expect(sig, detail)
        self.noted.append((sig, detail))


def check_bundles(cx):
    from breezy.bzr.bundle import serializer as bser
    formats = ["4", "0.9"] + (["0.8"] if cx.fmt == "pack-0.92" else [])
    repo = cx.repo
    for f in formats:
        old = f != "4"
        out = io.BytesIO()
        if old and cx.base is None:
            # known: v0.8/0.9 write_bundle(base=null:) passes None to the graph
            try:
                with repo.lock_read():
                    bser.write_bundle(repo, bz.enc(cx.target), _enc(None), out,
                                      format=f)
            except ValueError as e:
                cx.note(NULLBASE, [f, str(e)])
                continue
        complex_ = cx.complex_for_v09() if old else set()
        recv = cx.receiver("b" + f.replace(".", ""))
        if old and cx.base is not None:
            try:
                with repo.lock_read():
                    bser.write_bundle(repo, bz.enc(cx.target), _enc(cx.base),
                                      out, format=f)
            except Exception as e:  # noqa: BLE001 - triaged, else re-raised
                if type(e).__name__ == "NoSuchFile" and \
                        cx.dir_moves_for_v09():
                    cx.note(DIRMOVE, [f, str(e)[:200]])
                    continue
                if complex_:
                    cx.note(F26, [f, "write", sorted(complex_),
                                  type(e).__name__, str(e)[:200]])
                    continue
                raise
        elif not old:
            with repo.lock_read():
                bser.write_bundle(repo, bz.enc(cx.target), _enc(cx.base), out,
                                  format=f)
        data = out.getvalue()
        try:
            info = bser.read_bundle(io.BytesIO(data))
            with recv.lock_write():
                info.install_revisions(recv)
        except Exception as e:  # noqa: BLE001 - re-raised unless F26 class
            if old and complex_:
                cx.note(F26, [f, "install", sorted(complex_),
                              type(e).__name__, str(e)[:200]])
                continue
            raise
        with recv.lock_read(), repo.lock_read():
            for rid in sorted(cx.range):
                r = bz.enc(rid)
                check(recv.has_revision(r),
                      "C40/bundle-v%s-revision-missing-after-install" % f,
                      [rid])
                a, b = _testament(repo, r), _testament(recv, r)
                if a != b and old and complex_:
                    cx.note(F26, [f, sorted(complex_), "testament differs",
                                  rid])
                    break
                check(a == b, "C40/bundle-v%s-testament-differs" % f,
                      [rid, a.decode("utf-8", "replace"),
                       b.decode("utf-8", "replace")])
                fa, fb = _rev_fields(repo, r), _rev_fields(recv, r)
                check(fa == fb, "C40/bundle-v%s-revision-fields-differ" % f,
                      [rid, {k: [repr(fa[k]), repr(fb[k])] for k in fa
                             if fa[k] != fb[k]}])
            if f == "0.9":
                _tamper_v09(cx, data)
            if f == "4":
                ga = _text_graph(repo, [bz.enc(x) for x in cx.range])
                gb = _text_graph(recv, [bz.enc(x) for x in cx.range])
                check(ga == gb, "C40/bundle-v4-per-file-graph-differs",
                      [sorted(repr(k) for k in set(ga) ^ set(gb))[:6],
                       [repr((k, ga[k], gb[k])) for k in ga
                        if k in gb and ga[k] != gb[k]][:4]])


# ------------------------------------------------------------------ merge

def _conflicts_canon(conflicts):
    return sorted(str(c) for c in conflicts)


def _sprout(cx, name, rid):
    """An independent branch + tree sitting on revision rid."""
    cd = cx.wt.branch.controldir.sprout(cx.dir + "/" + name,
                                        revision_id=bz.enc(rid))
    return cd.open_workingtree()


def check_merge(cx):
    """Merging the v4 bundle into a tree == merging from the source branch."""
    from breezy.bzr.bundle import serializer as bser
    from breezy.merge import Merge3Merger, Merger
    w = cx.wtip
    if w is None:
        return
    out = io.BytesIO()
    with cx.repo.lock_read():
        bser.write_bundle(cx.repo, bz.enc(cx.target), _enc(cx.base), out,
                          format="4")
    ta = _sprout(cx, "ma", w)
    tb_ = _sprout(cx, "mb", w)
    def outcome(fn):
        """Differential: ('ok', conflicts) or ('raised', exception class) -
        when the reference merge from the branch itself fails (a merge
        defect, not a bundle one) the bundle merges must fail the same way."""
        try:
            return ("ok", fn())
        except Exception as e:  # noqa: BLE001 - compared, not swallowed
            return ("raised", type(e).__name__)

    ra = outcome(lambda: ta.merge_from_branch(
        cx.wt.branch, to_revision=bz.enc(cx.target)))
    info = bser.read_bundle(io.BytesIO(out.getvalue()))

    def via(tree, mergeable, want_verified=None):
        with tree.lock_write():
            merger, verified = Merger.from_mergeable(tree, mergeable)
            if want_verified is not None:
                check(verified == want_verified,
                      "C40/merge-directive-patch-not-verified-on-merge",
                      verified)
            merger.merge_type = Merge3Merger
            merger.set_interesting_files(None)
            c = merger.do_merge()
            merger.set_pending()
            return c
    rb = outcome(lambda: via(tb_, info))
    # ... and so does merging a merge directive that carries the bundle
    from breezy import merge_directive as _md
    tc = _sprout(cx, "mc", w)
    md = _md.MergeDirective2.from_objects(
        repository=cx.repo, revision_id=bz.enc(cx.target), time=bz.T0,
        timezone=0, target_branch=tc.branch.base,
        local_target_branch=tc.branch, include_patch=True,
        include_bundle=True)
    md = _md.MergeDirective.from_lines(md.to_lines())
    rc = outcome(lambda: via(tc, md, "verified"))
    for name, r in (("bundle", rb), ("directive", rc)):
        check(r[0] == ra[0] and (ra[0] == "ok" or r[1] == ra[1]),
              "C40/%s-merge-outcome-differs-from-branch-merge" % name,
              [list(map(str, ra)), list(map(str, r))])
    if ra[0] != "ok":
        cx.merge_ref_failed = ra[1]
        return
    ca, cb, cc_ = ra[1], rb[1], rc[1]
    for name, t, c in (("bundle", tb_, cb), ("directive", tc, cc_)):
        fa, fb = bz.snapshot_fs(ta.basedir), bz.snapshot_fs(t.basedir)
        check(fa == fb, "C40/%s-merge-tree-differs-from-branch-merge" % name,
              [sorted(k for k in set(fa) | set(fb) if fa.get(k) != fb.get(k))])
        check(_conflicts_canon(ca) == _conflicts_canon(c),
              "C40/%s-merge-conflicts-differ-from-branch-merge" % name,
              [_conflicts_canon(ca), _conflicts_canon(c)])
        check(ta.get_parent_ids() == t.get_parent_ids(),
              "C40/%s-merge-pending-merges-differ" % name,
              [ta.get_parent_ids(), t.get_parent_ids()])
        sa = bz.snapshot_tree(ta, contents=True)
        sb = bz.snapshot_tree(t, contents=True)
        check(sa == sb, "C40/%s-merge-versioned-tree-differs" % name,
              [sorted(k for k in set(sa) | set(sb) if sa.get(k) != sb.get(k))])


# ------------------------------------------------------------------ directives

MD_FIELDS = ("revision_id", "testament_sha1", "time", "timezone",
             "target_branch", "source_branch", "message", "patch",
             "patch_type")


def _odd_negative_tz(tz):
    return tz < 0 and tz % 3600 != 0


def _flip_letter(data, pick, lo=0, hi=None):
    """Replace one ASCII letter in data[lo:hi] by its successor; position
    chosen by `pick`.  -> (new bytes, position) or (None, None)."""
    hi = len(data) if hi is None else hi
    pos = [i for i in range(lo, hi) if 97 <= data[i] <= 121]
    if not pos:
        return None, None
    i = pos[pick % len(pos)]
    return data[:i] + bytes([data[i] + 1]) + data[i + 1:], i


def _patch_body_range(patch):
    """Content lines of a diff (+/- lines that are not file headers)."""
    off = 0
    spans = []
    for line in patch.splitlines(True):
        if (line.startswith(b"+") or line.startswith(b"-")) and not \
                line.startswith((b"+++", b"---")):
            spans.append((off + 1, off + len(line)))
        off += len(line)
    return spans


def _v4_regions(payload):
    """[(record kind, start, end)] of the body records of a v4 container."""
    out = []
    i = payload.index(b"\n") + 1
    kind = None
    while i < len(payload) and payload[i:i + 1] == b"B":
        j = payload.index(b"\n", i)
        length = int(payload[i + 1:j])
        names = []
        k = j + 1
        while True:
            e = payload.index(b"\n", k)
            if e == k:
                k = e + 1
                break
            names.append(payload[k:e])
            k = e + 1
        if names:
            kind = names[0].split(b"/")[0].decode("ascii")
        else:
            out.append((kind, k, k + length))
        i = k + length
    return out


def _loud(fn):
    """Run fn(); -> name of the exception class it raised, or None.  Any
    exception counts as 'the tampering was noticed' (that is the oracle), a
    Rust panic in the trusted base included."""
    try:
        fn()
    except BaseException as e:  # noqa: BLE001 - see docstring
        if type(e).__name__ in ("CaseTimeout", "KeyboardInterrupt",
                                "SystemExit"):
            raise
        return type(e).__name__
    return None


def check_directives(cx):
    import base64
    import bz2
    from breezy import merge_directive as _md
    w = cx.wtip
    if w is None:
        return
    opts = cx.case["md"]
    repo = cx.repo
    tb = cx.wt.branch.controldir.sprout(
        cx.dir + "/submit", revision_id=bz.enc(w)).open_branch()
    src_url = cx.wt.branch.base
    msg = opts.get("message")
    lca = None
    for inc_patch, inc_bundle in ((True, True), (True, False), (False, True),
                                  (False, False)):
        md = _md.MergeDirective2.from_objects(
            repository=repo, revision_id=bz.enc(cx.target),
            time=opts["time"], timezone=opts["tz"], target_branch=tb.base,
            local_target_branch=tb, include_patch=inc_patch,
            include_bundle=inc_bundle,
            public_branch=None if inc_bundle else src_url, message=msg)
        lines = md.to_lines()
        md2 = _md.MergeDirective.from_lines(lines)
        check(type(md2) is _md.MergeDirective2,
              "C40/merge-directive-parsed-as-other-class", str(type(md2)))
        for fld in MD_FIELDS + ("bundle", "base_revision_id"):
            if fld in ("time", "timezone") and _odd_negative_tz(opts["tz"]) \
                    and getattr(md, fld) != getattr(md2, fld):
                cx.note(TZPARSE, [opts["tz"], md.time, md2.time,
                                  md2.timezone])
                continue
            check(getattr(md, fld) == getattr(md2, fld),
                  "C40/merge-directive2-field-differs-after-round-trip",
                  [fld, repr(getattr(md, fld))[:200],
                   repr(getattr(md2, fld))[:200]])
        lca = md.base_revision_id
        if inc_patch:
            check(md2._verify_patch(repo) is True,
                  "C40/merge-directive2-own-patch-fails-verification",
                  [inc_bundle])
            spans = _patch_body_range(md2.patch)
            if spans:
                lo, hi = spans[opts["pick"] % len(spans)]
                bad, _pos = _flip_letter(md2.patch, opts["pick"], lo, hi)
                if bad is not None:
                    md3 = _md.MergeDirective.from_lines(lines)
                    md3.patch = bad
                    check(md3._verify_patch(repo) is False and
                          md3.get_merge_request(repo)[2] == "failed",
                          "C40/tampered-patch-passes-verification",
                          [_pos])
        if inc_bundle:
            rng = ch.ancestry(cx.spec, cx.target) - ch.ancestry(cx.spec, w)
            recv = bz.init_repo("%s/mdrecv-%d%d" % (cx.dir, inc_patch,
                                                     inc_bundle), cx.fmt)
            recv.fetch(repo, bz.enc(w))
            with recv.lock_write():
                md2.install_revisions(recv)
            with recv.lock_read(), repo.lock_read():
                for rid in sorted(rng):
                    r = bz.enc(rid)
                    check(recv.has_revision(r) and
                          _testament(repo, r) == _testament(recv, r),
                          "C40/merge-directive-bundle-revision-differs", rid)
            if inc_patch:
                _tamper_bundle(cx, md2, lines, w, rng, opts, base64, bz2, _md)
    # format 1 directive
    for ptype in ("bundle", "diff", None):
        try:
            with repo.lock_write():      # the caller's job for format 1
                md = _md.MergeDirective.from_objects(
                    repo, bz.enc(cx.target), opts["time"], opts["tz"],
                    tb.base, patch_type=ptype, local_target_branch=tb,
                    public_branch=None if ptype == "bundle" else src_url,
                    message=msg)
        except Exception as e:  # noqa: BLE001 - triaged, else re-raised
            # a format 1 directive embeds a format 0.9 bundle of lca..target
            lca_id = None if lca in (None, b"null:") else lca.decode()
            if ptype != "bundle":
                raise
            if lca_id is None and isinstance(e, ValueError):
                cx.note(NULLBASE, ["md1", str(e)[:100]])
            elif type(e).__name__ == "NoSuchFile" and \
                    cx.dir_moves_for_v09(lca_id, cx.target):
                cx.note(DIRMOVE, ["md1", str(e)[:200]])
            elif cx.complex_for_v09(lca_id, cx.target):
                cx.note(F26, ["md1", "write", type(e).__name__,
                              str(e)[:200]])
            else:
                raise
            continue
        md2 = _md.MergeDirective.from_lines(md.to_lines())
        for fld in MD_FIELDS:
            if fld in ("time", "timezone") and _odd_negative_tz(opts["tz"]) \
                    and getattr(md, fld) != getattr(md2, fld):
                cx.note(TZPARSE, [opts["tz"], md.time, md2.time,
                                  md2.timezone])
                continue
            if md.patch == b"" and fld in ("patch", "patch_type"):
                # an empty diff (tree unchanged) is written as "no patch"
                check(md2.patch in (b"", None),
                      "C40/merge-directive1-empty-patch-became-content", fld)
                continue
            check(getattr(md, fld) == getattr(md2, fld),
                  "C40/merge-directive1-field-differs-after-round-trip",
                  [ptype, fld, repr(getattr(md, fld))[:200],
                   repr(getattr(md2, fld))[:200]])


def _tamper_bundle(cx, md2, lines, w, rng, opts, base64, bz2, _md):
    """One flipped letter inside a record body of the directive's bundle."""
    raw = md2.get_raw_bundle()
    head, body = raw.split(b"\n#\n", 1)
    payload = bz2.decompress(body)
    regions = [r for r in _v4_regions(payload) if r[0] in
               ("file", "inventory", "revision")]
    if not regions:
        return
    kind, lo, hi = regions[opts["pick"] % len(regions)]
    bad, pos = _flip_letter(payload, opts["pick"] // 7, lo, hi)
    if bad is None:
        return
    md3 = _md.MergeDirective.from_lines(lines)
    md3.bundle = base64.b64encode(head + b"\n#\n" + bz2.compress(bad))
    recv = bz.init_repo(cx.dir + "/tamper-recv", cx.fmt)
    recv.fetch(cx.repo, bz.enc(w))

    def install():
        with recv.lock_write():
            md3.install_revisions(recv)
    exc = _loud(install)
    cx.tamper = "%s:%s" % (kind, exc or "installed")
    if exc is not None:
        return
    res = {}

    def compare():
        with recv.lock_read(), cx.repo.lock_read():
            res["same"] = all(
                recv.has_revision(bz.enc(r)) and
                _testament(cx.repo, bz.enc(r)) == _testament(recv, bz.enc(r))
                for r in rng)
    # a corrupted revision may not even be readable any more
    same = _loud(compare) is None and res.get("same")
    if same:
        return
    detail = [kind, pos, payload[max(0, pos - 30):pos + 30].decode(
        "latin-1")]
    if kind == "revision":
        cx.note(SILENT_REV, detail)
    else:
        check(False, "C40/tampered-bundle-%s-record-installed-silently" %
              kind, detail)


def _tamper_v09(cx, data):
    """One flipped letter anywhere below the header of a 0.9 bundle."""
    from breezy.bzr.bundle import serializer as bser
    pick = cx.case["md"]["pick"]
    lo = data.index(b"\n") + 1
    bad, pos = _flip_letter(data, pick, lo)
    if bad is None:
        return
    recv = cx.receiver("t09")
    res = {}

    def go():
        info = bser.read_bundle(io.BytesIO(bad))
        with recv.lock_write():
            info.install_revisions(recv)
        with recv.lock_read(), cx.repo.lock_read():
            res["same"] = all(
                recv.has_revision(bz.enc(r)) and
                _testament(cx.repo, bz.enc(r)) == _testament(recv, bz.enc(r))
                for r in cx.range)
    exc = _loud(go)
    check(exc is not None or res.get("same"),
          "C40/tampered-v09-bundle-installed-silently",
          [pos, data[max(0, pos - 40):pos + 40].decode("latin-1")])


def _nontrivial(spec, rng):
    revs = {r["id"]: r for r in spec["revs"]}
    if not any(len(revs[r]["parents"]) > 1 for r in rng):
        return None
    if any(op[0] == "rename" for r in rng for op in revs[r]["ops"]):
        return "rename"
    for r in rng:
        for op in revs[r]["ops"]:
            c = op[5] if op[0] == "add" else op[2] if op[0] == "modify" \
                else None
            if isinstance(c, str) and ("\x00" in c or "\r" in c):
                return "binary"
    return None


def _leading_slash_ids(spec):
    return sorted({op[1] for r in spec["revs"] for op in r["ops"]
                   if op[0] == "add" and op[1].startswith("/")})


def run(case, env):
    cx = Ctx(case, env)
    bad_ids = _leading_slash_ids(cx.spec)
    if bad_ids:
        # 'file/<rev>/' + '//<id>' decodes as revision '<rev>/' + file '<id>':
        # every format 4 path is affected; only the bundle round trip is
        # attempted and any failure is this (known) class
        try:
            check_bundles(cx)
        except Expect as e:
            if e.signature in _known():
                raise
            cx.note(SLASHID, [bad_ids, e.signature])
        except Exception as e:  # noqa: BLE001 - reported under SLASHID
            cx.note(SLASHID, [bad_ids, type(e).__name__, str(e)[:200]])
        if cx.noted:
            return violation(cx.noted[0][0], cx.noted[0][1],
                             label="%s/leading-slash-file-id" % cx.fmt)
        return ok("%s/leading-slash-file-id" % cx.fmt)
    check_bundles(cx)
    check_merge(cx)
    check_directives(cx)
    label = None
    nt = _nontrivial(cx.spec, cx.range)
    if nt:
        label = "%s/merge+%s" % (cx.fmt, nt)
    if cx.noted:
        return violation(cx.noted[0][0], cx.noted[0][1], label=label)
    return ok(label) if label else trivial()


@st.composite
def case_strategy(draw, tier):
    fmt = draw(st.sampled_from(["2a", "pack-0.92"]))
    spec = draw(ch.spec_with_binary(
        n_min=4, n_max=8, merges=True, symlinks=True, execs=True, meta=True,
        odd_names=True, ops_max=4))
    if draw(st.integers(0, 5)) == 0:
        # file ids that collide with the '/'-separated record names of a
        # format 4 bundle unless they are escaped correctly
        fids = sorted({op[1] for r in spec["revs"] for op in r["ops"]
                       if op[0] == "add"})
        k = draw(st.integers(1, min(2, len(fids))))
        chosen = draw(st.lists(st.sampled_from(fids), min_size=k, max_size=k,
                               unique=True))
        forms = ["%s/x", "a/%s", "%s/", "a//%s", "%s%%2Fx", "/%s", "r1"]
        remap = {}
        for j, f in enumerate(chosen):
            form = draw(st.sampled_from(forms))
            remap[f] = (form % f) if "%s" in form else form + "-%d" % j
        for r in spec["revs"]:
            for op in r["ops"]:
                for i, v in enumerate(op):
                    if isinstance(v, str) and v in remap and i in (1, 2):
                        op[i] = remap[v]
    n = len(spec["revs"])
    ids = [r["id"] for r in spec["revs"]]
    pairs = []
    rich = []
    for t in range(1, n):
        anc = sorted(ch.ancestry(spec, ids[t]) - {ids[t]}, key=ids.index)
        for b in [None] + anc:
            pairs.append((t, b))
            if _nontrivial(spec, ch.ancestry(spec, ids[t]) -
                           ch.ancestry(spec, b)):
                rich.append((t, b))
    # seven out of eight cases take a pair whose range holds a merge and a
    # rename / binary file, when the history has one
    pool = rich if rich and draw(st.integers(0, 7)) else pairs
    t, b = draw(st.sampled_from(pool))
    # the tree that receives merges / the submit branch: a revision that has
    # the bundle base in its ancestry and does not already contain the target
    anc_t = ch.ancestry(spec, ids[t])
    cands = [i for i, r in enumerate(ids)
             if r != ids[t] and ids[t] not in ch.ancestry(spec, r) and
             (b is None or b in ch.ancestry(spec, r))]
    wtip = draw(st.sampled_from(cands)) if cands else None
    md = {"time": bz.T0 + draw(st.sampled_from([0, 1, 12345, 86399])),
          "tz": draw(st.sampled_from([0, 3600, -18000, 19800, -12600,
                                      -1800, 34200])),
          "message": draw(st.sampled_from([None, "merge this", "ünï msg",
                                           "two\nlines"])),
          "pick": draw(st.integers(0, 10000))}
    del anc_t
    return {"format": fmt, "spec": spec, "target": t,
            "base": None if b is None else ids.index(b), "wtip": wtip,
            "md": md}


# ------------------------------------------------ kind change of a file id

KINDCHANGE = "C40/v09-bundle-kind-change-of-a-file-id"
_KINDS = ["file", "symlink", "directory"]


def _make(root, path, kind, tag):
    ap = os.path.join(root, path)
    if kind == "file":
        with open(ap, "wb") as f:
            f.write(("text %s\n" % tag).encode())
    elif kind == "symlink":
        os.symlink("target-" + tag, ap)
    else:
        os.mkdir(ap)


def _unmake(root, path):
    ap = os.path.join(root, path)
    if os.path.isdir(ap) and not os.path.islink(ap):
        os.rmdir(ap)
    else:
        os.unlink(ap)


def run_kindchange(case, env):
    """An entry keeps its file id and changes kind between two revisions
    (what `rm f; ln -s x f; brz commit` records); optionally it is renamed in
    the same revision and another file is edited.  Every bundle format must
    install the revision with the source's testament."""
    from breezy.bzr.bundle import serializer as bser
    d = env.newdir()
    fmt = case["format"]
    wt = bz.init_tree(d + "/src", fmt)
    root = d + "/src"
    _make(root, "e", case["from"], "one")
    _make(root, "other", "file", "one")
    wt.add(["e", "other"], ids=[b"e-id", b"other-id"])
    wt.commit("one", rev_id=b"r1", timestamp=bz.T0, timezone=0,
              committer=bz.COMMITTER)
    _unmake(root, "e")
    name = "e"
    if case["rename"]:
        name = "e2"
    _make(root, name, case["to"], "two")
    if case["rename"]:
        wt.rename_one("e", "e2", after=True)
    if case["edit_other"]:
        _make(root, "other", "file", "two")
    wt.commit("two", rev_id=b"r2", timestamp=bz.T0 + 60, timezone=0,
              committer=bz.COMMITTER)
    repo = wt.branch.repository
    with repo.lock_read():
        check(repo.revision_tree(b"r2").kind(name) == case["to"] and
              repo.revision_tree(b"r2").path2id(name) == b"e-id",
              "C40/harness-kind-change-not-recorded", [case])
    noted = []
    formats = ["4", "0.9"] + (["0.8"] if fmt == "pack-0.92" else [])
    for f in formats:
        recv = bz.init_repo("%s/recv-%s" % (d, f.replace(".", "")), fmt)
        recv.fetch(repo, b"r1")
        out = io.BytesIO()
        try:
            with repo.lock_read():
                bser.write_bundle(repo, b"r2", b"r1", out, format=f)
            info = bser.read_bundle(io.BytesIO(out.getvalue()))
            with recv.lock_write():
                info.install_revisions(recv)
            with recv.lock_read(), repo.lock_read():
                check(recv.has_revision(b"r2"),
                      "C40/bundle-v%s-revision-missing-after-install" % f,
                      [case])
                a, b = _testament(repo, b"r2"), _testament(recv, b"r2")
                check(a == b, "C40/bundle-v%s-testament-differs" % f, [case])
        except Exception as e:  # noqa: BLE001 - classified, else re-raised
            if f == "4" or KINDCHANGE not in _known():
                raise
            noted.append((KINDCHANGE, [f, case, type(e).__name__,
                                       str(e)[:160]]))
    label = "%s/kind-change:%s->%s" % (fmt, case["from"], case["to"])
    if noted:
        return violation(noted[0][0], noted[0][1], label=label)
    return ok(label)


def enum_kindchange(tier):
    for fmt in ("2a", "pack-0.92"):
        for a in _KINDS:
            for b in _KINDS:
                if a == b:
                    continue
                for rename in (False, True):
                    for edit in (False, True):
                        yield {"format": fmt, "from": a, "to": b,
                               "rename": rename, "edit_other": edit}


def kinds(tier):
    return [
        Kind("kind-change", run_kindchange, enumerate=enum_kindchange,
             exhaustive=True),
        Kind("bundles", run, strategy=case_strategy(tier),
             examples={"quick": 200, "thorough": 5000}),
    ]
