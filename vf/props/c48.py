"""C48 - ignore patterns match according to their documented semantics.

Reference matcher (vf/lib/c48_ref.py, written from `brz help patterns`) against
Globster / ExceptionGlobster / WorkingTree.is_ignored, plus structure laws that
need no reference (single-pattern verdicts, permutation, duplication, padding
past the 99-patterns-per-regex batching).
"""

import os

from hypothesis import strategies as st

from vf.api import Kind, check, ok, trivial, violation
from vf.lib import c48_ref as R

PROPERTY = "C48"
LEVEL = "exploration"
TECHNIQUE = ("Hypothesis over a pattern/file-name grammar; independent recursive "
             "reference matcher + metamorphic structure laws")
RULE = ("A case = a file name of 1-3 components over {a,b,c,.,+,$,(,),{,},|,^,"
        "space,-,_,e-acute} and 0-8 patterns, about 3/4 of them derived from "
        "the file name (characters generalised to ?, *, [..], [!..], ranges, "
        "near-miss edits) in the documented shapes: basename, *.ext, dir/name, "
        "./name, **/name, dir/**/name, RE:regex, optional trailing slash; the "
        "list is padded in front/behind with 0-250 never-matching patterns per "
        "internal class (extension / basename / fullpath) so that the 99-per-"
        "regex batching is crossed. Kinds: plain Globster lists, lists with "
        "'!'/'!!' prefixes (ExceptionGlobster), the same through .bzrignore and "
        "WorkingTree.is_ignored, and two small kinds that witness the open "
        "findings (RE: patterns with inline flags / escaped parentheses), which "
        "the other kinds exclude by construction. Non-trivial: at least one "
        "pattern matches under the reference or > 99 patterns of one class are "
        "present; labelled by whether every matching pattern lies beyond "
        "position 99 of its class and by which exception level decides. "
        "Distinct by case hash.")
ASSUMPTIONS = [
    "python's re module decides RE: patterns (fullmatch on the text after RE:)",
    "a negated character group facing '/' in a whole-path pattern is "
    "unspecified by the documentation: either verdict is accepted (counted)",
    "file names are relative tree paths without empty, '.' or '..' components",
]
LEVEL_TEXT = ("Sampled pattern lists and names are decided by an independent "
              "recursive matcher written from the help topic, and the batching / "
              "ordering independence is checked metamorphically with up to 250 "
              "padding patterns per class; no exhaustive claim.")
LEVEL_NOTE = ("Trusts python re for RE: patterns and bzrformats' Rust Replacer / "
              "normalize_pattern as part of the subject's translation; globs "
              "outside the documented forms ('**' not followed by '/', "
              "backslashes, named classes) are not generated.")
REGISTERED = True
NONTRIVIAL_FLOOR = {"quick": 400, "thorough": 10000}

# ---------------------------------------------------------------- alphabet

_COMMON = "abc"
_SPECIAL = ".+$(){}|^ -_é"
_NAME_ALPHA = list(_COMMON * 8 + "...." + _SPECIAL)
_GROUPABLE = "abc.+$"


def _sane(s):
    if s in (".", ".."):
        return "a" + s[1:]
    if s[0] == " ":
        s = "a" + s[1:]
    if s[-1] == " ":
        s = s[:-1] + "a"
    return s


def _comp():
    return st.text(alphabet=st.sampled_from(_NAME_ALPHA), min_size=1,
                   max_size=3).map(_sane)


# ---------------------------------------------------------------- patterns

def _glob_of(draw, comp):
    """A glob for one path component, usually matching it."""
    out = []
    i = 0
    n = len(comp)
    while i < n:
        c = comp[i]
        k = draw(st.integers(0, 15))
        if k <= 7:
            out.append(c)
        elif k == 8:
            out.append("?")
        elif k in (9, 10):
            out.append("*")
            i += draw(st.integers(0, n - i))
            continue
        elif k == 11:
            if c in _GROUPABLE:
                other = draw(st.sampled_from(_GROUPABLE))
                body = c + other if draw(st.booleans()) else other + c
                out.append("[" + "".join(dict.fromkeys(body)) + "]")
            else:
                out.append(c)
        elif k == 12:
            neg = draw(st.sampled_from(["!", "^"]))
            other = draw(st.sampled_from([x for x in "abc" if x != c]))
            out.append("[" + neg + other + "]")
        elif k == 13:
            if c in "abc":
                out.append(draw(st.sampled_from(["[a-c]", "[!d-f]", "[a-cx]"])))
            else:
                out.append("[!a-c]")
        elif k == 14:
            # near miss: another literal / a group that excludes the character
            if c in "abc":
                out.append(draw(st.sampled_from(
                    [x for x in "abc" if x != c] + ["[!" + c + "]"])))
            else:
                out.append("a")
        else:
            out.append("*" if draw(st.booleans()) else "")
        i += 1
    g = "".join(out)
    while "**" in g:
        g = g.replace("**", "*")
    if not g:
        g = "*"
    if g in (".", ".."):
        # a pattern component "." is path canonicalisation ('./'), not a name
        g = "?" * len(g)
    return g


_RE_ESC = set(".+$(){}|^-?*[]\\")


def _re_lit(c, allow_paren):
    if c in "()" and not allow_paren:
        return "."
    if c in _RE_ESC:
        return "\\" + c
    return c


def _regex_of(draw, f, allow_paren=False):
    out = []
    i = 0
    n = len(f)
    while i < n:
        c = f[i]
        k = draw(st.integers(0, 13))
        lit = _re_lit(c, allow_paren)
        if k <= 6:
            out.append(lit)
        elif k == 7:
            out.append(".")
        elif k == 8:
            out.append(".*")
            i += draw(st.integers(0, n - i))
            continue
        elif k == 9:
            out.append("[^/]*")
            while i < n and f[i] != "/":
                i += 1
            continue
        elif k == 10 and c in "abc":
            out.append("[" + c + draw(st.sampled_from("abc")) + "]")
        elif k == 11 and c != "/":
            out.append("(" + lit + "|" + draw(st.sampled_from(["a", "bc", "x"]))
                       + ")")
        elif k == 12 and c in "abc":
            out.append(lit + draw(st.sampled_from(["+", "?", "*"])))
        elif k == 13:
            out.append(draw(st.sampled_from(["a", "b", "[ab]", "x?"])))
        else:
            out.append(lit)
        i += 1
    body = "".join(out)
    if body.endswith("/"):
        # a trailing slash is stripped from every pattern (documented for
        # patterns in general); keep regexes away from that corner
        body += "[^/]*"
    if draw(st.integers(0, 7)) == 0:
        body = body + "|" + draw(st.sampled_from(["a", "b/.*", "zz"]))
    return body


def _derived(draw, comps, allow_re=True):
    k = len(comps)
    shape = draw(st.integers(0, 11 if allow_re else 9))
    g = lambda c: _glob_of(draw, c)  # noqa: E731
    if shape in (0, 1):
        p = g(comps[-1])
    elif shape == 2:
        base = comps[-1]
        dots = [i for i, ch in enumerate(base) if ch == "."]
        if dots:
            d = draw(st.sampled_from(dots))
            ext = base[d + 1:]
            p = "*." + (g(ext) if ext else "")
        else:
            p = "*." + g(draw(st.sampled_from(["a", "b", "ab"])))
    elif shape == 3:
        p = "/".join(g(c) for c in comps)
        if k == 1:
            p = "./" + p
    elif shape == 4:
        p = "./" + "/".join(g(c) for c in comps[draw(st.integers(0, k - 1)):])
    elif shape == 5:
        j = draw(st.integers(0, k - 1))
        p = "**/" + "/".join(g(c) for c in comps[j:])
    elif shape == 6:
        if k >= 2:
            j = draw(st.integers(1, k - 1))
            p = g(comps[0]) + "/**/" + "/".join(g(c) for c in comps[j:])
        else:
            p = draw(st.sampled_from(["a", "b", "*"])) + "/**/" + g(comps[0])
    elif shape == 7:
        # a proper suffix / prefix of the path: whole-path patterns must not
        # match it, basename patterns may
        if k >= 2 and draw(st.booleans()):
            p = "/".join(g(c) for c in comps[:-1])
        else:
            p = "/".join(g(c) for c in comps[draw(st.integers(0, k - 1)):])
    elif shape == 8:
        p = "*/" * (k - 1) + g(comps[-1]) if k > 1 else "*/" + g(comps[-1])
    elif shape == 9:
        p = draw(_random_glob())
    else:
        return "RE:" + _regex_of(draw, "/".join(comps))
    if draw(st.integers(0, 9)) == 0 and not p.startswith("RE:"):
        p = p + "/"
    return p


def _join_atoms(xs):
    g = "".join(xs)
    while "**" in g:
        g = g.replace("**", "*")
    if g in (".", ".."):
        g = "?" * len(g)
    return g


@st.composite
def _random_glob(draw):
    atom = st.sampled_from(["a", "b", "c", ".", "*", "?", "[ab]", "[!a]",
                            "[a-c]", "+", "$", "("])
    name = st.lists(atom, min_size=1, max_size=4).map(_join_atoms)
    shape = draw(st.integers(0, 6))
    n1 = draw(name)
    if shape == 0:
        return n1
    if shape == 1:
        return "*." + draw(st.sampled_from(["a", "b", "ab", "a*", "[ab]", "?"]))
    if shape == 2:
        return n1 + "/" + draw(name)
    if shape == 3:
        return "./" + n1
    if shape == 4:
        return "**/" + n1
    if shape == 5:
        return n1 + "/**/" + draw(name)
    return "RE:" + draw(st.sampled_from(
        ["a.*", ".*\\.a", "(a|b)/.*", "[abc]+", ".*/a", "a|b", ".*",
         "[^/]*", "a?b*c+", "(a|b)(c|\\.)"]))


_PAD_CHOICES = [0, 0, 0, 0, 1, 50, 98, 99, 100, 101, 150, 198, 199, 250]


@st.composite
def gen_case(draw, exceptions=False, names=1):
    ncomp = draw(st.sampled_from([1, 1, 2, 2, 2, 3, 3]))
    comps = draw(st.lists(_comp(), min_size=ncomp, max_size=ncomp))
    if draw(st.integers(0, 2)) == 0:
        # a basename with an extension, so that *.ext patterns can match
        comps[-1] = _sane(comps[-1][:2] + "." + draw(st.sampled_from(
            ["a", "b", "ab", "a+", "c.a", "bak"])))
    n = draw(st.sampled_from([0, 1, 1, 2, 2, 3, 3, 4, 5, 6, 8]))
    pats = []
    for _ in range(n):
        if draw(st.integers(0, 3)) == 0:
            p = draw(_random_glob())
        else:
            p = _derived(draw, comps)
        if exceptions:
            pre = draw(st.sampled_from(["", "", "", "!", "!", "!!"]))
            if names > 1 and pre == "!!" and p.startswith("RE:") and \
                    "\\" in p:
                # open finding C48/ignore-file-double-exception-regex-...:
                # witnessed by its own kind, excluded here by construction
                pre = "!"
            p = pre + p
        pats.append(p)
    nlev = 3 if exceptions else 1
    front = [[draw(st.sampled_from(_PAD_CHOICES)) for _ in range(3)]
             for _ in range(nlev)]
    back = [[draw(st.sampled_from([0, 0, 0, 1, 99, 120])) for _ in range(3)]
            for _ in range(nlev)]
    case = {"f": "/".join(comps), "pats": pats, "front": front, "back": back,
            "perm": list(draw(st.permutations(list(range(n))))),
            "dup": draw(st.lists(st.integers(0, max(0, n - 1)), max_size=3))
            if n else []}
    if names > 1:
        extra = draw(st.lists(st.lists(_comp(), min_size=1, max_size=3).map(
            "/".join), max_size=names - 1))
        case["more"] = extra
    return case


_CLASSES = ("extension", "basename", "fullpath")
_LEVEL_PREFIX = ("", "!", "!!")


def _pads(level, counts, tag):
    pre = _LEVEL_PREFIX[level]
    out = []
    for cls, n in zip(_CLASSES, counts):
        for i in range(n):
            if cls == "extension":
                out.append("%s*.zz%s%d" % (pre, tag, i))
            elif cls == "basename":
                out.append("%szz%s%d" % (pre, tag, i))
            elif i % 2:
                out.append("%szz/q%s%d" % (pre, tag, i))
            else:
                out.append("%sRE:zz%s%d/.*" % (pre, tag, i))
    return out


def _padded(case):
    out = []
    for level, counts in enumerate(case["front"]):
        out.extend(_pads(level, counts, "f"))
    out.extend(case["pats"])
    for level, counts in enumerate(case["back"]):
        out.extend(_pads(level, counts, "b"))
    return out


def _shape_of(p):
    q = R.normalize(p)
    if q.startswith("RE:"):
        return "regex"
    if q != p:
        return "trailing-slash"
    if q.startswith("./"):
        return "rooted"
    if "**/" in q:
        return "dstar"
    if "/" in q:
        return "fullpath"
    if q.startswith("*."):
        return "extension"
    return "basename"


def _globbing():
    from breezy import globbing
    return globbing


def _singles(case, pats, f):
    """Reference and single-pattern verdicts; raises on disagreement."""
    G = _globbing().Globster
    refs = []
    unspecified = 0
    for p in pats:
        r = R.ref_match(p, f)
        got = G([p]).match(f)
        if r is None:
            unspecified += 1
            r = got is not None
        elif (got is not None) != r:
            check(False, "C48/%s-pattern-%s" % (
                _shape_of(p), "missed-match" if r else "false-match"),
                {"pattern": p, "file": f, "reference": r, "got": got})
        if got is not None:
            check(got == R.normalize(p),
                  "C48/reported-pattern-is-not-the-given-pattern",
                  {"pattern": p, "file": f, "got": got})
        refs.append(r)
    return refs, unspecified


def _beyond(case, pats, refs, level=0):
    """Every matching pattern sits behind >= 99 others of its class."""
    hit = [p for p, r in zip(pats, refs) if r]
    if not hit:
        return False
    return all(case["front"][level][_CLASSES.index(R.impl_class(p))] >= 99
               for p in hit)


def run_globster(case, env):
    G = _globbing().Globster
    f = case["f"]
    pats = case["pats"]
    refs, unspecified = _singles(case, pats, f)
    expect = any(refs)
    allowed = {R.normalize(p) for p, r in zip(pats, refs) if r}

    def law(name, lst):
        got = G(lst).match(f)
        if (got is not None) != expect:
            check(False, "C48/%s-list-%s" % (
                name, "loses-match" if expect else "gains-match"),
                {"case": case, "got": got, "matching": sorted(allowed)})
        if got is not None:
            check(got in allowed, "C48/%s-list-reports-non-matching-pattern"
                  % name, {"case": case, "got": got,
                           "matching": sorted(allowed)})

    law("plain", pats)
    law("permuted", [pats[i] for i in case["perm"]])
    law("duplicated", pats + [pats[i] for i in case["dup"]] + pats[:1])
    padded = _padded(case)
    law("padded", padded)
    law("padded-reversed", padded[::-1])
    big = max(case["front"][0][i] + case["back"][0][i] for i in range(3)) >= 99
    if expect:
        if _beyond(case, pats, refs):
            return ok("match:only-beyond-position-99")
        return ok("match:padded>99" if big else "match:short-list")
    if big and pats:
        return ok("nomatch:padded>99")
    return trivial()


def _expect_exception(pats, f, singles):
    """Documented precedence over per-pattern verdicts (dict pattern->bool)."""
    lv = {0: [], 1: [], 2: []}
    for p in pats:
        level, q = R.split_exception(p)
        if singles[p]:
            lv[level].append(R.normalize(q))
    if lv[2]:
        return 2, {"!!" + q for q in lv[2]}
    if lv[1]:
        return 1, None
    if lv[0]:
        return 0, set(lv[0])
    return None, None


def _exception_oracle(case, f, matcher_of, where):
    pats = case["pats"]
    stripped = [R.split_exception(p)[1] for p in pats]
    refs, unspecified = _singles(case, stripped, f)
    singles = {}
    for p, r in zip(pats, refs):
        singles[p] = singles.get(p, False) or r
    level, allowed = _expect_exception(pats, f, singles)
    got = matcher_of(_padded(case))(f)
    detail = {"case": case, "file": f, "got": got, "deciding-level": level,
              "allowed": sorted(allowed) if allowed else None}
    if level == 2:
        check(got is not None,
              "C48/%s-double-exception-does-not-override" % where, detail)
        check(got in allowed,
              "C48/%s-double-exception-reports-wrong-pattern" % where, detail)
    elif level == 1:
        check(got is None, "C48/%s-exception-does-not-override" % where,
              detail)
    elif level == 0:
        check(got is not None, "C48/%s-list-loses-match" % where, detail)
        check(got in allowed, "C48/%s-list-reports-non-matching-pattern"
              % where, detail)
    else:
        check(got is None, "C48/%s-list-gains-match" % where, detail)
    return level, refs, stripped


def run_exceptions(case, env):
    EG = _globbing().ExceptionGlobster
    f = case["f"]
    level, refs, stripped = _exception_oracle(
        case, f, lambda lst: EG(lst).match, "exception")
    # order independence
    perm = [case["pats"][i] for i in case["perm"]]
    got2 = EG(perm).match(f)
    got1 = EG(case["pats"]).match(f)
    check((got1 is None) == (got2 is None),
          "C48/exception-list-verdict-depends-on-order",
          {"case": case, "got": got1, "permuted": got2})
    if level is None:
        return trivial()
    levels = [R.split_exception(p)[0] for p in case["pats"]]
    lower_hit = any(r and lv < level for r, lv in zip(refs, levels))
    if level == 1:
        return ok("exception-overrides-a-match" if lower_hit
                  else "exception-matches-alone")
    if level == 2:
        return ok("double-exception-overrides-exception" if any(
            r and lv == 1 for r, lv in zip(refs, levels))
            else "double-exception-decides")
    beyond = _beyond(case, stripped, [r and lv == 0 for r, lv in
                                      zip(refs, levels)])
    return ok("plain-match:only-beyond-position-99" if beyond
              else "plain-match")


def run_tree(case, env):
    from breezy import workingtree
    from vf.lib import bz
    d = env.newdir("t")
    bz.init_tree(d)
    lines = _padded(case)
    with open(os.path.join(d, ".bzrignore"), "wb") as fh:
        fh.write("".join(p + "\n" for p in lines).encode("utf-8"))
    labels = []
    for f in [case["f"]] + list(case.get("more", [])):
        wt = workingtree.WorkingTree.open(d)
        with wt.lock_read():
            level, refs, stripped = _exception_oracle(
                case, f, lambda lst: wt.is_ignored, "tree-is_ignored")
        if level is not None:
            labels.append(level)
    if not labels:
        return trivial()
    return ok("tree:" + {2: "double-exception", 1: "exception",
                         0: "plain-match"}[max(labels)])


# ---------------------------------------------------------------- findings

@st.composite
def gen_flags(draw):
    comps = draw(st.lists(st.text(alphabet=st.sampled_from("abAB."),
                                  min_size=1, max_size=3).filter(
        lambda s: s not in (".", "..")), min_size=1, max_size=2))
    f = "/".join(comps)
    body = _regex_of(draw, f)
    body = "".join(c.swapcase() if draw(st.booleans()) else c for c in body)
    return {"f": f, "pat": "RE:(?i)" + body,
            "others": draw(st.lists(st.sampled_from(["a", "*.b", "x/y"]),
                                    max_size=2))}


def run_flags(case, env):
    """`RE:(?i)foo` is the help topic's own example of a case-insensitive
    pattern."""
    import re
    from breezy import lazy_regex
    G = _globbing().Globster
    f = case["f"]
    want = re.fullmatch(case["pat"][3:], f) is not None
    try:
        got = G([case["pat"]] + case["others"]).match(f)
    except lazy_regex.InvalidPattern as e:
        return violation("C48/re-inline-flag-pattern-rejected-as-invalid",
                         {"case": case, "error": str(e)[:300]},
                         label="re-inline-flags")
    allowed = {o for o in case["others"] if R.ref_match(o, f)}
    if want:
        allowed.add(case["pat"])
    check((got in allowed) if allowed else got is None,
          "C48/re-inline-flag-pattern-verdict",
          {"case": case, "got": got, "reference": sorted(allowed)})
    return ok("re-inline-flags") if want else trivial()


@st.composite
def gen_paren(draw):
    alpha = st.sampled_from(list("ab(()):?."))
    comps = draw(st.lists(st.text(alphabet=alpha, min_size=1, max_size=4).filter(
        lambda s: s not in (".", "..")), min_size=1, max_size=2))
    f = "/".join(comps)
    if "(" not in f and ")" not in f:
        f = f + "(a)"
    if draw(st.booleans()):
        body = _regex_of(draw, f, allow_paren=True)
    else:
        body = "".join("[%s]" % c if c in "()" and draw(st.booleans())
                       else _re_lit(c, True) for c in f)
    near = draw(st.sampled_from([f, f.replace("(", ":"), f.replace("(", "?"),
                                 f.replace("(", "")]))
    return {"f": near, "pat": "RE:" + body}


def run_paren(case, env):
    import re
    G = _globbing().Globster
    f = case["f"]
    body = case["pat"][3:]
    want = re.fullmatch(body, f) is not None
    got = G([case["pat"]]).match(f)
    literal = "\\(" in body or "[(]" in body
    if (got is not None) != want:
        sig = ("C48/re-literal-open-paren-mistranslated" if literal
               else "C48/regex-pattern-%s" % (
                   "missed-match" if want else "false-match"))
        return violation(sig, {"case": case, "got": got, "reference": want},
                         label="re-literal-paren")
    return ok("re-literal-paren") if (want and literal) else trivial()


@st.composite
def gen_bang_re(draw):
    comps = draw(st.lists(st.text(alphabet=st.sampled_from("ab.+$"),
                                  min_size=1, max_size=3).map(_sane),
                          min_size=1, max_size=2))
    f = "/".join(comps)
    if not any(c in f for c in ".+$"):
        f += ".a"
    body = "".join(_re_lit(c, False) for c in f)
    if draw(st.booleans()):
        body = body.replace("a", "[ab]", 1)
    return {"f": f, "pats": ["!!RE:" + body] + draw(st.lists(st.sampled_from(
        ["!*", "!RE:.*", "*.a", "!*.a"]), max_size=2))}


def run_bang_re(case, env):
    """.bzrignore line `!!RE:<regex with a backslash>`."""
    from breezy import workingtree
    from vf.lib import bz
    f = case["f"]
    status, level, allowed = _ref_ignored(case["pats"], f)
    d = env.newdir("t")
    bz.init_tree(d)
    with open(os.path.join(d, ".bzrignore"), "wb") as fh:
        fh.write("".join(p + "\n" for p in case["pats"]).encode("utf-8"))
    wt = workingtree.WorkingTree.open(d)
    with wt.lock_read():
        got = wt.is_ignored(f)
    if level == 2 and got not in allowed:
        return violation(
            "C48/ignore-file-double-exception-regex-backslashes-normalised",
            {"case": case, "got": got, "allowed": sorted(allowed)},
            label="ignore-file-!!RE-backslash")
    check(level == 2, "C48/harness-bang-re-generator", case)
    return ok("ignore-file-!!RE-backslash")


def _ref_ignored(pats, f):
    singles = {p: R.ref_match(R.split_exception(p)[1], f) for p in pats}
    level, allowed = _expect_exception(pats, f, singles)
    return ("ignored" if level in (0, 2) else "not-ignored"), level, allowed


def kinds(tier):
    return [
        Kind("globster", run_globster, strategy=gen_case(),
             examples={"quick": 2400, "thorough": 120000}),
        Kind("exceptions", run_exceptions, strategy=gen_case(exceptions=True),
             examples={"quick": 1600, "thorough": 70000}),
        Kind("tree-is-ignored", run_tree,
             strategy=gen_case(exceptions=True, names=3),
             examples={"quick": 320, "thorough": 10000}),
        Kind("re-inline-flags", run_flags, strategy=gen_flags(),
             examples={"quick": 64, "thorough": 800}),
        Kind("re-literal-paren", run_paren, strategy=gen_paren(),
             examples={"quick": 160, "thorough": 4000}),
        Kind("ignore-file-bang-bang-re", run_bang_re, strategy=gen_bang_re(),
             examples={"quick": 48, "thorough": 600}),
    ]
