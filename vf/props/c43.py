"""C43 - incremental uploads keep the remote directory equal to the uploaded
tree (upload plugin, remote = local directory)."""

import os

from hypothesis import strategies as st

from vf.api import Kind, check, ok, trivial, violation
from vf.lib import bz
from vf.lib import c43_upload as cu
from vf.lib import treemodel as tm

PROPERTY = "C43"
LEVEL = "exploration"
TECHNIQUE = ("model-based: generated linear histories in a real working tree, "
             "uploads through cmd_upload.run (incremental, --full, -r N "
             "--overwrite) to a local directory, directory snapshot compared "
             "with the abstract tree of the uploaded revision; listed defect "
             "classes are steered around by construction and exercised one by "
             "one as hand-written shapes")
RULE = ("histories: base tree of 4-9 entries (odd names, symlinks, optional "
        ".bzrignore-upload with bare-name patterns) uploaded first, then 2-7 "
        "commits of 1-4 edits each (add, modify, chmod, rename/move, delete, "
        "same-id kind change between file / directory / symlink, swap through a "
        "temporary name, rename chain onto a vacated name, directory rename + "
        "child edit); after each commit nothing, an incremental upload, --full, "
        "or an upload of an older revision (--overwrite when it is not a "
        "descendant of the remote one; now and then without --overwrite, which "
        "must be refused with DivergedUploadedTree and leave the remote as it "
        "was). An edit is dropped while generating "
        "(counted per class in case['excluded']) when the delta between the "
        "revision on the remote and the new tree would contain one of the listed "
        "F24 classes (vf.lib.c43_upload.listed_classes / full_upload_classes). "
        "shapes: 79 two-revision scenarios, one per hard shape; the 29 that fail "
        "are the open findings C43/shape:<name>:<failure>. Non-trivial: >= 2 "
        "uploads with a rename or kind change in an uploaded delta; the label "
        "lists the hard shapes the uploads went through. Distinct by case hash.")
ASSUMPTIONS = [
    "remote = local directory transport (dromedary LocalTransport is trusted)",
    "ignore patterns are bare names; .bzrignore / .bzrignore-upload themselves "
    "are neither required nor forbidden on the remote (the property is silent)",
    "symlink targets are relative, normalised and never leave the tree; the "
    "remote sits two levels inside the scratch directory with a canary beside it",
]
LEVEL_TEXT = ("Sampled histories over a 5-name namespace with every edit kind the "
              "property names; each upload is compared path by path (kind, "
              "bytes, exec bit, link target, marker). 14 root causes (29 shapes) "
              "are open findings and are excluded from the generated histories "
              "by construction, so the evidence covers the complement of those "
              "classes only.")
LEVEL_NOTE = ("What stays covered after the exclusions: renames of files and of "
              "directories with content, swaps (file/file, file/dir, dir/dir), "
              "rename chains, path re-use, edits and exec changes below renamed "
              "directories, in-place kind changes in all six directions (new "
              "symlinks at top level only), deletions of directories with "
              "content, stable ignore patterns, --full when nothing has to be "
              "deleted, --overwrite backwards.")
REGISTERED = True
NONTRIVIAL_FLOOR = {"quick": 100, "thorough": 3000}

R = tm.ROOT_ID


# ---------------------------------------------------------------- executor

def _upload_errors():
    from dromedary import errors as terr
    return (terr.PathError, terr.TransportError)


def run_history(case, env, sig_prefix):
    """Build the history, perform the uploads, compare after each one.
    Returns (n_uploads, failure) where failure is None or (signature, detail)."""
    root = env.newdir("c43")
    hist = cu.History(root, case.get("format", "2a"))
    # the remote sits two levels below the scratch directory; a canary next to
    # it must never change (containment)
    outer = os.path.join(root, "jail")
    remote = os.path.join(outer, "x", "remote")
    os.makedirs(remote)
    with open(os.path.join(outer, "canary"), "w") as f:
        f.write("canary\n")
    hist.commit(case["base"])
    n = 0
    on_remote = None
    for k, step in enumerate(case["steps"]):
        if step.get("ops") is not None:
            hist.commit(step["ops"])
        mode = step.get("upload")
        if mode is None:
            continue
        target = step.get("rev", len(hist.models) - 1)
        _assert_safe(hist.models[target])
        where = {"step": k, "mode": mode, "rev": target}
        if mode == "refused":
            # an older revision without --overwrite: documented refusal, and
            # the remote stays what the last upload made it
            from breezy.plugins.upload import cmds
            try:
                cu.upload(hist, remote, target, "incremental")
            except cmds.DivergedUploadedTree:
                pass
            else:
                return n, (sig_prefix + ":older-revision-uploaded-without-"
                           "overwrite", [where])
            target = on_remote
            where["compared-with"] = target
        patterns = cu.patterns_of(hist.models[target])
        try:
            if mode != "refused":
                cu.upload(hist, remote, target, mode)
        except _upload_errors() as e:
            return n, ("%s:upload-raises-%s" % (sig_prefix, type(e).__name__),
                       [where, str(e)[:300]])
        on_remote = target
        n += 1
        got, marker = cu.actual_remote(remote, patterns)
        want = cu.expected_remote(hist.models[target], patterns)
        diffs = cu.diff_remote(want, got)
        if diffs:
            classes = sorted(set(cu.classify_diff(d) for d in diffs))
            return n, ("%s:%s" % (sig_prefix, "+".join(classes)),
                       [where, diffs[:6]])
        check(marker is not None and marker[1] == cu.revid(target),
              "%s:marker-does-not-name-uploaded-revision" % sig_prefix,
              [where, marker])
        snap = bz.snapshot_fs(outer, skip=())
        check(sorted(p for p in snap if not p.startswith("x/")
                     and p != "x") == ["canary"]
              and snap["canary"][1] == "canary\n",
              "%s:wrote-outside-the-remote-directory" % sig_prefix,
              [where, sorted(snap)[:20]])
    return n, None


def _assert_safe(model):
    """Harness guard: no generated symlink may resolve outside the tree."""
    for fid, e in model.items():
        if e["kind"] != "symlink":
            continue
        t = e["content"]
        d = os.path.dirname(tm.path_of(model, fid))
        res = os.path.normpath(os.path.join(d, t))
        if t.startswith("/") or res == ".." or res.startswith("../"):
            raise AssertionError(("unsafe symlink target generated", t))


# ---------------------------------------------------------------- shapes

def F(fid, parent, name, text="text of %s\n", ex=False):
    return ["add", fid, parent, name, "file", text % name if "%s" in text
            else text, ex]


def D(fid, parent, name):
    return ["add", fid, parent, name, "directory", None, False]


def L(fid, parent, name, target):
    return ["add", fid, parent, name, "symlink", target, False]


BASE = [F("a", R, "a"), F("b", R, "b", ex=True), D("d", R, "d"),
        F("dx", "d", "x"), F("dy", "d", "y"), D("e", R, "e"),
        D("s", "d", "s"), F("dsz", "s", "z")]
BASE_L = BASE + [L("l", R, "l", "a"), L("dl", "d", "l", "x")]

SHAPES = {
    # --- renames
    "rename-file": (BASE, [["rename", "a", R, "c"]]),
    "rename-chain": (BASE, [["rename", "a", R, "c"], ["rename", "b", R, "a"]]),
    "swap-files": (BASE, [["rename", "a", R, "t"], ["rename", "b", R, "a"],
                          ["rename", "a", R, "b"]]),
    "swap-file-and-dir": (BASE, [["rename", "a", R, "t"],
                                 ["rename", "d", R, "a"],
                                 ["rename", "a", R, "d"]]),
    "swap-dirs": (BASE, [["rename", "d", R, "t"], ["rename", "e", R, "d"],
                         ["rename", "d", R, "e"]]),
    "rename-dir-edit-child": (BASE, [["rename", "d", R, "f"],
                                     ["modify", "dx", "edited\n"]]),
    "rename-dir-chmod-child": (BASE, [["rename", "d", R, "f"],
                                      ["chmod", "dx", True]]),
    "rename-dir-and-rename-child": (BASE, [["rename", "d", R, "f"],
                                           ["rename", "dx", "d", "z"]]),
    "rename-dir-and-move-child-out": (BASE, [["rename", "d", R, "f"],
                                             ["rename", "dx", R, "x"]]),
    "move-file-into-renamed-dir": (BASE, [["rename", "d", R, "f"],
                                          ["rename", "a", "d", "a"]]),
    "move-file-into-added-dir": (BASE, [D("g", R, "g"),
                                        ["rename", "a", "g", "a"]]),
    "move-file-into-existing-dir": (BASE, [["rename", "a", "e", "a"]]),
    "move-dir-into-dir": (BASE, [["rename", "e", "d", "e"]]),
    "move-subdir-out-delete-parent": (BASE, [["rename", "s", R, "s"],
                                             ["delete", "d"]]),
    "rename-dir-delete-nonempty-subdir": (BASE, [["rename", "d", R, "f"],
                                                 ["delete", "s"]]),
    "rename-dir-delete-empty-subdir": (BASE + [D("t", "d", "t")],
                                       [["rename", "d", R, "f"],
                                        ["delete", "t"]]),
    "rename-dir-delete-child-file": (BASE, [["rename", "d", R, "f"],
                                            ["delete", "dx"]]),
    "move-file-out-delete-dir": (BASE, [["rename", "dx", R, "x"],
                                        ["delete", "d"]]),
    # --- deletions and path re-use
    "delete-dir-with-content": (BASE, [["delete", "d"]]),
    "delete-dir-rename-file-onto-it": (BASE, [["delete", "d"],
                                              ["rename", "a", R, "d"]]),
    "delete-dir-rename-dir-onto-it": (BASE, [["delete", "d"],
                                             ["rename", "e", R, "d"]]),
    "delete-file-rename-onto-it": (BASE, [["delete", "a"],
                                          ["rename", "b", R, "a"]]),
    "delete-file-add-dir-there": (BASE, [["delete", "a"], D("a2", R, "a"),
                                         F("a2n", "a2", "n")]),
    "delete-dir-add-file-there": (BASE, [["delete", "d"], F("d2", R, "d")]),
    "replace-file-new-id-exec": (BASE, [["delete", "a"],
                                        F("a2", R, "a", "new\n", True)]),
    "rename-away-add-at-old-path": (BASE, [["rename", "a", R, "c"],
                                           F("a2", R, "a", "new\n", True)]),
    # --- exec bits
    "chmod-only": (BASE, [["chmod", "a", True], ["chmod", "b", False]]),
    "chmod-and-modify": (BASE, [["chmod", "a", True],
                                ["modify", "a", "edited\n"]]),
    "chmod-and-rename": (BASE, [["chmod", "a", True], ["rename", "a", R, "c"]]),
    "chmod-off-and-rename": (BASE, [["chmod", "b", False],
                                    ["rename", "b", R, "c"]]),
    "chmod-rename-modify": (BASE, [["chmod", "a", True], ["rename", "a", R, "c"],
                                   ["modify", "a", "edited\n"]]),
    "chmod-child-of-renamed-dir": (BASE, [["rename", "d", R, "f"],
                                          ["chmod", "dx", True]]),
    # --- kind changes (same file id)
    "file-to-dir": (BASE, [["kind", "a", "directory", None, False],
                           F("an", "a", "n")]),
    "empty-dir-to-file": (BASE, [["kind", "e", "file", "was a dir\n", True]]),
    "emptied-dir-to-file": (BASE, [["delete", "dx"], ["delete", "dy"],
                                   ["delete", "s"],
                                   ["kind", "d", "file", "was a dir\n", False]]),
    "dir-to-file-children-moved-out": (BASE, [["rename", "dx", R, "x"],
                                              ["delete", "dy"], ["delete", "s"],
                                              ["kind", "d", "file", "f\n",
                                               False]]),
    "file-to-dir-and-rename": (BASE, [["kind", "a", "directory", None, False],
                                      ["rename", "a", R, "c"]]),
    "dir-to-file-and-rename": (BASE, [["kind", "e", "file", "f\n", False],
                                      ["rename", "e", R, "c"]]),
    "kind-change-under-renamed-dir": (BASE, [["rename", "d", R, "f"],
                                             ["kind", "dx", "directory", None,
                                              False]]),
    "file-to-dir-move-file-into-it": (BASE, [["kind", "a", "directory", None,
                                              False], "COMMIT",
                                             ["rename", "b", "a", "b"]]),
    # --- symlinks
    "add-symlink-top-level-sibling-target": (BASE, [L("n", R, "n", "a")]),
    "add-symlink-top-level-dangling": (BASE, [L("n", R, "n", "nowhere")]),
    "add-symlink-top-level-into-dir": (BASE, [L("n", R, "n", "d/x")]),
    "add-symlink-in-subdir-sibling-target": (BASE, [L("n", "d", "n", "x")]),
    "add-symlink-in-subdir-parent-target": (BASE, [L("n", "d", "n", "../a")]),
    "retarget-symlink": (BASE_L, [["retarget", "l", "b"]]),
    "rename-symlink": (BASE_L, [["rename", "l", R, "m"]]),
    "move-symlink-into-dir": (BASE_L, [["rename", "l", "e", "l"]]),
    "delete-symlink": (BASE_L, [["delete", "l"], ["delete", "dl"]]),
    "symlink-to-file": (BASE_L, [["kind", "l", "file", "now a file\n", True]]),
    "file-to-symlink": (BASE, [["kind", "a", "symlink", "b", False]]),
    "symlink-to-dir": (BASE_L, [["kind", "l", "directory", None, False],
                                F("ln", "l", "n")]),
    "dir-to-symlink": (BASE, [["kind", "e", "symlink", "a", False]]),
    "rename-dir-holding-symlink": (BASE_L, [["rename", "d", R, "f"]]),
}

IGN = [F("ign", R, ".bzrignore-upload", "y\n")]
SHAPES.update({
    "ignore/base-has-ignored-file": (BASE + IGN, [["modify", "dy", "edited\n"],
                                                  ["modify", "dx", "edited\n"]]),
    "ignore/rename-ignored-to-unignored": (BASE + IGN,
                                           [["rename", "dy", "d", "w"]]),
    "ignore/rename-unignored-to-ignored": (BASE + IGN,
                                           [["rename", "a", R, "y"]]),
    "ignore/rename-unignored-into-ignored-dir": (
        BASE + IGN + [D("y2", R, "y")], [["rename", "a", "y2", "a"]]),
    "ignore/delete-dir-holding-ignored-file": (BASE + IGN, [["delete", "d"]]),
    "ignore/add-ignored-dir-with-content": (BASE + IGN, [
        D("y2", R, "y"), F("y2n", "y2", "n")]),
    "ignore/pattern-added-later": (BASE, IGN + [["modify", "dy", "edited\n"]]),
    "ignore/pattern-removed-later": (BASE + IGN, [["delete", "ign"]]),
    "ignore/pattern-changed-later": (BASE + IGN, [["modify", "ign", "x\n"]]),
    "ignore/bzrignore-file-added": (BASE, [F("bi", R, ".bzrignore", "*.o\n")]),
})

ODD = ["\u00e4", "a b", "x%41", "x~", "-dash", "#h", "a;b", "q?"]
SHAPES.update({
    "odd-names/files-and-dirs": (
        BASE, [F("o%d" % i, R, n) for i, n in enumerate(ODD)] +
        [D("od", R, "odd dir \u00e4"), F("odf", "od", "f %41")]),
    "odd-names/rename-and-delete": (
        BASE + [F("o%d" % i, R, n) for i, n in enumerate(ODD)],
        [["rename", "o0", R, "\u00e4 2"], ["rename", "o1", "d", "a b"],
         ["delete", "o2"], ["modify", "o3", "edited\n"],
         ["rename", "o5", R, "#h2"], ["delete", "o7"]]),
    "odd-names/top-level-symlinks": (
        BASE, [L("l%d" % i, R, n, "a") for i, n in enumerate(ODD)]),
    "odd-names/symlink-targets": (
        BASE + [F("o%d" % i, R, n) for i, n in enumerate(ODD)],
        [L("l%d" % i, R, "l%d" % i, n) for i, n in enumerate(ODD)]),
})
FULL_ODD = BASE + [F("o%d" % i, R, n) for i, n in enumerate(ODD)] + \
    [L("l%d" % i, "d", "l%d" % i, n) for i, n in enumerate(ODD)] + \
    [L("m%d" % i, "e", n, "a") for i, n in enumerate(ODD)]

# shapes whose second upload is not incremental
FULL_SHAPES = {
    "full/first-upload-with-subdir-symlink": (BASE_L, None),
    "full/first-upload-symlink-parent-target": (
        BASE + [L("n", "d", "n", "../a")], None),
    "full/first-upload-symlink-unnormalised-target": (
        BASE + [L("n", R, "n", "d/../a")], None),
    "full/first-upload-odd-names-and-symlinks": (FULL_ODD, None),
    "full/first-upload-symlink-below-odd-directory": (
        BASE + [D("od", R, "odd \u00e4"), L("odl", "od", "l", "a")], None),
    "full/over-older-remote-file-to-symlink": (
        BASE, [["kind", "a", "symlink", "b", False]]),
    "full/over-older-remote-dir-to-symlink": (
        BASE, [["kind", "e", "symlink", "b", False]]),
    "full/over-older-remote-after-delete": (BASE, [["delete", "a"],
                                                   ["delete", "d"]]),
    "full/over-older-remote-after-rename": (BASE, [["rename", "a", R, "c"]]),
    "full/over-older-remote-file-to-dir": (
        BASE, [["kind", "a", "directory", None, False], F("an", "a", "n")]),
    "full/over-older-remote-dir-to-file": (
        BASE, [["delete", "dx"], ["delete", "dy"], ["delete", "s"],
               ["kind", "d", "file", "f\n", False]]),
}


def shape_case(name):
    if name in SHAPES:
        base, ops = SHAPES[name]
        steps = [{"ops": None, "upload": "incremental"}]
        cur = []
        for op in ops:
            if op == "COMMIT":
                # several commits, one upload (a move into a directory made
                # by a kind change needs the kind change committed first)
                steps.append({"ops": cur, "upload": None})
                cur = []
            else:
                cur.append(op)
        steps.append({"ops": cur, "upload": "incremental"})
        return {"shape": name, "base": base, "steps": steps}
    base, ops = FULL_SHAPES[name]
    steps = [{"ops": None, "upload": "incremental"}]
    if ops is not None:
        steps.append({"ops": ops, "upload": "full"})
    return {"shape": name, "base": base, "steps": steps}


def enum_shapes(tier):
    for name in sorted(SHAPES) + sorted(FULL_SHAPES):
        yield {"shape": name}


def run_shape(case, env):
    full = shape_case(case["shape"])
    n, failure = run_history(full, env, "C43/shape:" + case["shape"])
    if failure is not None:
        return violation(failure[0], failure[1], label="shape")
    return ok("shape")


# ---------------------------------------------------------------- generator

SAFE_TARGETS = ["a", "b", "c", "nowhere", "d/e", "a/b"]   # normalised, no ".."


def _draw_candidate(draw, model, ids, fresh_dirs):
    """One edit (a list of ops, applicable in sequence to `model`)."""
    how = draw(st.sampled_from(["tm"] * 7 + ["symlink", "kind", "kind", "swap",
                                            "chain", "retarget",
                                            "dir-rename+child-edit"]))
    nonroot = sorted(f for f in model if f != R)
    if how == "tm":
        op = tm.draw_op(draw, model, ids, symlinks=False, odd_names=True,
                        kinds=["add", "add", "modify", "modify", "rename",
                               "rename", "rename", "delete", "chmod", "chmod",
                               "add_dir"])
        if op is None:
            return []
        if op[0] in ("add", "rename") and op[2] in fresh_dirs:
            # harness domain: until the kind change is committed the inventory
            # holds a file there; children arrive in a later commit
            return []
        return [op]
    if how == "symlink":
        parent = draw(st.sampled_from(tm.dirs(model)))
        if parent in fresh_dirs:
            return []
        free = [n for n in tm.NAMES if n not in tm.names_in(model, parent)]
        if not free:
            return []
        return [["add", ids.next(), parent, draw(st.sampled_from(free)),
                 "symlink", draw(st.sampled_from(SAFE_TARGETS)), False]]
    if how == "retarget":
        links = [f for f in nonroot if model[f]["kind"] == "symlink"]
        if not links:
            return []
        f = draw(st.sampled_from(links))
        return [["retarget", f, draw(st.sampled_from(
            [t for t in SAFE_TARGETS if t != model[f]["content"]]))]]
    if how == "kind":
        cands = [f for f in nonroot if model[f]["kind"] != "directory"
                 or not tm.children(model, f)]
        if not cands:
            return []
        f = draw(st.sampled_from(cands))
        kind = draw(st.sampled_from([k for k in ("file", "directory", "symlink")
                                     if k != model[f]["kind"]]))
        if kind == "file":
            return [["kind", f, "file", draw(tm.text_strategy()),
                     draw(st.booleans())]]
        if kind == "symlink":
            if any(ord(c) > 127 or c in " %~#;?" for c in model[f]["name"]):
                return []
            return [["kind", f, "symlink", draw(st.sampled_from(SAFE_TARGETS)),
                     False]]
        return [["kind", f, "directory", None, False]]
    if how == "swap":
        pair = tm.draw_swap(draw, model)
        if pair is None:
            return []
        x, y = pair
        par = model[x]["parent"]
        nx, ny = model[x]["name"], model[y]["name"]
        if "swap-tmp" in tm.names_in(model, par):
            return []
        return [["rename", x, par, "swap-tmp"], ["rename", y, par, nx],
                ["rename", x, par, ny]]
    if how == "chain":
        # x -> fresh name, y -> x's old name
        sibs = [(x, y) for x in nonroot for y in nonroot if x != y
                and model[x]["parent"] == model[y]["parent"]]
        if not sibs:
            return []
        x, y = draw(st.sampled_from(sibs))
        par = model[x]["parent"]
        free = [n for n in tm.NAMES + ["z"] if n not in tm.names_in(model, par)]
        if not free:
            return []
        return [["rename", x, par, draw(st.sampled_from(free))],
                ["rename", y, par, model[x]["name"]]]
    # rename a directory and edit a child's text
    ds = [f for f in nonroot if model[f]["kind"] == "directory" and
          any(model[c]["kind"] == "file" for c in tm.children(model, f))]
    if not ds:
        return []
    dd = draw(st.sampled_from(ds))
    par = model[dd]["parent"]
    free = [n for n in tm.NAMES + ["z"] if n not in tm.names_in(model, par)]
    if not free:
        return []
    child = draw(st.sampled_from([c for c in tm.children(model, dd)
                                  if model[c]["kind"] == "file"]))
    return [["rename", dd, par, draw(st.sampled_from(free))],
            ["modify", child, model[child]["content"] + "edited\n"]]


def _apply_all(model, ops):
    m = tm.clone(model)
    for op in ops:
        cu.apply_op_model(m, op)
    return m


@st.composite
def gen_history(draw):
    ids = tm.IdSource()
    cur = tm.new_model()
    base = tm.draw_ops(draw, cur, ids, n_min=4, n_max=9, symlinks=False,
                       odd_names=True, kinds=["add", "add", "add", "add_dir"])
    # a first (full) upload copes with symlinks anywhere
    for _ in range(draw(st.integers(0, 2))):
        cand = _draw_candidate(draw, cur, ids, set())
        if cand and cand[0][0] == "add" and cand[0][4] == "symlink":
            nxt = _apply_all(cur, cand)
            if cu.full_upload_classes(tm.new_model(), nxt):
                continue
            cur = nxt
            base += cand
    if draw(st.integers(0, 3)) == 0 and ".bzrignore-upload" not in \
            tm.names_in(cur, R):
        op = ["add", ids.next(), R, ".bzrignore-upload", "file",
              draw(st.sampled_from(["e\n", "c\n", "b\nd\n", "x~\n"])), False]
        cu.apply_op_model(cur, op)
        base.append(op)
    models = [tm.clone(cur)]
    steps = [{"ops": None, "upload": draw(st.sampled_from(
        ["incremental", "incremental", "full"]))}]
    up = 0                      # revision the remote holds
    excluded = {}
    n_steps = draw(st.integers(2, 7))
    for k in range(n_steps):
        ops = []
        fresh_dirs = set()
        for _ in range(draw(st.integers(1, 4))):
            cand = _draw_candidate(draw, cur, ids, fresh_dirs)
            if not cand:
                continue
            nxt = _apply_all(cur, cand)
            classes = cu.listed_classes(models[up], nxt)
            if classes:
                for c in classes:
                    excluded[c] = excluded.get(c, 0) + 1
                continue
            cur = nxt
            ops += cand
            for op in cand:
                if op[0] == "kind" and op[2] == "directory":
                    fresh_dirs.add(op[1])
        models.append(tm.clone(cur))
        i = len(models) - 1
        step = {"ops": ops, "upload": None}
        choice = draw(st.sampled_from(
            ["none", "incremental", "incremental", "incremental", "full",
             "back", "back"])) if k < n_steps - 1 else draw(st.sampled_from(
                 ["incremental", "incremental", "full"]))
        if choice == "full":
            fc = cu.full_upload_classes(models[up], cur)
            if fc:
                for c in fc:
                    excluded[c] = excluded.get(c, 0) + 1
                choice = "incremental"
            else:
                step["upload"] = "full"
                up = i
        if choice == "back":
            j = draw(st.integers(0, i - 1))
            if j < up and draw(st.integers(0, 3)) == 0:
                step["upload"] = "refused"
                step["rev"] = j
            elif j != up and not cu.listed_classes(models[up], models[j]) and \
                    not cu.listed_classes(models[j], cur):
                step["upload"] = "overwrite" if j < up else "incremental"
                step["rev"] = j
                up = j
            else:
                choice = "incremental"
        if choice == "incremental":
            step["upload"] = "incremental"
            up = i
        steps.append(step)
    return {"base": base, "steps": steps, "excluded": excluded}


def _features(old, new):
    """Hard shapes present in one uploaded delta (for the label histogram)."""
    d = cu.delta(old, new)
    op, np_ = d["old_path"], d["new_path"]
    out = set()
    vacated = set(op[f] for f in d["renamed"]) | set(op[f] for f in d["removed"])
    for f in d["renamed"]:
        out.add("rename")
        if old[f]["kind"] == "directory" and tm.children(old, f):
            out.add("dir-rename")
            kids = set(tm.descendants(new, f))
            if kids & (set(d["modified"]) | set(d["exec"]) | set(d["added"])
                       | set(d["removed"])):
                out.add("dir-rename+child-change")
        if np_[f] in vacated:
            out.add("path-reuse-by-rename")
    for f in d["kind"]:
        out.add("kind-change")
    for f in d["added"]:
        if np_[f] in vacated:
            out.add("path-reuse-by-add")
    for f in d["removed"]:
        if old[f]["kind"] == "directory" and tm.children(old, f):
            out.add("delete-dir-with-content")
    if d["exec"]:
        out.add("exec-change")
    return out


def run_generated(case, env):
    # what the uploads have to get right (for the label)
    m = tm.new_model()
    for op in case["base"]:
        cu.apply_op_model(m, op)
    models = [tm.clone(m)]
    up = None
    feats = set()
    for step in case["steps"]:
        if step.get("ops") is not None:
            for op in step["ops"]:
                cu.apply_op_model(m, op)
            models.append(tm.clone(m))
        if step.get("upload") is None:
            continue
        target = step.get("rev", len(models) - 1)
        if step["upload"] == "refused":
            feats.add("refused-older-revision")
            continue
        if up is not None:
            if step["upload"] == "full":
                listed = cu.full_upload_classes(models[up], models[target])
            else:
                listed = cu.listed_classes(models[up], models[target])
            if listed:
                # only reachable for hand-edited replay files
                raise AssertionError(("case contains a listed class",
                                      sorted(listed)))
            feats |= _features(models[up], models[target])
            if step["upload"] != "incremental":
                feats.add(step["upload"])
            if target < len(models) - 1 and step["upload"] == "incremental":
                feats.add("older-revision")
        up = target
    n, failure = run_history(case, env, "C43/history")
    if failure is not None:
        return violation(failure[0], failure[1])
    if n >= 2 and ("rename" in feats or "kind-change" in feats):
        feats.discard("rename")
        return ok("+".join(sorted(feats)) or "rename")
    return trivial()


def kinds(tier):
    return [
        Kind("shapes", run_shape, enumerate=enum_shapes, exhaustive=False,
             hash_cases=False),
        Kind("histories", run_generated, strategy=gen_history(),
             examples={"quick": 400, "thorough": 8000}),
    ]
