"""C11 - adding files versions exactly the intended paths.

A generated directory layout (files, directories, symlinks, ignore file, user
ignores, nested trees, conflict helper files, some paths already versioned)
and a smart_add call; the set of newly versioned paths is compared with a
reference walk written here, which uses the C48 reference matcher (bzr) or a
small gitignore matcher (git) for the ignore decisions."""

import fnmatch
import os

from hypothesis import strategies as st

from vf.api import Kind, check, ok, rejected, trivial
from vf.lib import bz
from vf.lib import c48_ref

PROPERTY = "C11"
LEVEL = "exploration"
TECHNIQUE = ("model-based testing of smart_add against an independent "
             "reference walk with an independent ignore matcher")
RULE = ("layout over the names a b c.o x.tmp ig d e keep.o (depth <= 3, "
        "files / directories / dangling symlinks), 0-4 ignore patterns from "
        "the grammar {name, *.ext, dir/, ./path | /path, dir/name, **/name, "
        "!exception, !!override} in .bzrignore / .gitignore plus 0-2 user "
        "ignores, 0-1 nested trees at depth 1-2, 0-2 text conflicts with "
        ".BASE/.THIS/.OTHER helper files (bzr), a parent-closed subset "
        "already versioned, and smart_add(paths, recurse) with 0-3 existing "
        "paths (absolute) or none (= whole tree), rarely a control directory "
        "(refusal). Non-trivial: >= 1 path is ignored and >= 1 named path "
        "matches an ignore pattern or lies below an ignored directory, or a "
        "nested tree is present, or conflict helper files are present. "
        "Distinct by case hash.")
ASSUMPTIONS = [
    "bzr ignore decisions: vf/lib/c48_ref.py (written from the patterns help "
    "topic); git: the gitignore subset implemented here (basename globs, "
    "directory-only, anchored paths, **/name, negation; the deepest matching "
    "prefix decides, as breezy's use of dulwich does)",
    "the user ignore file of the scratch home is written by the harness",
]
NONTRIVIAL_FLOOR = {"quick": 100, "thorough": 3000}

NAMES = ["a", "b", "c.o", "x.tmp", "ig", "d", "e", "keep.o", "ab"]
BZR_PATTERNS = ["ig", "*.o", "*.tmp", "ig/", "./a", "./d/b", "d/b", "d/ig",
                "**/e", "e", "!keep.o", "!!x.tmp", "b", "*.BASE"]
GIT_PATTERNS = ["ig", "*.o", "*.tmp", "ig/", "/a", "/d/b", "d/b", "d/ig",
                "**/e", "e", "!keep.o", "b", "d/"]
USER_PATTERNS = ["*.tmp", "ig", "*.o", "e"]


def join(d, n):
    return d + "/" + n if d else n


def parent(p):
    return p.rsplit("/", 1)[0] if "/" in p else ""


def inside(d, p):
    return d == "" or p == d or p.startswith(d + "/")


# ------------------------------------------------------------------ generator

@st.composite
def _layout(draw):
    lay = {}

    def fill(d, depth):
        names = draw(st.lists(st.sampled_from(NAMES), min_size=1, max_size=4,
                              unique=True))
        for n in names:
            p = join(d, n)
            r = draw(st.integers(0, 9))
            if depth < 2 and r < 4:
                lay[p] = "directory"
                fill(p, depth + 1)
            elif r == 9:
                lay[p] = "symlink"
            else:
                lay[p] = "file"
    fill("", 0)
    return lay


def gen_case(fmt):
    @st.composite
    def build(draw):
        git = fmt == "git"
        lay = draw(_layout())
        # one case in five: two sibling directories, one name a string prefix
        # of the other, both with contents and both named (walking "the
        # minimal parents" must not take the second for a child of the first)
        twins = []
        if draw(st.integers(0, 4)) == 0:
            for n in ("a", "ab"):
                if lay.get(n) != "directory":
                    lay[n] = "directory"
                if not any(inside(n, q) and q != n for q in lay):
                    lay[join(n, draw(st.sampled_from(["k", "b", "e"])))] = \
                        "file"
            twins = ["a", "ab"]
        dirs = sorted(p for p, k in lay.items() if k == "directory")
        nested = []
        if dirs and draw(st.integers(0, 9)) < 3:
            nested = [draw(st.sampled_from(dirs))]
        in_nested = lambda p: any(inside(n, p) and p != n for n in nested)  # noqa: E731
        pats = draw(st.lists(st.sampled_from(
            GIT_PATTERNS if git else BZR_PATTERNS), max_size=4, unique=True))
        upats = draw(st.lists(st.sampled_from(USER_PATTERNS), max_size=2,
                              unique=True)) if draw(st.booleans()) else []
        conflicts = []
        if not git and draw(st.integers(0, 9)) < 3:
            files = sorted(p for p, k in lay.items()
                           if k == "file" and not in_nested(p))
            if files:
                conflicts = draw(st.lists(st.sampled_from(files), min_size=1,
                                          max_size=2, unique=True))
                for c in conflicts:
                    for suf in (".BASE", ".THIS", ".OTHER"):
                        lay[c + suf] = "file"
        # already versioned: closed under parents, outside nested trees
        pre = []
        for p in sorted(lay):
            if in_nested(p) or p in nested:
                continue
            if draw(st.integers(0, 9)) < 3 and (
                    parent(p) == "" or parent(p) in pre or git):
                if git and lay[p] == "directory":
                    continue
                pre.append(p)
        cands = sorted(p for p in lay if not in_nested(p))
        named = []
        if cands and draw(st.integers(0, 9)) < 8:
            named = draw(st.lists(st.sampled_from(cands), min_size=1,
                                  max_size=3, unique=True))
        if twins and not any(t in nested or in_nested(t) for t in twins):
            named = twins + [n for n in named if n not in twins][:1]
        if not git and draw(st.sampled_from([False] * 24 + [True])):
            named = named + [".bzr"]
        return {"fmt": fmt, "layout": sorted(lay.items()),
                "nested": nested, "patterns": pats, "user": upats,
                "nested_other": bool(nested) and draw(st.booleans()),
                "conflicts": conflicts, "versioned": pre, "named": named,
                "recurse": draw(st.integers(0, 9)) < 8,
                # the add action: the default one, an explicit AddAction, or
                # the size-limited one (limit 20 MB: nothing here is skipped)
                "action": draw(st.sampled_from(
                    [None, None, "plain"] + ([] if git else ["skip-large"]))),
                # a dry run on the same tree object under another ignore
                # file first (caches of a long-lived object must not leak
                # into the real call)
                "warm": draw(st.lists(st.sampled_from(
                    GIT_PATTERNS if git else BZR_PATTERNS), max_size=3,
                    unique=True)) if draw(st.sampled_from(
                        [True] + [False] * (9 if git else 3))) else None}
    return build()


# ------------------------------------------------------------------ reference

def bzr_ignored(patterns, path):
    verdict, _ = c48_ref.ref_ignored(patterns, path)
    return verdict      # "ignored" | "not-ignored" | "unspecified"


def _git_match(pat, rel, isdir):
    if pat.startswith("!"):
        pat = pat[1:]
    dironly = pat.endswith("/")
    body = pat.rstrip("/")
    if dironly and not isdir:
        return False
    anchored = False
    if body.startswith("**/"):
        body = body[3:]
    elif body.startswith("/"):
        body = body[1:]
        anchored = True
    if "/" in body:
        anchored = True
    if not anchored:
        return fnmatch.fnmatchcase(rel.rsplit("/", 1)[-1], body)
    a, b = rel.split("/"), body.split("/")
    return len(a) == len(b) and all(
        fnmatch.fnmatchcase(x, y) for x, y in zip(a, b))


def git_ignored(patterns, path, isdir):
    """breezy asks dulwich for every pattern matching any leading part of the
    path (directories with a trailing slash) and lets the last one decide."""
    parts = path.split("/")
    decision = False
    for i in range(1, len(parts) + 1):
        rel = "/".join(parts[:i])
        d = True if i < len(parts) else isdir
        last = None
        for pat in patterns:
            if _git_match(pat, rel, d):
                last = pat
        if last is not None:
            decision = not last.startswith("!")
    return decision


class Ref:
    def __init__(self, case, before):
        self.case = case
        self.git = case["fmt"] == "git"
        self.lay = dict((p, k) for p, k in case["layout"])
        ign = ".gitignore" if self.git else ".bzrignore"
        if case["patterns"]:
            self.lay[ign] = "file"
        self.nested = set(case["nested"])
        self.helpers = set()
        for c in case["conflicts"]:
            self.helpers.update([c + ".BASE", c + ".THIS", c + ".OTHER"])
        self.exp = set(before)
        self.unspecified = False
        self.ignored_seen = set()

    def children(self, d):
        return sorted(p for p in self.lay if parent(p) == d and p != "")

    def is_ignored(self, p):
        if self.git:
            if bzr_ignored(self.case["user"], p) == "ignored":
                return True
            return git_ignored(self.case["patterns"], p,
                               self.lay[p] == "directory")
        v = bzr_ignored(self.case["patterns"] + self.case["user"], p)
        if v == "unspecified":
            self.unspecified = True
        return v == "ignored"

    def add_with_parents(self, p):
        while p != "":
            self.exp.add(p)
            p = parent(p)

    def run(self, named, recurse):
        roots = named if named else [""]
        if self.git:
            return self.run_git(roots, recurse)
        for p in roots:
            if p:
                self.add_with_parents(p)
        if not recurse:
            return
        todo = [p for p in roots if p == "" or self.lay[p] == "directory"]
        i = 0
        while i < len(todo):
            d = todo[i]
            i += 1
            if d != "" and d in self.nested:
                continue           # versioned or not: never descended into
            if d != "":
                self.exp.add(d)
            for c in self.children(d):
                if c in self.exp:
                    if self.lay[c] == "directory":
                        todo.append(c)
                    continue
                if self.is_ignored(c):
                    self.ignored_seen.add(c)
                    continue
                if c in self.helpers:
                    continue
                if self.lay[c] == "directory":
                    if c in self.nested:
                        continue
                    todo.append(c)
                else:
                    self.exp.add(c)

    def run_git(self, roots, recurse):
        todo = []
        for p in roots:
            if p == "" or self.lay[p] == "directory":
                if recurse:
                    todo.append(p)
            else:
                self.exp.add(p)
        i = 0
        while i < len(todo):
            d = todo[i]
            i += 1
            if d != "" and d in self.nested:
                continue
            for c in self.children(d):
                if self.is_ignored(c):
                    self.ignored_seen.add(c)
                    continue
                if self.lay[c] == "directory":
                    todo.append(c)
                else:
                    self.exp.add(c)


# ------------------------------------------------------------------ subject

def materialize(case, root):
    fmt = "git" if case["fmt"] == "git" else "2a"
    wt = bz.init_tree(root, fmt)
    for p, k in case["layout"]:
        ap = os.path.join(root, p)
        if k == "directory":
            os.mkdir(ap)
        elif k == "symlink":
            os.symlink("nowhere", ap)
        else:
            with open(ap, "wb") as f:
                f.write(("content of %s\n" % p).encode("utf-8"))
    for n in case["nested"]:
        # the nested tree is built next to the tree and its control directory
        # moved in (creating it in place would look for the containing tree)
        side = root + ".nested"
        nfmt = fmt
        if case.get("nested_other"):
            # a nested tree of the other family (bzr tree inside a git tree
            # and the reverse) is a nested tree all the same
            nfmt = "2a" if fmt == "git" else "git"
        bz.init_tree(side, nfmt)
        ctl = ".git" if nfmt == "git" else ".bzr"
        os.rename(os.path.join(side, ctl), os.path.join(root, n, ctl))
        os.rmdir(side)
    if case["patterns"]:
        name = ".gitignore" if fmt == "git" else ".bzrignore"
        with open(os.path.join(root, name), "wb") as f:
            f.write("".join(p + "\n" for p in case["patterns"]).encode())
    if case["versioned"]:
        wt.add(list(case["versioned"]))
    if case["conflicts"]:
        from breezy.bzr import conflicts as _c
        wt.set_conflicts([_c.TextConflict(p) for p in case["conflicts"]])
    bz.age_files(root)
    return wt


def snapshot(wt, git):
    out = {}
    with wt.lock_read():
        for p in wt.all_versioned_paths():
            if p == "":
                continue
            fid = wt.path2id(p)
            out[p] = [fid.decode("utf-8") if isinstance(fid, bytes) else fid,
                      wt.stored_kind(p)]
    return out


def _set_user_ignores(patterns):
    from breezy import bedding
    path = bedding.user_ignore_config_path()
    with open(path, "wb") as f:
        f.write("".join(p + "\n" for p in patterns).encode("utf-8"))


def run(case, env):
    from breezy import errors
    git = case["fmt"] == "git"
    root = os.path.join(env.newdir(), "t")
    _set_user_ignores(case["user"])
    try:
        wt = materialize(case, root)
        if case.get("warm") is not None:
            ign = os.path.join(root, ".gitignore" if git else ".bzrignore")
            had = os.path.exists(ign)
            keep = open(ign, "rb").read() if had else None
            with open(ign, "wb") as f:
                f.write("".join(p + "\n" for p in case["warm"]).encode())
            pre = snapshot(wt, git)
            wt.smart_add([root], recurse=True, save=False)
            if had:
                with open(ign, "wb") as f:
                    f.write(keep)
            else:
                os.unlink(ign)
            bz.age_files(root)
            check(snapshot(wt, git) == pre, "C11/dry-run-changed-the-tree",
                  {"warm": case["warm"]})
        before = snapshot(wt, git)
        ref = Ref(case, before)
        named = list(case["named"])
        args = [os.path.join(root, p) for p in named] or [root]
        refused = None
        kw = {}
        if case.get("action") == "plain":
            from breezy.add import AddAction
            kw["action"] = AddAction()
        elif case.get("action") == "skip-large":
            from breezy.add import AddWithSkipLargeAction
            kw["action"] = AddWithSkipLargeAction()
        try:
            wt.smart_add(args, recurse=case["recurse"], **kw)
        except (errors.ForbiddenControlFileError,
                errors.BadFileKindError) as e:
            refused = type(e).__name__
        wt = bz.open_tree(root)
        after = snapshot(wt, git)
    finally:
        _set_user_ignores([])
    if refused is not None:
        check(".bzr" in named, "C11/refused-without-control-file-or-bad-kind",
              {"named": named, "error": refused})
        check(after == before, "C11/refusal-changed-the-tree",
              {"new": sorted(set(after) - set(before))})
        return rejected(refused, label="refused")
    check(".bzr" not in named, "C11/control-directory-accepted",
          {"named": named})
    ref.run(named, case["recurse"])
    if ref.unspecified:
        return rejected("ignore verdict unspecified by the documentation")
    # already versioned entries keep id and kind
    for p, e in before.items():
        check(after.get(p) == e, "C11/versioned-entry-changed",
              {"path": p, "before": e, "after": after.get(p)})
    new = set(after) - set(before)
    want = set(ref.exp) - set(before)
    lay = ref.lay
    if git:
        new = set(p for p in new if lay.get(p) != "directory")
        want = set(p for p in want if lay.get(p) != "directory")
    if new != want and case.get("warm") is not None:
        # explained by the rules of the earlier dry run on the same object?
        stale = Ref(dict(case, patterns=case["warm"]), before)
        if case["patterns"]:
            stale.lay[".gitignore" if git else ".bzrignore"] = "file"
        stale.run(named, case["recurse"])
        swant = set(stale.exp) - set(before)
        if git:
            swant = set(p for p in swant if lay.get(p) != "directory")
        check(new != swant, "C11/ignore-file-change-not-seen-by-same-tree-"
              "object-" + ("git" if git else "bzr"),
              {"earlier_rules": case["warm"], "rules": case["patterns"],
               "named": named, "extra": sorted(new - want),
               "missing": sorted(want - new)})
    if new != want:
        extra, missing = sorted(new - want), sorted(want - new)
        sig = "C11/added-set-differs"
        pats = case["patterns"] + case["user"]
        if extra and not missing:
            if any(any(inside(n, p) and p != n for n in case["nested"])
                   for p in extra):
                sig = "C11/added-below-nested-tree"
            elif any(p in ref.helpers for p in extra):
                sig = "C11/added-conflict-helper"
            elif any(ref.is_ignored(p) or any(
                    ref.is_ignored(a) for a in _ancestors(p))
                    for p in extra):
                sig = "C11/added-ignored-path"
            else:
                sig = "C11/added-unexpected-path"
        elif missing and not extra:
            if any(p in named or any(inside(p, q) for q in named)
                   for p in missing):
                sig = "C11/named-path-or-parent-not-added"
            else:
                sig = "C11/unignored-descendant-not-added"
        check(False, sig + ("-git" if git else "-bzr"),
              {"extra": extra, "missing": missing, "patterns": pats,
               "named": named, "recurse": case["recurse"],
               "nested": case["nested"]})
    # non-triviality
    ignored_any = bool(ref.ignored_seen) or any(
        ref.is_ignored(p) for p in lay)
    named_hit = any(ref.is_ignored(p) or any(
        ref.is_ignored(a) for a in _ancestors(p)) for p in named)
    labels = []
    if ignored_any and named_hit:
        labels.append("named-path-ignored")
    if case["nested"]:
        labels.append("nested-tree")
    if case["conflicts"]:
        labels.append("conflict-helpers")
    if not labels:
        return trivial()
    return ok("+".join(labels))


def _ancestors(p):
    out = []
    p = parent(p)
    while p:
        out.append(p)
        p = parent(p)
    return out


def kinds(tier):
    return [
        Kind("bzr", run, strategy=gen_case("bzr"),
             examples={"quick": 350, "thorough": 12000}),
        Kind("git", run, strategy=gen_case("git"),
             examples={"quick": 250, "thorough": 8000}),
    ]


REGISTERED = True
LEVEL_TEXT = ("Generated layouts, ignore rules and add requests compared "
              "with a reference walk; a sample of a combinatorial space, no "
              "exhaustiveness claim.")
LEVEL_NOTE = ("Trusts the reference walk in this module, the C48 reference "
              "matcher for bzr patterns and the gitignore subset implemented "
              "here for git (dulwich decides for the real tree).")
