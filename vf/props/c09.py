"""C09 - working trees behave like an abstract versioned file system.

A generated sequence of file system edits and working tree operations is run
against a real bzr (dirstate, 2a) or git working tree and against the
reference model vf/lib/c09_model.py; after every step the tree is observed
under a fresh read lock and compared with the model; `reopen` drops every
object and re-opens the tree from disk."""

import os
import shutil

from hypothesis import strategies as st

from vf.api import Kind, check, ok, trivial
from vf.lib import bz
from vf.lib.c09_model import (Model, ModelError, base, depth, inside, join,
                              parent)

PROPERTY = "C09"
LEVEL = "exploration"
TECHNIQUE = ("stateful model-based testing: generated operation sequences "
             "run against a real working tree and an abstract tree model, "
             "full observation compared after every step and across re-open")
RULE = ("Hypothesis draws a sequence of 5..30 (thorough 60) steps over the "
        "names a-e, ab, a.b at depth <= 3 while simulating the model, so every "
        "argument is drawn from the current state (versioned / unversioned / "
        "missing paths, applicable and deliberately inapplicable targets): "
        "write, mkdir, symlink, chmod, delete-on-disk, kind change, add, "
        "smart_add, remove(keep|force), rename_one, move, commit, revert "
        "(all | one path), reopen, observe at lock depth 1-3, "
        "set_parent_ids to an older commit and back (bzr); once for bzr 2a "
        "(dirstate), once for git and once for a format-3 (inventory file) "
        "bzr tree. Non-trivial: the sequence contains a reopen "
        "after >= 3 successful mutations of which >= 1 is a rename/move or "
        "remove, or a re-add after a remove, or a kind change followed by a "
        "revert. Distinct by case hash.")
ASSUMPTIONS = [
    "the harness' own os-level edits and os.walk snapshot are correct",
    "file mtimes are moved 5 s into the past after every step so that the "
    "dirstate's same-second window never decides a result",
    "inputs excluded by construction: a path with versioned children that "
    "is a non-directory on disk (trusted-base assertion), git index paths "
    "nested below other index paths, paths that traverse symlinks, git "
    "trees with self-looping symlinks (dulwich's ignore manager dies with "
    "ELOOP), bzr operations whose outcome depends on the kind the dirstate "
    "remembers for an entry whose kind changed on disk since it was recorded",
    "revert: after a full revert the harness deletes every unversioned "
    "path (backups / .moved files are not part of the property); a full "
    "revert that would have to destroy unversioned directory content is not "
    "generated; revert of one path is generated only for a newly added leaf, "
    "a non-directory at the same path in both trees, or a removed "
    "non-directory with unchanged parent and free path (and for git only "
    "when similarity rename detection cannot pair the path with another)",
    "git: status is compared in split form (remove + add; rename and copy "
    "detection is similarity based), unknowns are compared for regular files "
    "only; bzr: unknowns below an entry whose recorded kind is unknown are "
    "not compared",
    "steps that meet the precondition of an already listed defect are kept "
    "at 1/6 of their natural frequency so that sequences get past them",
]
NONTRIVIAL_FLOOR = {"quick": 60, "thorough": 1000}

# (ab and a.b: names that extend another name as strings but are different
# paths; '.' sorts before '/', 'b' after it)
NAMES = ["a", "b", "c", "d", "e", "ab", "a.b"]
TEXTS = ["", "alpha\n", "beta\n", "alpha\nbeta\n", "gamma", "delta\nzeta\n"]
TARGETS = ["nowhere", "a", "b", "../a", "d", "../d", "d/a", "c/e"]
MAX_DEPTH = 3


# ------------------------------------------------------------------ generator

def _pick(draw, xs):
    return draw(st.sampled_from(sorted(xs)))


def _new_path(draw, m):
    ds = [d for d in [""] + [p for p, e in m.disk.items()
                             if e[0] == "directory"] if depth(d) < MAX_DEPTH]
    ds = [d for d in ds if len(m.children(d)) < len(NAMES)]
    if not ds:
        return None
    d = _pick(draw, ds)
    used = set(m.children(d))
    free = [n for n in NAMES if n not in used]
    # half of the time a name of the a / ab / a.b family, so that siblings
    # whose names extend one another actually meet
    fam = [n for n in free if n.startswith("a")]
    if fam and draw(st.booleans()):
        return join(d, _pick(draw, fam))
    return join(d, _pick(draw, free))


def _pick_ver(draw, m, ver):
    """A versioned path; half of the time a directory with versioned
    children when there is one (the hard shape for rename / move / remove)."""
    rich = [p for p in ver if m.has_versioned_children(p)]
    twins = _twins(ver)
    dtwins = [p for p in twins if m.real_dir(p)]
    if dtwins and draw(st.integers(0, 2)) == 0:
        return _pick(draw, dtwins)
    if twins and draw(st.integers(0, 3)) == 0:
        return _pick(draw, twins)
    if rich and draw(st.booleans()):
        return _pick(draw, rich)
    return _pick(draw, ver)


def _twins(paths):
    """Paths that another path of the list extends as a string without being
    below them (lib / lib.txt / library): where a prefix test without the
    separator goes wrong."""
    return [p for p in paths if any(
        q != p and q.startswith(p) and not q.startswith(p + "/")
        for q in paths)]


def _any_path(draw, m):
    """Some path of the namespace, existing or not."""
    pool = set(m.disk) | set(m.versioned_paths())
    d = _pick(draw, [""] + [p for p in pool if depth(p) < MAX_DEPTH])
    return join(d, draw(st.sampled_from(NAMES)))


OPS = (["write"] * 5 + ["mkdir"] * 3 + ["symlink"] * 2 + ["chmod"] * 2 +
       ["rm_disk"] * 3 + ["change_kind"] * 2 + ["add"] * 6 +
       ["smart_add"] * 3 + ["remove"] * 4 + ["rename_one"] * 6 +
       ["move"] * 6 + ["commit"] * 3 + ["revert"] * 2 + ["reopen"] * 3 +
       ["observe"] * 1 + ["reset_parents"] * 1 + ["rebase"] * 2 +
       ["mv_disk"] * 3)


# what a stretch under one lock mostly does
LOCKED_OPS = ["mv_disk", "mv_disk", "move", "move", "rename_one",
              "rename_one", "rm_disk", "remove", "add", "write"]


def draw_step(draw, m, op=None):
    explicit = op
    if op is None:
        op = draw(st.sampled_from(OPS))
    files = [p for p, e in m.disk.items() if e[0] == "file"]
    links = [p for p, e in m.disk.items() if e[0] == "symlink"]
    ver = m.versioned_paths()
    unver = [p for p in m.disk if not m.is_versioned(p)]
    if explicit is None and draw(st.integers(0, 2)) == 0 and any(
            m.kind(p) is None for p in _twins(ver)):
        # a missing versioned path whose name another one extends: let a
        # commit drop it now
        return ["commit"]
    if op == "write":
        if files and draw(st.booleans()):
            p = _pick(draw, files)
            c = draw(st.sampled_from(TEXTS))
            # (content and mode of the same file edited together half of
            # the time)
            x = m.disk[p][2]
            return ["write", p, c, (not x) if draw(st.booleans()) else x]
        p = _new_path(draw, m)
        if p is None:
            return None
        return ["write", p, draw(st.sampled_from(TEXTS)), draw(st.booleans())]
    if op == "mkdir":
        p = _new_path(draw, m)
        if p is None or depth(p) > MAX_DEPTH - 1:
            return None
        return ["mkdir", p]
    if op == "symlink":
        if links and draw(st.integers(0, 3)) == 0:
            p = _pick(draw, links)
        else:
            p = _new_path(draw, m)
        if p is None:
            return None
        return ["symlink", p, draw(st.sampled_from(TARGETS))]
    if op == "chmod":
        if not files:
            return None
        p = _pick(draw, files)
        return ["chmod", p, not m.disk[p][2]]
    if op == "rm_disk":
        if not m.disk:
            return None
        twins = [p for p in _twins(m.versioned_paths()) if p in m.disk]
        # best: a directory whose name is extended by the name of another
        # directory that has versioned children (a, ab/x)
        best = [p for p in twins if m.real_dir(p) and any(
            q.startswith(p) and not q.startswith(p + "/") and
            m.has_versioned_children(q) for q in m.versioned_paths())]
        if best and draw(st.integers(0, 3)) != 0:
            return ["rm_disk", _pick(draw, best)]
        if twins and draw(st.booleans()):
            return ["rm_disk", _pick(draw, twins)]
        return ["rm_disk", _pick(draw, m.disk)]
    if op == "change_kind":
        if not m.disk:
            return None
        p = _pick(draw, m.disk)
        k = draw(st.sampled_from([x for x in ("file", "directory", "symlink")
                                  if x != m.disk[p][0]]))
        if k == "directory" and depth(p) > MAX_DEPTH - 1:
            return None
        c = (draw(st.sampled_from(TEXTS)) if k == "file" else
             draw(st.sampled_from(TARGETS)) if k == "symlink" else None)
        return ["change_kind", p, k, c, False]
    if op in ("add", "write", "commit") and m.fmt == "git":
        dirified = [p for p in m.idx if m.real_dir(p)]
        below = [q for q in unver if m.kind(q) != "directory" and any(
            inside(p, q) for p in dirified)]
        if below and draw(st.booleans()):
            return ["add", _pick(draw, below)]
        empty = [p for p in dirified if not m.children(p) and
                 depth(p) < MAX_DEPTH]
        if empty and draw(st.booleans()):
            return ["write", join(_pick(draw, empty), _pick(draw, NAMES)),
                    draw(st.sampled_from(TEXTS)), False]
    if op == "add":
        r = draw(st.integers(0, 19))
        orphans = [p for p in unver if not m.is_versioned(parent(p))]
        if r < 17 and orphans and draw(st.integers(0, 3)) == 0:
            return ["add", _pick(draw, orphans)]
        if r < 17:
            if not unver:
                return None
            good = [p for p in unver if m.is_versioned(parent(p))]
            return ["add", _pick(draw, good or unver)]
        if r == 17 and ver:
            return ["add", _pick(draw, ver)]
        if orphans:
            return ["add", _pick(draw, orphans)]
        return ["add", _any_path(draw, m)]
    if op == "smart_add":
        on = sorted(m.disk)
        n = draw(st.integers(0, 2))
        ps = [] if not on or n == 0 else draw(
            st.lists(st.sampled_from(on), min_size=1, max_size=n,
                     unique=True))
        return ["smart_add", ps, draw(st.integers(0, 3)) > 0]
    if op == "remove":
        if ver and draw(st.integers(0, 9)) < 9:
            return ["remove", _pick_ver(draw, m, ver), draw(st.booleans())]
        if unver:
            return ["remove", _pick(draw, unver), True]
        return None
    if op == "rename_one":
        r = draw(st.integers(0, 19))
        if r < 17:
            if not ver:
                return None
            a = _pick_ver(draw, m, ver)
        elif unver and r == 17:
            a = _pick(draw, unver)
        else:
            a = _any_path(draw, m)
        vdirs =[""] + [p for p in ver if m.real_dir(p)]
        gone = [p for p in ver if m.kind(p) is None]
        landed = [p for p in unver if m.is_versioned(parent(p))]
        if ver and landed and draw(st.integers(0, 4)) == 0:
            # after=True: record a move that "already happened", whether or
            # not the source is still there
            return ["rename_one", _pick(draw, gone or ver),
                    _pick(draw, landed), True]
        if gone and landed and draw(st.integers(0, 1)) == 0:
            # "already moved by hand": the versioned source is missing and
            # the target is an unversioned path that exists
            return ["rename_one", _pick(draw, gone), _pick(draw, landed)]
        if draw(st.integers(0, 9)) < 7:
            # a target that can work: free name in a versioned directory
            # outside the source
            free = [join(d, n) for d in vdirs if not inside(a, d) and
                    depth(d) < MAX_DEPTH for n in NAMES
                    if m.kind(join(d, n)) is None and
                    not m.is_versioned(join(d, n))]
            if free:
                return ["rename_one", a, _pick(draw, free)]
        return ["rename_one", a, _any_path(draw, m)]
    if op == "move":
        if not ver:
            return None
        vdirs = [""] + [p for p in ver if m.real_dir(p)]
        landed = [p for p in unver if parent(p) in vdirs and any(
            base(q) == base(p) and q != p for q in ver)]
        if landed and draw(st.integers(0, 2)) == 0:
            # the source (possibly missing) has an unversioned namesake in
            # the target directory: already moved by hand, or after=True
            b = _pick(draw, landed)
            srcs = [q for q in ver if base(q) == base(b) and q != b]
            gone = [q for q in srcs if m.kind(q) is None]
            return ["move", [_pick(draw, gone or srcs)], parent(b),
                    draw(st.booleans())]
        r = draw(st.integers(0, 9))
        if r < 7:
            # sources and a directory they can move to
            to = _pick(draw, vdirs)
            ok_src = [p for p in ver if parent(p) != to and
                      not inside(p, to) and
                      m.kind(join(to, base(p))) is None and
                      not m.is_versioned(join(to, base(p)))]
            if ok_src:
                rich = [p for p in ok_src if m.has_versioned_children(p)]
                if rich and draw(st.booleans()):
                    return ["move", [_pick(draw, rich)], to]
                n = draw(st.integers(1, 2))
                srcs = draw(st.lists(st.sampled_from(sorted(ok_src)),
                                     min_size=1, max_size=n, unique_by=base))
                srcs = [p for p in srcs
                        if not any(q != p and inside(q, p) for q in srcs)]
                return ["move", srcs, to]
            return None
        srcs = [_pick_ver(draw, m, ver)]
        if r == 7:
            srcs = [_any_path(draw, m)]
        to = _pick(draw, vdirs) if r == 8 else _any_path(draw, m)
        return ["move", srcs, to]
    if op == "commit":
        return ["commit"]
    if op == "revert":
        if draw(st.integers(0, 2)) == 0:
            return ["revert", None]
        pool = set(m.versioned_paths()) | set(m.basis_paths())
        cands = [p for p in sorted(pool) if m.revert_class(p)]
        if not cands:
            return ["revert", None]
        return ["revert", [_pick(draw, cands)]]
    if op == "mv_disk":
        # a path moved by hand (the tree is not told); versioned ones first
        on = [p for p in ver if m.kind(p) is not None] or sorted(m.disk)
        if not on:
            return None
        a = _pick(draw, on)
        # half of the time into another versioned directory under the same
        # name (what move() can be told about afterwards)
        homes = [d for d in [""] + [p for p in ver if m.real_dir(p)]
                 if d != parent(a) and not inside(a, d) and
                 m.kind(join(d, base(a))) is None and
                 not m.is_versioned(join(d, base(a))) and
                 depth(d) < MAX_DEPTH]
        if homes and draw(st.booleans()):
            return ["mv_disk", a, join(_pick(draw, homes), base(a))]
        b = _new_path(draw, m)
        if b is None or inside(a, b):
            return None
        return ["mv_disk", a, b]
    if op == "reopen":
        return ["reopen"]
    if op == "reset_parents":
        return ["reset_parents"]
    if op == "rebase":
        if m.fmt != "bzr" or not m.history:
            return None
        return ["rebase", draw(st.integers(0, len(m.history) - 1))]
    return ["observe", draw(st.integers(1, 3))]


def _paths_of(step):
    op = step[0]
    if op in ("smart_add", "revert"):
        return list(step[1] or [])
    if op in ("rename_one", "mv_disk"):
        return [step[1], step[2]]
    if op == "move":
        return list(step[1]) + [step[2]]
    if op in ("commit", "reopen", "observe", "reset_parents", "rebase",
              "lock", "unlock"):
        return []
    return [step[1]]


def _clean(m, p):
    """No component of p but the last is a file or a symlink on disk (paths
    that traverse symlinks are outside the generated domain)."""
    q = parent(p)
    while q != "":
        if m.kind(q) not in (None, "directory"):
            return False
        q = parent(q)
    return True


def gen_case(fmt, max_steps, format=None):
    @st.composite
    def build(draw):
        m = Model(fmt, wt3=format == "knit")
        steps = []
        n = draw(st.integers(5, max_steps))
        pre = []
        if draw(st.integers(0, 9)) < 8:
            # most sequences start from a populated (and often committed)
            # tree, so that renames / moves / removes have something to do
            pre = ["create"] * draw(st.integers(3, 7)) + ["adopt"]
            if draw(st.integers(0, 9)) < 6:
                pre.append("commit")
        # one long-lived write lock on the tree object over a stretch of the
        # sequence (no reopen inside): caches built by an observation inside
        # the lock must follow the later operations
        lock_at = lock_len = None
        if draw(st.integers(0, 9)) < 5:
            lock_at = len(pre) + draw(st.integers(0, max(0, n - 4)))
            lock_len = draw(st.integers(3, 8))
        locked = 0
        mode = None
        hint = None
        for i in range(n + len(pre)):
            if i == lock_at:
                mode = draw(st.sampled_from(["write", "tree_write"]))
                steps.append(["lock", mode])
                locked = lock_len
            elif locked:
                locked -= 1
                if locked == 0:
                    steps.append(["unlock"])
            if i < len(pre):
                if pre[i] == "create":
                    s = draw_step(draw, m, draw(st.sampled_from(
                        ["write", "write", "mkdir", "mkdir", "symlink"])))
                elif pre[i] == "adopt":
                    s = ["smart_add", [], True]
                else:
                    s = ["commit"]
            elif hint and draw(st.integers(0, 3)) != 0:
                # tell the tree about the move just made by hand
                a, b = hint
                if parent(a) != parent(b) and base(a) == base(b) and \
                        draw(st.integers(0, 3)) != 0:
                    s = ["move", [a], parent(b), draw(st.booleans())]
                else:
                    s = ["rename_one", a, b, draw(st.booleans())]
            else:
                s = draw_step(draw, m, op=draw(st.sampled_from(
                    LOCKED_OPS)) if locked and draw(st.booleans()) else None)
            hint = None
            if s is None or not all(_clean(m, p) for p in _paths_of(s)):
                continue
            if locked and s[0] in ("reopen", "rebase"):
                continue
            if locked and mode == "tree_write" and s[0] == "commit":
                continue      # needs the branch write lock (no upgrade)
            c = m.clone()
            try:
                c.apply(s)
            except ModelError:
                continue
            if not c.fa_ok():
                continue
            if c.flags and draw(st.integers(0, 5)) != 0:
                # precondition of an already listed defect: keep it rare so
                # that sequences get past it
                continue
            if s[0] == "mv_disk" and m.is_versioned(s[1]) and \
                    m.is_versioned(parent(s[2])):
                hint = (s[1], s[2])
            m = c
            steps.append(s)
        if locked:
            steps.append(["unlock"])
        if draw(st.integers(0, 9)) < 7:
            steps.append(["reopen"])
        case = {"fmt": fmt, "steps": steps}
        if format:
            case["format"] = format
        return case
    return build()


# ------------------------------------------------------------------ subject

def _refusals(op):
    from breezy import errors
    from breezy.transport import NoSuchFile
    from bzrformats.errors import AlreadyVersionedError, NotVersionedError
    if op == "add":
        return (NoSuchFile, NotVersionedError, AlreadyVersionedError)
    if op in ("rename_one", "move"):
        return (errors.BzrMoveFailedError, errors.RenameFailedFilesExist)
    return ()


def _rm(ap):
    if os.path.islink(ap) or not os.path.isdir(ap):
        os.unlink(ap)
    else:
        shutil.rmtree(ap)


def do_step(wt, s, root):
    op = s[0]
    ap = os.path.join(root, s[1]) if len(s) > 1 and isinstance(s[1], str) \
        else None
    if op == "write":
        with open(ap, "wb") as f:
            f.write(bz.cbytes(s[2]))
        os.chmod(ap, 0o755 if s[3] else 0o644)
    elif op == "mkdir":
        os.mkdir(ap)
    elif op == "symlink":
        if os.path.lexists(ap):
            os.unlink(ap)
        os.symlink(s[2], ap)
    elif op == "chmod":
        os.chmod(ap, 0o755 if s[2] else 0o644)
    elif op == "rm_disk":
        _rm(ap)
    elif op == "change_kind":
        _rm(ap)
        if s[2] == "directory":
            os.mkdir(ap)
        elif s[2] == "symlink":
            os.symlink(s[3], ap)
        else:
            with open(ap, "wb") as f:
                f.write(bz.cbytes(s[3]))
            os.chmod(ap, 0o755 if s[4] else 0o644)
    elif op == "add":
        wt.add([s[1]])
    elif op == "smart_add":
        wt.smart_add([os.path.join(root, p) if p else root
                      for p in (s[1] or [""])], recurse=s[2])
    elif op == "remove":
        wt.remove([s[1]], keep_files=s[2], force=not s[2])
    elif op == "rename_one":
        wt.rename_one(s[1], s[2], after=bool(s[3]) if len(s) > 3 else False)
    elif op == "move":
        wt.move(list(s[1]), s[2], after=bool(s[3]) if len(s) > 3 else False)
    elif op == "mv_disk":
        os.rename(ap, os.path.join(root, s[2]))
    elif op == "commit":
        if wt.branch.repository._format.supports_setting_revision_ids:
            return bz.commit(wt)
        return wt.commit("m", timestamp=bz.T0, timezone=0,
                         committer=bz.COMMITTER, allow_pointless=True)
    elif op == "revert":
        wt.revert(s[1], backups=False)
    elif op == "reset_parents":
        wt.set_parent_ids(wt.get_parent_ids())
    else:
        raise ValueError(s)


def observe(wt, depth_=1):
    """Everything the property lets one see, under a fresh read lock."""
    locks = [wt.lock_read() for _ in range(depth_)]
    try:
        ent = {}
        for p in sorted(wt.all_versioned_paths()):
            if p == "":
                continue
            ap = wt.abspath(p)
            k = val = ex = None
            if os.path.lexists(ap):
                k = wt.kind(p)
                if k == "file":
                    val = wt.get_file_text(p).decode("latin-1")
                    ex = bool(wt.is_executable(p))
                elif k == "symlink":
                    val = wt.get_symlink_target(p)
            fid = wt.path2id(p)
            ent[p] = [k, val, ex,
                      fid.decode("utf-8") if isinstance(fid, bytes) else fid]
        changes = [c for c in changes_canon(wt, wt.basis_tree())
                   if c[1] != ["", ""] and c[1] != [None, ""]]
        extras = sorted(wt.extras())
        unknowns = sorted(wt.unknowns())
    finally:
        for _ in locks:
            wt.unlock()
    return {"entries": ent, "changes": changes, "extras": extras,
            "unknowns": unknowns}


def changes_canon(tree, basis):
    """bz.iter_changes_canon plus the `copied` flag of git changes."""
    out = []
    with basis.lock_read():
        for c in tree.iter_changes(basis):
            fid = c.file_id
            if isinstance(fid, bytes):
                fid = fid.decode("utf-8")
            kinds = list(c.kind)
            ex = [(bool(e) if k == "file" else None)
                  for e, k in zip(c.executable, kinds)]
            out.append([fid, list(c.path), bool(c.changed_content),
                        list(c.versioned), kinds, ex,
                        bool(getattr(c, "copied", False))])
    out.sort(key=lambda r: (str(r[1][0]), str(r[1][1]), str(r[0])))
    return out


def git_facts(changes):
    """Split form of a git status (rename detection is similarity based and
    not part of the property): one "-" fact per old side, one "+" fact per
    new side, directory sides dropped."""
    out = []
    for fid, (old, new), cc, ver, kinds, ex, copied in changes:
        if old is not None and kinds[0] not in ("directory", None) and \
                ver[0] and not copied:
            out.append(["-", old, kinds[0], ex[0]])
        if new is not None and kinds[1] != "directory" and ver[1]:
            out.append(["+", new, kinds[1], ex[1]])
    return out


def compare(m, obs, idmap, sfx, step):
    """Observation vs model; sfx names the moment (after which op)."""
    exp = m.expected_entries()
    got = {p: e[:3] for p, e in obs["entries"].items()}
    if got != exp:
        diff = {p: [got.get(p), exp.get(p)] for p in set(got) | set(exp)
                if got.get(p) != exp.get(p)}
        vg, ve = sorted(got), sorted(exp)
        if m.fmt == "git" and m.stale:
            # exactly the entries the listed commit defect left behind?
            rest = {p: e for p, e in got.items()
                    if p in exp or p not in m.stale}
            check(rest != exp, "C09/never-committed-dirified-index-entry-"
                  "still-versioned", {"step": step, "stale": sorted(m.stale),
                                      "got_vs_expected": diff})
        what = "versioned-paths" if vg != ve else "entry-state"
        check(False, "C09/%s-differ-after-%s" % (what, sfx),
              {"step": step, "got_vs_expected": diff})
    if m.fmt == "bzr":
        ip = m.ipaths()
        for p, t in sorted(ip.items()):
            if p == "":
                continue
            fid = obs["entries"][p][3]
            if t in idmap:
                check(idmap[t] == fid, "C09/file-id-not-stable-after-" + sfx,
                      {"step": step, "path": p, "was": idmap[t], "now": fid})
            else:
                check(fid is not None and fid not in idmap.values(),
                      "C09/file-id-reused-after-" + sfx,
                      {"step": step, "path": p, "id": fid})
                idmap[t] = fid
        expc = [[idmap.get(c[0], "?%s" % c[0])] + c[1:] + [False]
                for c in m.expected_changes_bzr()]
        key = lambda r: (str(r[1][0]), str(r[1][1]), str(r[0]))  # noqa: E731
        expc.sort(key=key)
        gotc = sorted(obs["changes"], key=key)
        if gotc != expc:
            check(False, "C09/status-differs-after-" + sfx,
                  {"step": step,
                   "only_reported": [c for c in gotc if c not in expc],
                   "only_expected": [c for c in expc if c not in gotc]})
    else:
        gotf = sorted(git_facts(obs["changes"]), key=repr)
        expf = m.expected_facts_git()
        if gotf != expf:
            check(False, "C09/status-differs-after-" + sfx,
                  {"step": step,
                   "only_reported": [c for c in gotf if c not in expf],
                   "only_expected": [c for c in expf if c not in gotf],
                   "raw": obs["changes"]})
    expx = m.expected_extras()
    gotx = obs["extras"]
    gotu = obs["unknowns"]
    if m.fmt == "git":
        gotx = [p for p in gotx if m.kind(p) == "file"]
        gotu = [p for p in gotu if m.kind(p) == "file"]
    else:
        # below an entry whose recorded kind is unknown (kind changed on
        # disk since it was recorded) the listing is not determined
        unc = m.uncertain_paths()
        gotx = [p for p in gotx if not any(inside(u, p) for u in unc)]
        gotu = [p for p in gotu if not any(inside(u, p) for u in unc)]
        expx = [p for p in expx if not any(inside(u, p) for u in unc)]
    check(gotx == expx, "C09/extras-differ-after-" + sfx,
          {"step": step, "got": gotx, "expected": expx})
    check(gotu == expx, "C09/unknowns-differ-after-" + sfx,
          {"step": step, "got": gotu, "expected": expx})


# when a step meets several preconditions of listed defects, the signature
# names the first of these
FLAG_ORDER = ["type-changed-path", "copy-detected",
              "ambiguous-rename-detected", "dirified-index-entry",
              "committed-path-taken-by-unversioned-file"]

MUTATORS = {"write", "mkdir", "symlink", "chmod", "rm_disk", "change_kind",
            "add", "smart_add", "remove", "rename_one", "move", "commit",
            "revert"}


def run(case, env):
    fmt = case["fmt"]
    root = os.path.join(env.newdir(), "t")
    wt = bz.init_tree(root, case.get("format") or (
        "2a" if fmt == "bzr" else "git"))
    m = Model(fmt, wt3=case.get("format") == "knit")
    idmap = {}
    revs = []
    labels = set()
    last_obs = observe(wt)
    held = [False]
    try:
        return _steps(case, env, wt, root, m, idmap, revs, labels, held,
                      last_obs)
    finally:
        if held[0]:
            held[0].unlock()


def _steps(case, env, wt, root, m, idmap, revs, labels, held, last_obs):
    muts = 0
    structural = False
    removed_paths = set()
    kind_changed = False
    refused = 0
    for i, s in enumerate(case["steps"]):
        op = s[0]
        if op == "lock":
            # everything up to "unlock" runs on this tree object under this
            # one lock; the observations in between nest read locks in it
            (wt.lock_write if s[1] == "write" else wt.lock_tree_write)()
            held[0] = wt
            m.apply(s)
            continue
        if op == "unlock":
            wt.unlock()
            held[0] = False
            m.apply(s)
            obs = observe(wt)
            # (unknowns below an entry whose recorded kind is unknown are
            # not determined: a re-read may refresh that kind)
            unc = m.uncertain_paths() if m.fmt == "bzr" else []

            def clear(o):
                o = dict(o)
                for k in ("extras", "unknowns"):
                    o[k] = [p for p in o[k]
                            if not any(inside(u, p) for u in unc)]
                return o
            a, b = clear(last_obs), clear(obs)
            check(a == b, "C09/observation-changes-at-unlock",
                  {"step": [i, s],
                   "inside_vs_after": {k: [a[k], b[k]]
                                       for k in b if a[k] != b[k]}})
            last_obs = obs
            continue
        if op == "reopen":
            before = observe(wt)
            del wt
            wt = bz.open_tree(root)
            after = observe(wt)
            check(before == after, "C09/reopen-changes-observation",
                  {"step": [i, s],
                   "before_vs_after": {
                       k: [before[k], after[k]] for k in before
                       if before[k] != after[k]}})
            if muts >= 3 and structural:
                labels.add("reopen-after-rename-or-remove")
            last_obs = after
            continue
        if op == "rebase":
            # status against an older commit (set_parent_trees with a real
            # delta), then back to the tip
            m.apply(s)
            wt.set_parent_ids([revs[s[1]]])
            old = m.clone()
            old.basis = m.history[s[1]]
            compare(old, observe(wt), idmap, "rebase", [i, s])
            wt.set_parent_ids([revs[-1]])
            last_obs = observe(wt)
            compare(m, last_obs, idmap, "rebase-back", [i, s])
            continue
        if op == "observe":
            obs = observe(wt, s[1])
            check(obs == last_obs, "C09/observation-depends-on-lock-depth",
                  {"step": [i, s]})
            continue
        pre = m.clone()
        exp = m.apply(s)
        got = "ok"
        try:
            r = do_step(wt, s, root)
            if op == "commit":
                revs.append(r)
        except _refusals(op) as e:
            got = "refuse"
            why = type(e).__name__
        with_ = ""
        if m.flags:
            # the step met the precondition of a listed defect: name it
            with_ = "-with-" + min(m.flags, key=lambda f: (
                FLAG_ORDER.index(f) if f in FLAG_ORDER else 99, f))
        if exp == "unchanged":
            # silently ignored or refused, as the format likes: the state
            # must not change either way
            exp = "refuse"
        elif exp == "refuse":
            check(got == "refuse", "C09/inapplicable-%s-accepted%s" % (
                op, with_), {"step": [i, s]})
            refused += 1
        else:
            check(got == "ok", "C09/applicable-%s-refused%s" % (op, with_),
                  {"step": [i, s], "error": why if got != "ok" else None})
        if op == "revert" and s[1] is None:
            # what a full revert leaves behind unversioned (backups, .moved)
            # is not part of the property: clear it away
            for p in sorted(bz.snapshot_fs(root), key=lambda x: -len(x)):
                if p not in m.disk and os.path.lexists(
                        os.path.join(root, p)):
                    _rm(os.path.join(root, p))
        bz.age_files(root)
        fs = bz.snapshot_fs(root)
        expfs = {p: [e[0], e[1], bool(e[2]) if e[0] == "file" else None]
                 for p, e in m.disk.items()}
        check(fs == expfs, "C09/directory-content-differs-after-" + op,
              {"step": [i, s],
               "got_vs_expected": {p: [fs.get(p), expfs.get(p)]
                                   for p in set(fs) | set(expfs)
                                   if fs.get(p) != expfs.get(p)}})
        if op == "commit":
            # the committed tree itself (not only what the tree says about
            # it afterwards) holds exactly the model's content
            got_t = {p: e[:3] for p, e in bz.snapshot_tree(
                wt.basis_tree(), contents=True).items()}
            if m.fmt == "git":
                got_t = {p: e for p, e in got_t.items()
                         if e[0] != "directory"}
                exp_t = {p: [e[0], e[1], bool(e[2]) if e[0] == "file"
                             else None] for p, e in m.gbasis.items()}
            else:
                exp_t = {m.ipath(t, m.basis): [
                    e[2], e[3], bool(e[4]) if e[2] == "file" else None]
                    for t, e in m.basis.items() if t != 0}
            check(got_t == exp_t, "C09/committed-tree-differs-from-model",
                  {"step": [i, s],
                   "got_vs_expected": {p: [got_t.get(p), exp_t.get(p)]
                                       for p in set(got_t) | set(exp_t)
                                       if got_t.get(p) != exp_t.get(p)}})
        obs = observe(wt)
        sfx = (op if exp == "ok" else "refused-" + op) + with_
        compare(m, obs, idmap, sfx, [i, s])
        last_obs = obs
        if exp != "ok":
            continue
        if op in MUTATORS:
            muts += 1
        if op in ("rename_one", "move", "remove"):
            structural = True
        if op == "remove":
            removed_paths.add(s[1])
        if op in ("add", "smart_add"):
            newly = set(m.versioned_paths()) - set(pre.versioned_paths())
            if newly & removed_paths:
                labels.add("re-add-after-remove")
        if op == "change_kind" and pre.is_versioned(s[1]):
            kind_changed = True
        if op == "revert" and kind_changed:
            labels.add("kind-change-then-revert")
    if labels:
        return ok("+".join(sorted(labels)))
    return trivial()


def kinds(tier):
    n = 30 if tier == "quick" else 60
    return [
        Kind("bzr", run, strategy=gen_case("bzr", n),
             examples={"quick": 480, "thorough": 8000}),
        Kind("git", run, strategy=gen_case("git", n),
             examples={"quick": 480, "thorough": 8000}),
        # an inventory-file working tree (format 3): the generic
        # InventoryWorkingTree / MutableInventoryTree code paths that the
        # dirstate tree overrides (move, apply_inventory_delta, unversion)
        Kind("bzr-wt3", run, strategy=gen_case("bzr", n, format="knit"),
             examples={"quick": 160, "thorough": 3000}),
    ]


REGISTERED = True
LEVEL_TEXT = ("Random operation sequences against a reference model: every "
              "step's full observation (versioned paths, kinds, texts, exec "
              "bits, file ids, status against the basis, unknowns, directory "
              "content) is compared, and re-opening must not change it. A "
              "sample of a very large space; no exhaustiveness claim.")
LEVEL_NOTE = ("Trusts the model in vf/lib/c09_model.py (written from the "
              "documented behaviour of each operation), the harness' own "
              "file system edits, and the bzrformats dirstate / dulwich index "
              "libraries below breezy.")
