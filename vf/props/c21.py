"""C21 - pull and push never silently drop history."""

from hypothesis import strategies as st

from vf.api import Kind, check, ok, trivial
from vf.lib import bz, graphmodel as gm, history

PROPERTY = "C21"
LEVEL = "exploration"
TECHNIQUE = ("Hypothesis-generated revision DAGs and tip pairs on real 2a / "
             "pack-0.92 branches; reference model (own ancestry / left-hand "
             "history code) decides the expected tip, revno and refusal for "
             "pull / push / overwrite / append-only / bound targets and for "
             "follow-up tip moves")
RULE = ("history_spec DAG (merges, ghosts) in a source branch; target branch "
        "in its own repository at a generated tip (ancestor, descendant, "
        "sibling, identical, null, reachable only through a merge); op in "
        "pull/push with stop revision, overwrite in {False, True, {'history'}, "
        "{'tags'}}, optional append_revisions_only, optional master the target "
        "is bound to; then one follow-up tip move (set_last_revision_info, "
        "generate_revision_history, uncommit). Non-trivial: the two tips are "
        "neither equal nor null-related and the operation must be refused or "
        "must move through a merge; or append-only forbids the move. Distinct "
        "by case hash.")
ASSUMPTIONS = [
    "ghost parents are never left-hand parents in generated histories (tips "
    "whose left-hand history hits a ghost have no revno by design)",
    "local (file) transports only; the smart-server route is compared with "
    "local behaviour in C32",
]
LEVEL_TEXT = ("Sampled exploration against an independent model of the pull / "
              "push contract: for each generated pair of tips and option set "
              "the resulting tip, revno, raised error and (for bound targets) "
              "master tip are compared with the model, and a following tip "
              "move is checked against the append-only rule.")
LEVEL_NOTE = ("Histories bounded to 12 revisions; bzr formats 2a and pack-0.92; "
              "git targets and remote branches are not covered by this check.")
REGISTERED = True
NONTRIVIAL_FLOOR = {"quick": 40, "thorough": 400}

NULL = b"null:"


def tip_info(path):
    from breezy import branch as _branch
    b = _branch.Branch.open(path)
    revno, rid = b.last_revision_info()
    return revno, rid.decode()


def expect_revno(g, tip):
    return 0 if tip == "null:" else len(gm.lefthand(g, tip))


def run(case, env):
    from breezy import branch as _branch, errors, controldir
    from breezy import uncommit as _uncommit
    spec = case["spec"]
    g = history.graph_of(spec)
    d = env.newdir()
    fmt = case["format"]
    src = bz.init_branch(d + "/src", fmt)
    history.build_bb(spec, src)
    stip, ttip = case["stip"], case["ttip"]
    history.set_tip(src, spec, stip)
    tgt = controldir.ControlDir.create_branch_convenience(
        d + "/tgt", format=bz.fmt(fmt), force_new_tree=False)
    if ttip is not None:
        tgt.repository.fetch(src.repository, bz.enc(ttip))
        with tgt.lock_write():
            tgt.set_last_revision_info(expect_revno(g, ttip), bz.enc(ttip))
    master = None
    if case["bound"]:
        master = tgt.controldir.sprout(d + "/master").open_branch()
        tgt.bind(master)
    if case["append_only"]:
        tgt.get_config_stack().set("append_revisions_only", True)
        if master is not None:
            master.get_config_stack().set("append_revisions_only", True)
    stop = case["stop"]
    X = stop or stip
    T = ttip or "null:"
    ow = case["overwrite"]
    overwrite = {"no": False, "yes": True, "history": {"history"},
                 "tags": {"tags"}}[ow]
    hist_ow = ow in ("yes", "history")
    aX = gm.ancestry(g, X)
    aT = gm.ancestry(g, T) if ttip else set()
    # --- model
    if hist_ow:
        exp, expexc = X, None
    elif ttip is None or T in aX:
        exp, expexc = X, None
    elif X in aT:
        exp, expexc = T, None
    else:
        exp, expexc = T, errors.DivergedBranches
    if case["append_only"] and exp != T and ttip is not None and \
            T not in gm.lefthand(g, exp):
        exp, expexc = T, errors.AppendRevisionsOnlyViolation
    src = _branch.Branch.open(d + "/src")
    tgt = _branch.Branch.open(d + "/tgt")
    exc = None
    try:
        if case["op"] == "pull":
            tgt.pull(src, overwrite=overwrite,
                     stop_revision=bz.enc(stop) if stop else None)
        else:
            src.push(tgt, overwrite=overwrite,
                     stop_revision=bz.enc(stop) if stop else None)
    except (errors.DivergedBranches, errors.AppendRevisionsOnlyViolation) as e:
        exc = e
    new = tip_info(d + "/tgt")
    detail = {"op": case["op"], "T": T, "S": stip, "stop": stop, "ow": ow,
              "append_only": case["append_only"], "bound": case["bound"],
              "exp": exp, "expexc": expexc.__name__ if expexc else None,
              "got": list(new), "exc": repr(exc)[:200]}
    if expexc is None:
        check(exc is None, "C21/%s-refused-a-permitted-move" % case["op"], detail)
    else:
        check(isinstance(exc, expexc),
              "C21/%s-%s" % (case["op"],
                             "diverged-not-refused" if expexc is
                             errors.DivergedBranches else
                             "append-only-violated"), detail)
    check(new[1] == exp, "C21/%s-tip-not-as-specified" % case["op"], detail)
    check(new[0] == expect_revno(g, exp), "C21/revno-not-lefthand-length",
          detail)
    if exp != "null:":
        tb = _branch.Branch.open(d + "/tgt")
        check(tb.repository.has_revision(bz.enc(exp)),
              "C21/tip-revision-not-in-repository", detail)
    if master is not None:
        mnew = tip_info(d + "/master")
        check(mnew[1] == exp and mnew[0] == expect_revno(g, exp),
              "C21/bound-master-not-in-step", [detail, list(mnew)])
    # --- follow-up tip move under the append-only rule
    fu = case["followup"]
    if fu is not None and exp != "null:":
        kind, R = fu["kind"], fu["rev"]
        tb = _branch.Branch.open(d + "/tgt")
        if master is not None:
            tb.unbind()
        old = exp
        tb.repository.fetch(_branch.Branch.open(d + "/src").repository,
                            bz.enc(R))
        exc2 = None
        if kind == "uncommit":
            lh = gm.lefthand(g, old)
            want = lh[-2] if len(lh) > 1 else "null:"
        else:
            want = R
        try:
            if kind == "set_last_revision_info":
                with tb.lock_write():
                    tb.set_last_revision_info(expect_revno(g, R), bz.enc(R))
            elif kind == "generate_revision_history":
                with tb.lock_write():
                    tb.generate_revision_history(bz.enc(R))
            else:  # uncommit one mainline revision
                _uncommit.uncommit(tb, revno=None)
        except errors.AppendRevisionsOnlyViolation as e:
            exc2 = e
        new2 = tip_info(d + "/tgt")
        d2 = {"followup": fu, "old": old, "want": want, "got": list(new2),
              "append_only": case["append_only"], "exc": repr(exc2)[:200]}
        allowed = (not case["append_only"]) or want == old or (
            want != "null:" and old in gm.lefthand(g, want))
        if allowed:
            check(exc2 is None, "C21/followup-refused-a-permitted-move", d2)
            check(new2[1] == want and new2[0] == expect_revno(g, want),
                  "C21/followup-tip-or-revno-wrong", d2)
        else:
            check(exc2 is not None,
                  "C21/append-only-violated-by-" + kind, d2)
            check(new2[1] == old and new2[0] == expect_revno(g, old),
                  "C21/refused-followup-changed-the-tip", d2)
    # --- non-triviality
    related = ttip is not None and T != X
    if expexc is not None:
        return ok("refused:" + expexc.__name__)
    if related and exp == X and not hist_ow:
        merges = any(len([p for p in g[r] if p in g]) > 1
                     for r in gm.ancestry(g, X) - gm.ancestry(g, T))
        return ok("fast-forward-through-merge" if merges else "fast-forward")
    if related and hist_ow and T not in aX:
        return ok("overwrite-diverged")
    if related and exp == T:
        return ok("already-merged")
    return trivial()


@st.composite
def cases(draw, n_max=10):
    spec = draw(history.history_spec(
        n_min=2, n_max=n_max, merges=True, ghosts=True, bb_safe=True,
        ops_max=1, base_max=1))
    ids = [r["id"] for r in spec["revs"]]
    g = history.graph_of(spec)
    stip = draw(st.sampled_from(ids))
    stop = draw(st.one_of(st.none(), st.none(),
                          st.sampled_from(sorted(gm.ancestry(g, stip)))))
    # target tip by relation to the requested revision, so that every class
    # (in particular "diverged") is well represented
    X = stop or stip
    aX = gm.ancestry(g, X)
    cats = {"null": [None], "equal": [X],
            "ancestor": sorted(aX - {X}),
            "descendant": sorted(r for r in ids
                                 if r != X and X in gm.ancestry(g, r)),
            "diverged": sorted(r for r in ids if r not in aX and
                               X not in gm.ancestry(g, r))}
    names = [c for c in ("null", "equal", "ancestor", "descendant", "diverged",
                         "diverged") if cats[c]]
    ttip = draw(st.sampled_from(cats[draw(st.sampled_from(names))]))
    fu = None
    if draw(st.booleans()):
        fu = {"kind": draw(st.sampled_from(
            ["set_last_revision_info", "generate_revision_history",
             "uncommit"])), "rev": draw(st.sampled_from(ids))}
    return {"spec": spec, "format": draw(st.sampled_from(["2a", "2a",
                                                          "pack-0.92"])),
            "stip": stip, "ttip": ttip, "stop": stop,
            "op": draw(st.sampled_from(["pull", "push"])),
            "overwrite": draw(st.sampled_from(["no", "no", "no", "yes",
                                               "history", "tags"])),
            "append_only": draw(st.integers(0, 9)) < 3,
            "bound": draw(st.integers(0, 9)) < 2,
            "followup": fu}


def kinds(tier):
    return [
        Kind("pull-push", run, strategy=cases(n_max=9 if tier == "quick" else 12),
             examples={"quick": 480, "thorough": 16000}),
    ]
