"""C21 - pull and push never silently drop history."""

import os

from hypothesis import strategies as st

from vf.api import Kind, check, ok, trivial
from vf.lib import bz, graphmodel as gm, history

PROPERTY = "C21"
LEVEL = "exploration"
TECHNIQUE = ("Hypothesis-generated revision DAGs and tip pairs on real 2a / "
             "pack-0.92 branches; reference model (own ancestry / left-hand "
             "history code) decides the expected tip, revno and refusal for "
             "pull / push / overwrite / append-only / bound targets and for "
             "follow-up tip moves")
RULE = ("history_spec DAG (merges, ghosts) in a source branch; target branch "
        "in its own repository at a generated tip (ancestor, descendant, "
        "sibling, identical, null, reachable only through a merge); a program "
        "of one or two pull/push operations on the same long-lived branch "
        "objects (optionally under one outer write lock, the source tip moved "
        "in between) with stop revision, overwrite in {False, True, "
        "{'history'}, {'tags'}}, optional append_revisions_only (on the target "
        "and its master, or on the master only), optional master the target "
        "is bound to, an empty source; then one follow-up tip move "
        "(set_last_revision_info, also to null:, generate_revision_history, "
        "uncommit). Kind remote-target: the same programs with the target "
        "opened through an in-process smart server (RemoteBranch). "
        "Non-trivial: the two tips are "
        "neither equal nor null-related and the operation must be refused or "
        "must move through a merge; or append-only forbids the move. Distinct "
        "by case hash.")
ASSUMPTIONS = [
    "ghost parents are never left-hand parents in generated histories (tips "
    "whose left-hand history hits a ghost have no revno by design)",
    "an empty source with history overwrite is outside the statement (only the "
    "revno rule and 'tip is the old tip or null' are asserted there)",
    "through a smart server the append-only refusal reaches the client as "
    "UnknownErrorFromSmartServer(('error', 'AppendRevisionsOnlyViolation', ..)) "
    "(the client has no translation for it); exactly that tuple is accepted "
    "as the refusal in kind remote-target, the tip rules are the same",
]
LEVEL_TEXT = ("Sampled exploration against an independent model of the pull / "
              "push contract: for each generated pair of tips and option set "
              "the resulting tip, revno, raised error and (for bound targets) "
              "master tip are compared with the model after every operation "
              "of the program, on the long-lived object and on a fresh one, "
              "and a following tip move is checked against the append-only "
              "rule.")
LEVEL_NOTE = ("Histories bounded to 12 revisions; bzr formats 2a and pack-0.92, "
              "local and smart-server (RemoteBranch) targets; git targets are "
              "not covered by this check.")
REGISTERED = True
NONTRIVIAL_FLOOR = {"quick": 40, "thorough": 400}

NULL = "null:"
OW = {"no": False, "yes": True, "history": {"history"}, "tags": {"tags"}}


def tip_info(path):
    from breezy import branch as _branch
    b = _branch.Branch.open(path)
    revno, rid = b.last_revision_info()
    return revno, rid.decode()


def expect_revno(g, tip):
    return 0 if tip == NULL else len(gm.lefthand(g, tip))


def model(g, T, X, ow, append_only):
    """-> (expected tip, expected exception class name or None).
    T: old target tip, X: requested revision (both may be 'null:')."""
    hist_ow = ow in ("yes", "history")
    aX = gm.ancestry(g, X) if X != NULL else set()
    aT = gm.ancestry(g, T) if T != NULL else set()
    if X == NULL:
        # nothing is requested: the target contains it already
        exp, exc = T, None
    elif hist_ow:
        exp, exc = X, None
    elif T == NULL or T in aX:
        exp, exc = X, None
    elif X in aT:
        exp, exc = T, None
    else:
        exp, exc = T, "DivergedBranches"
    if append_only and exp != T and T != NULL and \
            T not in gm.lefthand(g, exp):
        exp, exc = T, "AppendRevisionsOnlyViolation"
    return exp, exc


def set_src_tip(src, g, tip):
    with src.lock_write():
        if tip is None:
            src.set_last_revision_info(0, b"null:")
        else:
            src.set_last_revision_info(expect_revno(g, tip), bz.enc(tip))


def run(case, env, remote=False):
    from breezy import branch as _branch, errors, controldir
    from breezy import uncommit as _uncommit
    from breezy.bzr import remote as _remote
    from vcsgraph import errors as _vg_errors
    import contextlib
    spec = case["spec"]
    g = history.graph_of(spec)
    d = env.newdir()
    fmt = case["format"]
    src = bz.init_branch(d + "/src", fmt)
    history.build_bb(spec, src)
    stip, ttip = case["stip"], case["ttip"]
    set_src_tip(src, g, stip)
    tgt = controldir.ControlDir.create_branch_convenience(
        d + "/tgt", format=bz.fmt(fmt), force_new_tree=False)
    if ttip is not None:
        tgt.repository.fetch(src.repository, bz.enc(ttip))
        with tgt.lock_write():
            tgt.set_last_revision_info(expect_revno(g, ttip), bz.enc(ttip))
    master = None
    if case["bound"]:
        master = tgt.controldir.sprout(d + "/master").open_branch()
        tgt.bind(master)
    ao = case["append_only"]          # 0 off, 1 target (+ master), 2 master only
    if ao == 2 and master is None:
        ao = 1
    if ao == 1:
        tgt.get_config_stack().set("append_revisions_only", True)
    if ao and master is not None:
        master.get_config_stack().set("append_revisions_only", True)
    T = ttip or NULL
    src = _branch.Branch.open(d + "/src")
    url = None
    if remote:
        srv = env.shared["c21-srv"]
        url = srv.get_url() + os.path.relpath(d + "/tgt", env.root)
        tgt = _branch.Branch.open(url)
        check(type(tgt).__name__ == "RemoteBranch", "C21/harness-not-remote",
              type(tgt).__name__)
    else:
        tgt = _branch.Branch.open(d + "/tgt")
    steps = [{"stip": stip, "stop": case["stop"], "op": case["op"],
              "overwrite": case["overwrite"]}]
    if case.get("second"):
        steps.append(case["second"])
    labels = []
    deferred = []
    wrong_error = []
    with contextlib.ExitStack() as outer:
        if case.get("locked"):
            # one outer write lock over the whole program, as the pull / push
            # commands hold it: the object's caches live across the steps
            outer.enter_context(tgt.lock_write())
        for i, step in enumerate(steps):
            if i:
                set_src_tip(src, g, step["stip"])
            stop = step["stop"]
            X = stop or step["stip"] or NULL
            ow = step["overwrite"]
            hist_ow = ow in ("yes", "history")
            # open finding: a RemoteBranch does not know that it is bound
            # (get_bound_location() is None), so a push into it never involves
            # the master - neither its tip nor its append-only setting
            blind = remote and master is not None and step["op"] == "push"
            exp, expexc = model(g, T, X, ow, ao == 1 if blind else bool(ao))
            exc = None
            try:
                if step["op"] == "pull":
                    tgt.pull(src, overwrite=OW[ow],
                             stop_revision=bz.enc(stop) if stop else None)
                else:
                    src.push(tgt, overwrite=OW[ow],
                             stop_revision=bz.enc(stop) if stop else None)
            except (errors.DivergedBranches,
                    errors.AppendRevisionsOnlyViolation) as e:
                exc = e
            except _remote.UnknownErrorFromSmartServer as e:
                # the smart client has no translation for the server's
                # AppendRevisionsOnlyViolation: the refusal arrives in this
                # wrapper (the statement names no error class for append-only)
                if not remote or e.error_tuple[:2] != (
                        b"error", b"AppendRevisionsOnlyViolation"):
                    raise
                exc = errors.AppendRevisionsOnlyViolation(url)
            except _vg_errors.RevisionNotPresent as e:
                # open finding: pull into an append-only RemoteBranch that must
                # be refused: _check_history_violation walks the left-hand
                # history on the RemoteRepository's graph, which does not know
                # null: - the refusal surfaces as RevisionNotPresent(null:).
                # The tip rules are still checked; reported at the end.
                if not (remote and step["op"] == "pull" and e.revision_id ==
                        b"null:" and expexc == "AppendRevisionsOnlyViolation"):
                    raise
                exc = errors.AppendRevisionsOnlyViolation(url)
                wrong_error.append([step, T, X])
            new = tip_info(d + "/tgt")
            live = tgt.last_revision_info()
            live = (live[0], live[1].decode())
            detail = {"step": i, "op": step["op"], "T": T, "S": step["stip"],
                      "stop": stop, "ow": ow, "append_only": ao,
                      "bound": case["bound"], "locked": case.get("locked"),
                      "exp": exp, "expexc": expexc, "got": list(new),
                      "live": list(live), "exc": repr(exc)[:200]}
            op = step["op"]
            if expexc is None:
                check(exc is None, "C21/%s-refused-a-permitted-move" % op,
                      detail)
            else:
                check(type(exc).__name__ == expexc,
                      "C21/%s-%s" % (op, "diverged-not-refused"
                                     if expexc == "DivergedBranches"
                                     else "append-only-violated"), detail)
            if X == NULL and hist_ow:
                # outside the statement: only "nothing else than T or null"
                check(new[1] in (T, NULL), "C21/%s-tip-not-as-specified" % op,
                      detail)
                exp = new[1]
            check(new[1] == exp, "C21/%s-tip-not-as-specified" % op, detail)
            check(new[0] == expect_revno(g, exp),
                  "C21/revno-not-lefthand-length", detail)
            check(live == new, "C21/long-lived-branch-object-reports-another-tip",
                  detail)
            if exp != NULL:
                tb = _branch.Branch.open(d + "/tgt")
                check(tb.repository.has_revision(bz.enc(exp)),
                      "C21/tip-revision-not-in-repository", detail)
            if master is not None:
                mnew = tip_info(d + "/master")
                if blind and mnew[1] != exp:
                    deferred.append([detail, list(mnew)])
                else:
                    check(mnew[1] == exp and mnew[0] == expect_revno(g, exp),
                          "C21/bound-master-not-in-step", [detail, list(mnew)])
            # --- non-triviality of this step
            related = T != NULL and X != NULL and T != X
            if expexc is not None:
                labels.append("refused:" + expexc)
            elif related and exp == X and not hist_ow:
                merges = any(len([p for p in g[r] if p in g]) > 1
                             for r in gm.ancestry(g, X) - gm.ancestry(g, T))
                labels.append("fast-forward-through-merge" if merges
                              else "fast-forward")
            elif related and hist_ow and T not in gm.ancestry(g, X):
                labels.append("overwrite-diverged")
            elif related and exp == T:
                labels.append("already-merged")
            T = exp
            if deferred:
                break              # the model of a bound pair ends here
    exp = T
    check(not deferred,
          "C21/push-into-bound-remote-target-leaves-the-master-behind",
          deferred)
    # --- follow-up tip move under the append-only rule
    fu = case["followup"]
    if fu is not None and exp != NULL:
        kind, R = fu["kind"], fu["rev"]
        tb = _branch.Branch.open(d + "/tgt")
        if master is not None:
            tb.unbind()
        old = exp
        if R is not None:
            tb.repository.fetch(_branch.Branch.open(d + "/src").repository,
                                bz.enc(R))
        if remote:
            tb = _branch.Branch.open(url)
        exc2 = None
        if kind == "uncommit":
            lh = gm.lefthand(g, old)
            want = lh[-2] if len(lh) > 1 else NULL
        else:
            want = R or NULL
        try:
            if kind == "set_last_revision_info":
                with tb.lock_write():
                    tb.set_last_revision_info(expect_revno(g, want),
                                              bz.enc(want))
            elif kind == "generate_revision_history":
                with tb.lock_write():
                    tb.generate_revision_history(bz.enc(want))
            else:  # uncommit one mainline revision
                _uncommit.uncommit(tb, revno=None)
        except errors.AppendRevisionsOnlyViolation as e:
            exc2 = e
        except _remote.UnknownErrorFromSmartServer as e:
            if not remote or e.error_tuple[:2] != (
                    b"error", b"AppendRevisionsOnlyViolation"):
                raise
            exc2 = e
        new2 = tip_info(d + "/tgt")
        d2 = {"followup": fu, "old": old, "want": want, "got": list(new2),
              "append_only": ao, "exc": repr(exc2)[:200]}
        allowed = ao != 1 or want == old or (
            want != NULL and old in gm.lefthand(g, want))
        if allowed:
            check(exc2 is None, "C21/followup-refused-a-permitted-move", d2)
            check(new2[1] == want and new2[0] == expect_revno(g, want),
                  "C21/followup-tip-or-revno-wrong", d2)
        else:
            check(exc2 is not None,
                  "C21/append-only-violated-by-" + kind, d2)
            check(new2[1] == old and new2[0] == expect_revno(g, old),
                  "C21/refused-followup-changed-the-tip", d2)
            labels.append("followup-refused")
    check(not wrong_error,
          "C21/append-only-refusal-of-remote-pull-raises-RevisionNotPresent",
          wrong_error)
    if not labels:
        return trivial()
    for la in labels:
        if la.startswith("refused:"):
            return ok(la)
    return ok(labels[0])


def run_remote(case, env):
    return run(case, env, remote=True)


def setup_server(env):
    from breezy.tests import test_server
    from breezy import urlutils

    class _Dir:
        def get_url(self):
            return urlutils.local_path_to_url(env.root) + "/"
    srv = test_server.SmartTCPServer_for_testing()
    srv.start_server(_Dir())
    env.shared["c21-srv"] = srv


def teardown_server(env):
    srv = env.shared.pop("c21-srv", None)
    if srv is not None:
        srv.stop_server()


def _target_tip(draw, g, ids, X):
    """Target tip by relation to the requested revision, so that every class
    (in particular "diverged") is well represented."""
    if X is None:
        return draw(st.sampled_from([None] + ids))
    aX = gm.ancestry(g, X)
    cats = {"null": [None], "equal": [X],
            "ancestor": sorted(aX - {X}),
            "descendant": sorted(r for r in ids
                                 if r != X and X in gm.ancestry(g, r)),
            "diverged": sorted(r for r in ids if r not in aX and
                               X not in gm.ancestry(g, r))}
    names = [c for c in ("null", "equal", "ancestor", "descendant", "diverged",
                         "diverged") if cats[c]]
    return draw(st.sampled_from(cats[draw(st.sampled_from(names))]))


_overwrite = st.sampled_from(["no", "no", "no", "yes", "history", "tags"])


@st.composite
def cases(draw, n_max=10):
    spec = draw(history.history_spec(
        n_min=2, n_max=n_max, merges=True, ghosts=True, bb_safe=True,
        ops_max=1, base_max=1))
    ids = [r["id"] for r in spec["revs"]]
    g = history.graph_of(spec)
    stip = draw(st.sampled_from(ids))
    if draw(st.integers(0, 24)) == 0:
        stip = None                    # an empty source branch
    stop = None if stip is None else draw(st.one_of(
        st.none(), st.none(), st.sampled_from(sorted(gm.ancestry(g, stip)))))
    ttip = _target_tip(draw, g, ids, stop or stip)
    second = None
    if draw(st.integers(0, 2)) == 0:
        stip2 = draw(st.sampled_from(ids))
        second = {"stip": stip2,
                  "stop": draw(st.one_of(st.none(), st.sampled_from(
                      sorted(gm.ancestry(g, stip2))))),
                  "op": draw(st.sampled_from(["pull", "push"])),
                  "overwrite": draw(_overwrite)}
    fu = None
    if draw(st.booleans()):
        fu = {"kind": draw(st.sampled_from(
            ["set_last_revision_info", "generate_revision_history",
             "uncommit"])), "rev": draw(st.sampled_from(ids))}
        if fu["kind"] == "set_last_revision_info" and \
                draw(st.integers(0, 5)) == 0:
            fu["rev"] = None           # back to null:
    bound = draw(st.integers(0, 9)) < 2
    ao = draw(st.integers(0, 9))
    return {"spec": spec, "format": draw(st.sampled_from(["2a", "2a",
                                                          "pack-0.92"])),
            "stip": stip, "ttip": ttip, "stop": stop,
            "op": draw(st.sampled_from(["pull", "push"])),
            "overwrite": draw(_overwrite),
            "append_only": (1 if ao < 3 else 2 if ao == 3 and bound else 0),
            "bound": bound,
            "locked": draw(st.booleans()),
            "second": second,
            "followup": fu}


def kinds(tier):
    return [
        Kind("pull-push", run, strategy=cases(n_max=9 if tier == "quick" else 12),
             examples={"quick": 1040, "thorough": 16000}),
        Kind("remote-target", run_remote,
             strategy=cases(n_max=7 if tier == "quick" else 10),
             examples={"quick": 200, "thorough": 3000},
             setup=setup_server, teardown=teardown_server),
    ]
