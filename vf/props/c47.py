"""C47 - path and line utilities satisfy their algebraic laws:
minimum_path_selection / is_inside / is_inside_any, splitpath / joinpath /
pathjoin, split_lines / chunks_to_lines, format_highres_date /
unpack_highres_date."""

import itertools
import math

from hypothesis import strategies as st

from vf.api import Kind, b2s, check, ok, s2b, trivial, violation

PROPERTY = "C47"
LEVEL = "exploration"
TECHNIQUE = ("algebraic laws against component-wise / byte-wise reference "
             "definitions; exhaustive enumeration of bounded path sets, byte "
             "strings x all chunkings and all minute offsets (block cases) plus "
             "Hypothesis beyond the bounds")
RULE = ("path sets: every subset of the 13 relative paths of depth <= 2 over "
        "{a, ab, b} and over {a, a-b, ab} (with ''), every subset of size <= 2 "
        "(quick) / 3 (thorough) of the 85 paths of depth <= 3 over {a, ab, b, "
        "a-b}, and generated lists of 0-8 paths (duplicates, any order, depth <= "
        "4, also a non-ASCII component); non-trivial = the set holds a pair where "
        "one name is a string prefix but not a parent of the other AND a "
        "parent/child pair. split/join: all normalised paths of depth <= 4 over 5 "
        "components. lines: every byte string over {\\n, \\r, a, b} of length <= 7 "
        "(quick) / 9 (thorough) with every chunking (every subset of cut points, "
        "also with empty chunks interleaved), generated strings up to 40 bytes; "
        "non-trivial = at least two lines. dates: every whole-minute offset in "
        "+-14 h x 10 timestamps, generated timestamps in [0, 2^32) with ms/us/ns/"
        "dyadic/arbitrary fractions; non-trivial = non-zero fraction or non-hour "
        "offset. Distinct by construction (enumerations) / by case hash.")
ASSUMPTIONS = [
    "paths are normalised relative paths (no empty, '.' or '..' components, no "
    "trailing slash); '' is the tree root",
    "timezone offsets are whole minutes; the documented resolution of the "
    "high-resolution date is the 9 printed decimals, so the round trip is exact "
    "up to 5e-10 s plus two units in the last place of the float timestamp",
]
LEVEL_TEXT = ("The path, line and offset domains are enumerated completely below "
              "the stated bounds (the functions only compare components / look "
              "for \\n, so the small alphabets exercise every branch), larger "
              "inputs and the timestamp continuum are sampled.")
LEVEL_NOTE = ("Reference definitions are 3-10 lines each (component-wise prefix, "
              "bytes.split on \\n, str.split on '/'); Python's float formatting is "
              "used only to classify the known fraction-rounding finding.")
REGISTERED = True
NONTRIVIAL_FLOOR = {"quick": 5000, "thorough": 100000}


def _o():
    from breezy import osutils
    return osutils


# ---------------------------------------------------------------- paths

def comps(p):
    return p.split("/") if p else []


def ref_inside(d, f):
    dc, fc = comps(d), comps(f)
    return fc[:len(dc)] == dc


def universe(components, depth):
    out = [""]
    for n in range(1, depth + 1):
        out.extend("/".join(c) for c in itertools.product(components, repeat=n))
    return out


def path_set_label(paths):
    ps = sorted(set(paths))
    prefix_pair = parent_pair = False
    for x in ps:
        for y in ps:
            if x == y or x == "":
                continue
            if ref_inside(x, y):
                parent_pair = True
            elif y.startswith(x):
                prefix_pair = True
    if prefix_pair and parent_pair:
        return "prefix-pair+parent-pair"
    return None


def law_path_set(paths, probes):
    """paths: list (duplicates allowed); probes: extra paths for the
    inside-any agreement."""
    o = _o()
    sel = o.minimum_path_selection(list(paths))
    info = {"paths": list(paths)}
    check(isinstance(sel, (set, frozenset)), "C47/mps-result-not-a-set",
          [info, repr(sel)])
    info["selected"] = sorted(sel)
    pset = set(paths)
    check(sel <= pset, "C47/mps-selects-path-not-in-input", info)
    for s in sel:
        for t in sel:
            if s != t:
                check(not ref_inside(s, t), "C47/mps-selected-path-inside-another",
                      [info, s, t])
    sel_list = sorted(sel)
    for p in pset:
        n = sum(1 for s in sel if ref_inside(s, p))
        check(n >= 1, "C47/mps-input-path-not-covered", [info, p])
        check(n == 1, "C47/mps-input-path-covered-more-than-once", [info, p])
    for p in list(pset) + list(probes):
        exp = any(ref_inside(s, p) for s in sel)
        got = o.is_inside_any(sel_list, p)
        check(got == exp, "C47/is_inside_any-disagrees-with-containment",
              [info, p, got, exp])
        for s in sel_list:
            check(o.is_inside(s, p) == ref_inside(s, p),
                  "C47/is_inside-disagrees-with-component-prefix", [s, p])
    # the selection does not depend on order, multiplicity or container type
    again = o.minimum_path_selection(sorted(pset, reverse=True))
    check(again == sel, "C47/mps-depends-on-input-order", [info, sorted(again)])
    check(o.minimum_path_selection(set(pset)) == sel and
          o.minimum_path_selection(tuple(paths) + tuple(paths)) == sel,
          "C47/mps-depends-on-container-type", info)


U_ABB = universe(["a", "ab", "b"], 2)          # 13 paths
U_DASH = universe(["a", "a-b", "ab"], 2)       # 13 paths ('-' sorts below '/')
U_BIG = universe(["a", "ab", "b", "a-b"], 3)   # 85 paths


def _big_size(tier):
    return 2 if tier == "quick" else 3


def enum_path_blocks(tier):
    for name in ("abb", "dash"):
        for hi in range(1 << 5):
            yield {"u": name, "hi": hi}
    yield {"u": "pairs-is_inside"}
    k = _big_size(tier)
    yield {"u": "big", "first": -1, "k": k}
    for i in range(len(U_BIG)):
        yield {"u": "big", "first": i, "k": k}


def run_path_block(case, env):
    n = nt = 0
    u = case["u"]
    if u in ("abb", "dash"):
        uni = U_ABB if u == "abb" else U_DASH
        hi = case["hi"]
        # 13 paths: 5 high bits fixed by the block, 8 low bits enumerated
        for lo in range(1 << 8):
            mask = (hi << 8) | lo
            paths = [uni[i] for i in range(13) if (mask >> i) & 1]
            law_path_set(paths, uni)
            n += 1
            if path_set_label(paths):
                nt += 1
    elif u == "pairs-is_inside":
        o = _o()
        for d in U_BIG:
            for f in U_BIG:
                got = o.is_inside(d, f)
                check(got == ref_inside(d, f),
                      "C47/is_inside-disagrees-with-component-prefix",
                      [d, f, got])
                n += 1
                if d and d != f and f.startswith(d):
                    nt += 1
    else:
        first = case["first"]
        k = case["k"]
        probes = U_ABB + U_DASH[1:]
        if first < 0:
            law_path_set([], probes)
            n += 1
        else:
            rest = U_BIG[first + 1:]
            for extra in range(0, k):
                for tail in itertools.combinations(rest, extra):
                    paths = [U_BIG[first]] + list(tail)
                    law_path_set(paths, probes)
                    n += 1
                    if path_set_label(paths):
                        nt += 1
    if nt:
        return ok("enumerated-path-sets", n=n, nt=nt)
    return ok(None, n=n)


_COMP = st.sampled_from(["a", "a", "a", "ab", "ab", "b", "a-b", "a.b", "é",
                         "a b"])
_PATH = st.one_of(
    st.just(""),
    st.lists(_COMP, min_size=1, max_size=4).map("/".join),
    st.lists(_COMP, min_size=1, max_size=2).map("/".join),
    st.lists(_COMP, min_size=1, max_size=2).map("/".join),
    st.lists(_COMP, min_size=1, max_size=1).map("/".join),
)
@st.composite
def _gen_paths(draw):
    paths = draw(st.lists(_PATH, min_size=1, max_size=5))
    derive = draw(st.lists(st.tuples(
        st.integers(0, 7),
        st.sampled_from(["child", "child", "sibling-b", "sibling-b",
                         "sibling-dash", "parent", "dup"]),
        _COMP), min_size=2, max_size=5))
    for idx, how, comp in derive:
        p = paths[idx % len(paths)]
        if how == "child":
            q = p + "/" + comp if p else comp
        elif how == "sibling-b":
            q = p + "b" if p else "ab"
        elif how == "sibling-dash":
            q = p + "-b" if p else "a-b"
        elif how == "parent":
            q = "/".join(comps(p)[:-1])
        else:
            q = p
        paths.insert(draw(st.integers(0, len(paths))), q)
    return {"paths": paths}


gen_paths = _gen_paths()


def run_paths(case, env):
    paths = case["paths"]
    probes = set(U_ABB)
    for p in paths:
        c = comps(p)
        for i in range(len(c) + 1):
            probes.add("/".join(c[:i]))
        probes.add(p + "b")
        probes.add(p + "/a" if p else "a")
    law_path_set(paths, sorted(probes))
    lab = path_set_label(paths)
    return ok(lab) if lab else trivial()


# ---------------------------------------------------------------- split/join

SJ_COMPS = ["a", "ab", ".a", "a b", "é"]


def enum_splitjoin(tier):
    for c in SJ_COMPS:
        yield {"first": c}


def run_splitjoin_block(case, env):
    o = _o()
    n = nt = 0
    for depth in range(1, 5):
        for tail in itertools.product(SJ_COMPS, repeat=depth - 1):
            parts = [case["first"]] + list(tail)
            p = "/".join(parts)
            sp = o.splitpath(p)
            check(list(sp) == parts, "C47/splitpath-differs-from-components",
                  [p, list(sp)])
            check(o.joinpath(list(sp)) == p, "C47/joinpath-splitpath-not-identity",
                  [p, o.joinpath(list(sp))])
            check(o.pathjoin(*parts) == p, "C47/pathjoin-of-components-differs",
                  [p, o.pathjoin(*parts)])
            head, tailc = o.split(p)
            check((head, tailc) == ("/".join(parts[:-1]), parts[-1]),
                  "C47/split-differs-from-last-component", [p, head, tailc])
            check(o.pathjoin(head, tailc) == p, "C47/pathjoin-split-not-identity",
                  [p, head, tailc, o.pathjoin(head, tailc)])
            for i in range(1, len(parts)):
                a, b = "/".join(parts[:i]), "/".join(parts[i:])
                check(o.pathjoin(a, b) == p, "C47/pathjoin-of-halves-differs",
                      [a, b, o.pathjoin(a, b)])
                check(o.is_inside(a, p) and not o.is_inside(p, a),
                      "C47/is_inside-wrong-for-ancestor", [a, p])
            n += 1
            if depth >= 2:
                nt += 1
    if case["first"] == SJ_COMPS[0]:
        check(list(o.splitpath("")) == [], "C47/splitpath-of-root-not-empty",
              list(o.splitpath("")))
        n += 1
    return ok("depth>=2", n=n, nt=nt)


# ---------------------------------------------------------------- lines

def ref_lines(t):
    parts = t.split(b"\n")
    out = [p + b"\n" for p in parts[:-1]]
    if parts[-1]:
        out.append(parts[-1])
    return out


def law_lines(t):
    o = _o()
    lines = o.split_lines(t)
    check(isinstance(lines, list) and all(type(x) is bytes for x in lines),
          "C47/split_lines-result-type", repr(lines))
    check(b"".join(lines) == t, "C47/split_lines-concatenation-differs",
          [b2s(t), [b2s(x) for x in lines]])
    check(lines == ref_lines(t), "C47/split_lines-not-split-at-newlines",
          [b2s(t), [b2s(x) for x in lines]])
    return lines


def law_chunking(t, lines, chunks):
    o = _o()
    got = o.chunks_to_lines(list(chunks))
    check(got == lines, "C47/chunks_to_lines-depends-on-chunking",
          [b2s(t), [b2s(c) for c in chunks], [b2s(x) for x in got]])


def chunk_at(t, mask):
    """Cut t after byte i for every set bit i of mask."""
    out = []
    start = 0
    for i in range(len(t) - 1):
        if (mask >> i) & 1:
            out.append(t[start:i + 1])
            start = i + 1
    out.append(t[start:])
    return out


LINE_ALPHA = [b"\n", b"\r", b"a", b"b"]


def _line_bound(tier):
    return 7 if tier == "quick" else 9


def enum_line_blocks(tier):
    top = _line_bound(tier)
    yield {"len": [0, 1, 2], "prefix": ""}
    for length in range(3, top + 1):
        for pre in itertools.product(range(4), repeat=2):
            yield {"len": [length], "prefix": "".join(b2s(LINE_ALPHA[i])
                                                      for i in pre)}


def run_line_block(case, env):
    o = _o()
    pre = s2b(case["prefix"])
    n = nt = 0
    for length in case["len"]:
        for tail in itertools.product(LINE_ALPHA, repeat=length - len(pre)):
            t = pre + b"".join(tail)
            lines = law_lines(t)
            n += 1
            if len(lines) >= 2:
                nt += 1
            if not t:
                law_chunking(t, lines, [])
                law_chunking(t, lines, [b""])
                law_chunking(t, lines, [b"", b""])
                continue
            for mask in range(1 << (len(t) - 1)):
                chunks = chunk_at(t, mask)
                law_chunking(t, lines, chunks)
                n += 1
            # empty chunks between all single bytes, and the lazy variant
            spaced = [b""]
            for i in range(len(t)):
                spaced.append(t[i:i + 1])
                spaced.append(b"")
            law_chunking(t, lines, spaced)
            check(list(o.chunks_to_lines_iter(iter(lines))) == lines,
                  "C47/chunks_to_lines_iter-changes-split-lines",
                  [b2s(t)])
            n += 2
    return ok("multi-line", n=n, nt=nt) if nt else ok(None, n=n)


gen_text = st.fixed_dictionaries({
    "text": st.text(alphabet=st.sampled_from("\n\n\n\rabc\x00\xff"), min_size=4,
                    max_size=40),
    "cuts": st.lists(st.integers(0, 40), max_size=12),
    "empties": st.integers(0, 4095),
})


def run_text(case, env):
    o = _o()
    t = s2b(case["text"])
    lines = law_lines(t)
    cuts = sorted(set(c % len(t) for c in case["cuts"] if t) - {0})
    chunks = [t[a:b] for a, b in zip([0] + cuts, cuts + [len(t)])] if t else []
    with_empty = []
    for i, c in enumerate(chunks):
        if (case["empties"] >> (i % 12)) & 1:
            with_empty.append(b"")
        with_empty.append(c)
    law_chunking(t, lines, chunks)
    law_chunking(t, lines, with_empty)
    law_chunking(t, lines, lines)
    # any iterable of chunks: tuple, generator
    check(o.chunks_to_lines(tuple(chunks)) == lines and
          o.chunks_to_lines(c for c in with_empty) == lines,
          "C47/chunks_to_lines-depends-on-iterable-type",
          [b2s(t), [b2s(c) for c in chunks]])
    check(o.split_lines(chunks) == lines,
          "C47/split_lines-of-chunk-list-differs", [b2s(t)])
    check(list(o.chunks_to_lines_iter(iter(with_empty))) == lines,
          "C47/chunks_to_lines_iter-depends-on-chunking",
          [b2s(t), [b2s(c) for c in with_empty]])
    if len(lines) >= 2 and len(chunks) >= 2:
        return ok("multi-line+multi-chunk")
    return trivial()


# ---------------------------------------------------------------- dates

KNOWN_ROUNDUP = "C47/highres-date-fraction-rounding-up-to-1-loses-a-second"


def law_date(t, offmin):
    o = _o()
    off = offmin * 60
    s = o.format_highres_date(t, off)
    info = {"t": repr(t), "offset": off, "formatted": s}
    try:
        t2, o2 = o.unpack_highres_date(s)
    except ValueError as e:
        # unpack_highres_date documents ValueError for strings that are not
        # high-resolution dates; its own formatter must not produce one
        return violation("C47/highres-date-own-output-not-parseable",
                         [info, repr(e)])
    info["parsed"] = [repr(t2), o2]
    check(o2 == off, "C47/highres-date-offset-not-restored", info)
    # other spellings of the same arguments: int timestamp, omitted offset
    if t == math.floor(t):
        check(o.format_highres_date(int(t), off) == s,
              "C47/highres-date-int-timestamp-formats-differently", info)
    if off == 0:
        check(o.format_highres_date(t) == s and
              o.format_highres_date(t, None) == s,
              "C47/highres-date-default-offset-formats-differently", info)
    tol = 5e-10 + 2 * math.ulp(t)
    if abs(t2 - t) > tol:
        frac = t - math.floor(t)
        if ("%.9f" % frac).startswith("1"):
            return violation(KNOWN_ROUNDUP, info)
        return violation("C47/highres-date-timestamp-not-restored", info)
    return None


def date_label(t, offmin):
    nonhour = offmin % 60 != 0
    frac = t != math.floor(t)
    if nonhour and offmin < 0:
        return "negative-non-hour-offset"
    if nonhour:
        return "non-hour-offset"
    if frac:
        return "fractional-seconds"
    return None


ENUM_TS = [0.0, 0.5, 59.999, 86399.25, 951782400.123, 1000000000.000001,
           1234567890.123456789, 2147483647.5, 2147483648.0, 4294967295.75]


def enum_date_blocks(tier):
    for i in range(len(ENUM_TS)):
        yield {"ts": i}


def run_date_block(case, env):
    t = ENUM_TS[case["ts"]]
    n = nt = 0
    for offmin in range(-14 * 60, 14 * 60 + 1):
        out = law_date(t, offmin)
        if out is not None:
            return out
        n += 1
        if date_label(t, offmin):
            nt += 1
    return ok("enumerated-offsets", n=n, nt=nt)


_FRAC = st.one_of(
    st.just(0.0),
    st.integers(0, 999).map(lambda k: k / 1000.0),
    st.integers(0, 999999).map(lambda k: k / 1000000.0),
    st.integers(0, 999999999).map(lambda k: k / 1000000000.0),
    st.integers(1, 40).map(lambda k: 1.0 - 2.0 ** -k),
    st.integers(1, 30).map(lambda k: 2.0 ** -k),
    st.floats(0.0, 1.0, exclude_max=True, allow_nan=False),
)
_SEC = st.one_of(
    st.integers(0, 2 ** 32 - 1),
    st.integers(0, 2 ** 32 - 1),
    st.integers(0, 100000),
    st.sampled_from([0, 1, 59, 86399, 86400, 951782399, 951782400,
                     2 ** 31 - 1, 2 ** 31, 2 ** 32 - 1]),
)
_OFFMIN = st.one_of(
    st.integers(-14 * 60, 14 * 60),
    st.sampled_from([-210, -570, -30, -1, 1, 30, 330, 345, 765, -840, 840, 0]),
    st.integers(-14, 14).map(lambda h: h * 60),
)


@st.composite
def gen_date(draw):
    t = float(draw(_SEC)) + draw(_FRAC)
    if t >= 2.0 ** 32:
        t = math.nextafter(2.0 ** 32, 0.0)
    return {"t": t, "offmin": draw(_OFFMIN)}


def run_date(case, env):
    t = float(case["t"])
    offmin = case["offmin"]
    lab = date_label(t, offmin)
    out = law_date(t, offmin)
    if out is not None:
        out.label = lab
        return out
    return ok(lab) if lab else trivial()


def kinds(tier):
    return [
        Kind("enum-path-sets", run_path_block, enumerate=enum_path_blocks,
             exhaustive=True, hash_cases=False),
        Kind("enum-split-join", run_splitjoin_block, enumerate=enum_splitjoin,
             exhaustive=True, hash_cases=False),
        Kind("enum-lines", run_line_block, enumerate=enum_line_blocks,
             exhaustive=True, hash_cases=False),
        Kind("enum-date-offsets", run_date_block, enumerate=enum_date_blocks,
             exhaustive=True, hash_cases=False),
        Kind("path-lists", run_paths, strategy=gen_paths,
             examples={"quick": 6000, "thorough": 300000}),
        Kind("texts", run_text, strategy=gen_text,
             examples={"quick": 10000, "thorough": 500000}),
        Kind("dates", run_date, strategy=gen_date(),
             examples={"quick": 15000, "thorough": 1000000}),
    ]
