"""C01 - a commit records exactly the selected working-tree state."""

import os
import shutil

from hypothesis import strategies as st

from vf.api import Kind, check, ok, rejected, trivial
from vf.lib import bz, treemodel as tm

PROPERTY = "C01"
LEVEL = "exploration"
TECHNIQUE = ("model-based generated search: Hypothesis draws edit scripts and "
             "path selections against a tree model, real WorkingTree.commit is "
             "compared with the Must/May/other closure oracle in file-id space; "
             "fault enumeration over the commit's transport operations and "
             "callbacks for the abort path")
RULE = ("base tree + 1-3 rounds of generated edits (write, mkdir, symlink, add, "
        "rename/move, remove, chmod, delete-from-disk, unversion-keep) on a real "
        "2a / pack-0.92 working tree (re-opened for every step or one "
        "long-lived object), each followed by a commit with generated "
        "specific_files (any subset of basis and working paths, also the empty "
        "list), exclude list, both, or neither, with the quiet or the logging "
        "reporter; merge-commit kind: a merge of a sprouted branch (content, "
        "mode, symlink target, rename, add) plus post-merge edits (chmod, "
        "rewrite, append, put back to this branch's version, unversion, "
        "rename, retarget), optionally a ghost merge parent, and the refusals "
        "of selected-file / excluding / conflicted merge commits; fault kind: "
        "the same prefix, then a commit with one injected failure at a "
        "generated point (message callback, k-th file read, k-th reported "
        "change, k-th repository transport operation), one third with the "
        "caller's own write lock held across the failed commit and the next "
        "one. Non-trivial: proper "
        "non-empty selection while an unselected id has a pending change; a "
        "rename whose two ends fall on different sides of the selection; an "
        "exclude list that hits a changed path; a fault after the first text "
        "was inserted. Distinct by case hash.")
ASSUMPTIONS = [
    "path selection in breezy is path based on both trees and closed under "
    "path collisions: ids outside the selection that the commit must touch to "
    "keep the tree valid (parents, collision partners) may take either their "
    "basis or their working entry (May class); selected ids (Must) and all "
    "others are decided exactly",
    "on-disk replacement of a versioned directory that still has versioned "
    "children by a file is not generated (bzrformats dirstate asserts; trusted "
    "base)",
    "partial commits are not combined with pending merges (refused by design)",
]
LEVEL_TEXT = ("Sampled model-based exploration of working-tree states and path "
              "selections with an exact oracle for selected and unrelated ids; "
              "for the abort path every generated scenario is re-run with one "
              "injected failure and the branch, repository listing and pending "
              "changes must be as before.")
LEVEL_NOTE = ("bzr formats 2a and pack-0.92 (file-id space); trees bounded by the "
              "generator; injected failures are transport errors on the "
              "repository's pack/index files, exceptions from the message "
              "callback, from reading a working file and from the tree's change "
              "iterator; git trees are covered "
              "by C09/C35 only.")
REGISTERED = True
NONTRIVIAL_FLOOR = {"quick": 40, "thorough": 400}


# ------------------------------------------------------------------ snapshots

def snap_real(tree):
    """{id: [parent_id, name, kind, sha1|target|None, exec|None]}"""
    out = {}
    with tree.lock_read():
        for path, ie in tree.iter_entries_by_dir():
            if ie.kind == "file":
                val = bz.sha1(tree.get_file_text(path))
                ex = bool(tree.is_executable(path))
            elif ie.kind == "symlink":
                val, ex = tree.get_symlink_target(path), None
            else:
                val, ex = None, None
            pid = ie.parent_id.decode() if ie.parent_id else None
            out[ie.file_id.decode()] = [pid, ie.name, ie.kind, val, ex]
    return out


def snap_model(model, missing=()):
    gone = set()
    for f in missing:
        if f in model:
            gone.add(f)
            gone.update(tm.descendants(model, f))
    out = {}
    for fid, e in model.items():
        if fid in gone:
            continue
        if e["kind"] == "file":
            val, ex = bz.sha1(bz.cbytes(e["content"])), bool(e["exec"])
        elif e["kind"] == "symlink":
            val, ex = e["content"], None
        else:
            val, ex = None, None
        out[fid] = [e["parent"], e["name"], e["kind"], val, ex]
    return out


def paths_of(snap):
    """{id: path} for a snapshot (entries whose ancestors are all present)."""
    out = {}

    def path(fid, seen=()):
        if fid in out:
            return out[fid]
        e = snap.get(fid)
        if e is None or fid in seen:
            return None
        if e[0] is None:
            out[fid] = ""
            return ""
        pp = path(e[0], seen + (fid,))
        if pp is None:
            return None
        out[fid] = (pp + "/" + e[1]) if pp else e[1]
        return out[fid]
    for fid in snap:
        path(fid)
    return out


def inside(sel, p):
    return any(p == s or s == "" or p.startswith(s + "/") for s in sel)


def snap_valid(snap):
    seen = set()
    roots = 0
    for fid, e in snap.items():
        if e[0] is None:
            roots += 1
            continue
        par = snap.get(e[0])
        if par is None or par[2] != "directory":
            return False
        if (e[0], e[1]) in seen:
            return False
        seen.add((e[0], e[1]))
    return roots == 1 and len(paths_of(snap)) == len(snap)


# ------------------------------------------------------------------ world

class World:
    def __init__(self, d, fmt, lightweight=False):
        self.dir = d
        if lightweight:
            from vf.seam import ft
            from breezy import branch as _branch
            self.branch_path = d + "/branch"
            bz.init_branch(self.branch_path, fmt)
            b = _branch.Branch.open(ft.url(self.branch_path))
            self.path = d + "/tree"
            b.create_checkout(self.path, lightweight=True)
            self.repo_path = self.branch_path
        else:
            self.path = d + "/tree"
            bz.init_tree(self.path, fmt)
            self.repo_path = self.path
        self.model = tm.new_model()
        self.missing = set()
        wt = self.wt()
        with wt.lock_write():
            wt.set_root_id(bz.enc(tm.ROOT_ID))
        self.n = 0
        self.keep = False
        self._kept = None

    def wt(self):
        return bz.open_tree(self.path)

    def ctree(self):
        """The tree object edits and commits go through: a fresh one each
        time, or (keep) one long-lived object for the whole case, so that
        whatever it caches has to survive its own commits."""
        if not self.keep:
            return self.wt()
        if self._kept is None:
            self._kept = self.wt()
        return self._kept

    def disk(self, fid):
        return os.path.join(self.path, tm.path_of(self.model, fid))

    def _clear(self, ap):
        if os.path.islink(ap) or (os.path.lexists(ap) and not os.path.isdir(ap)):
            os.unlink(ap)
        elif os.path.isdir(ap):
            shutil.rmtree(ap)

    def apply(self, wt, op):
        """One edit on disk + versioning + model."""
        m = self.model
        k = op[0]
        if k == "add":
            _, fid, parent, name, kind, content, ex = op
            tm.apply_op(m, op)
            ap = self.disk(fid)
            if kind == "directory":
                if not (os.path.isdir(ap) and not os.path.islink(ap)):
                    self._clear(ap)
                    os.mkdir(ap)
            else:
                self._clear(ap)
                if kind == "symlink":
                    os.symlink(content, ap)
                else:
                    with open(ap, "wb") as f:
                        f.write(bz.cbytes(content))
                    os.chmod(ap, 0o755 if ex else 0o644)
            wt.add([tm.path_of(m, fid)], ids=[bz.enc(fid)])
        elif k == "rename":
            old = tm.path_of(m, op[1])
            tm.apply_op(m, op)
            new = tm.path_of(m, op[1])
            self._clear(os.path.join(self.path, new))   # unknown leftovers
            wt.rename_one(old, new)
        elif k == "delete":
            path = tm.path_of(m, op[1])
            victims = [op[1]] + tm.descendants(m, op[1])
            vp = sorted((tm.path_of(m, v) for v in victims),
                        key=lambda p: (-p.count("/"), p))
            tm.apply_op(m, op)
            self._clear(os.path.join(self.path, path))
            wt.unversion(vp)
        elif k == "unversion":
            victims = [op[1]] + tm.descendants(m, op[1])
            vp = sorted((tm.path_of(m, v) for v in victims),
                        key=lambda p: (-p.count("/"), p))
            tm.apply_op(m, ["delete", op[1]])
            wt.unversion(vp)
        elif k == "rmdisk":
            self._clear(self.disk(op[1]))
            self.missing.add(op[1])
            self.missing.update(tm.descendants(m, op[1]))
        else:
            bz.apply_ops_wt(wt, m, [op])
        bz.age_files(self.path)

    def pending(self, ids=None):
        """Canonical pending changes per file id (as the tree reports them)."""
        wt = self.wt()
        out = {}
        for rec in bz.iter_changes_canon(wt, wt.basis_tree()):
            if ids is None or rec[0] in ids:
                out[rec[0]] = rec[1:]
        return out

    def state(self):
        from breezy import branch as _branch
        b = _branch.Branch.open(self.repo_path)
        with b.lock_read():
            revs = sorted(r.decode() for r in b.repository.all_revision_ids())
        revno, tip = b.last_revision_info()
        return {"tip": [revno, tip.decode()], "revs": revs,
                "packs": bz.repo_listing(self.repo_path),
                "pending": self.pending()}


# ------------------------------------------------------------------ oracle

def closure(basis, work, must, rec, exact, wp):
    """May = least fixpoint over path collisions (see DESIGN C01).

    wp: working paths of every versioned id, *including* ids whose file is
    missing on disk (they still occupy their path in the tree's inventory,
    although their working entry counts as absent)."""
    bp = paths_of(basis)
    may = set(must)
    rec = set(rec)
    exact = set(exact)
    w_by_path = {p: f for f, p in wp.items()}
    b_by_path = {p: f for f, p in bp.items()}

    def core(e):
        return None if e is None else e

    def touched(p):
        return p is not None and (inside(rec, p) or p in exact)
    changed = True
    ids = sorted(set(basis) | set(work) | set(wp))
    while changed:
        changed = False
        for fid in ids:
            b, w = bp.get(fid), wp.get(fid)
            if fid not in may and (touched(b) or touched(w)):
                may.add(fid)
                changed = True
            if fid in may:
                isdir = (basis.get(fid, [0, 0, None])[2] == "directory" or
                         work.get(fid, [0, 0, None])[2] == "directory")
                for p in (b, w):
                    if p in (None, ""):
                        continue
                    if isdir:
                        if not inside(rec, p):
                            rec.add(p)
                            changed = True
                    elif p not in exact and not inside(rec, p):
                        exact.add(p)
                        changed = True
                # whatever occupies an ancestor path of a member, in either
                # tree, and differs between the trees ("every parent needed")
                for p in (w, b):
                    if not p:
                        continue
                    parts = p.split("/")
                    for i in range(1, len(parts)):
                        anc = "/".join(parts[:i])
                        for aid in (w_by_path.get(anc), b_by_path.get(anc)):
                            if aid is not None and aid not in may and \
                                    core(work.get(aid)) != core(basis.get(aid)):
                                may.add(aid)
                                changed = True
    return may


def classify(basis, work, sel, exclude, wp):
    """-> (must, may) id sets for a commit with sel / exclude."""
    bp = paths_of(basis)
    ids = set(basis) | set(work) | set(wp)
    if sel is not None:
        must = {f for f in ids
                if (bp.get(f) is not None and inside(sel, bp[f])) or
                (wp.get(f) is not None and inside(sel, wp[f]))}
        may = closure(basis, work, must, sel, (), wp)
        if exclude:
            # both: the exclusion filters what the selection reports - an id
            # with a path (old or new) inside the exclude list keeps its
            # basis entry, whatever class the selection put it in
            out = excluded_ids(basis, wp, exclude)
            return must - out, may - out
        return must, may
    if exclude:
        must, mixed = set(), set()
        for f in ids:
            ps = [p for p in (bp.get(f), wp.get(f)) if p is not None]  # wp incl. missing
            exc = [inside(exclude, p) for p in ps]
            if not any(exc):
                must.add(f)
            elif not all(exc):
                mixed.add(f)
        return must, None
    return ids, ids


def excluded_ids(basis, wp, exclude):
    bp = paths_of(basis)
    return {f for f in set(basis) | set(wp)
            if any(p is not None and inside(exclude, p)
                   for p in (bp.get(f), wp.get(f)))}


# ------------------------------------------------------------------ run

REFUSALS = None


def refusals():
    global REFUSALS
    if REFUSALS is None:
        from breezy import errors
        from breezy.commit import PointlessCommit, CannotCommitSelectedFileMerge
        REFUSALS = (PointlessCommit, errors.PathsNotVersionedError,
                    CannotCommitSelectedFileMerge, errors.StrictCommitFailed)
    return REFUSALS


def build_world(case, env, lightweight=False):
    w = World(env.newdir(), case["format"], lightweight)
    wt = w.wt()
    with wt.lock_write():
        for op in case["base"]:
            w.apply(wt, op)
        wt.commit("base", rev_id=b"base", timestamp=bz.T0, timezone=0,
                  committer=bz.COMMITTER, allow_pointless=True)
    return w


def do_edits(w, edits):
    wt = w.ctree()
    with wt.lock_write():
        for op in edits:
            w.apply(wt, op)


def commit_kwargs(rnd_, n):
    kw = dict(rev_id=bz.enc("c%d" % n), timestamp=bz.T0 + n, timezone=0,
              committer=bz.COMMITTER)
    if rnd_["sel"] is not None:
        kw["specific_files"] = list(rnd_["sel"])
    if rnd_["exclude"]:
        kw["exclude"] = list(rnd_["exclude"])
    kw["allow_pointless"] = rnd_["allow_pointless"]
    kw["strict"] = rnd_["strict"]
    if rnd_.get("verbose"):
        # the reporting branch of Commit._filter_iter_changes
        from breezy.commit import ReportCommitToLog
        kw["reporter"] = ReportCommitToLog()
        kw["verbose"] = True
    return kw


def check_commit(w, rnd_, n, labels):
    """One commit round with the full oracle. Returns False if refused."""
    basis = snap_real(w.wt().basis_tree())
    work = snap_model(w.model, w.missing)
    wpaths = paths_of(snap_model(w.model))
    missing_before = set(w.missing)
    sel, exclude = rnd_["sel"], rnd_["exclude"]
    before = w.state()
    kw = commit_kwargs(rnd_, n)
    ctx = {"sel": sel, "exclude": exclude, "round": n,
           "long-lived-tree": w.keep}
    wt = w.ctree()
    try:
        rid = wt.commit("c%d" % n, **kw)
    except refusals() as e:
        after = w.state()
        check(after == before, "C01/refused-commit-changed-state",
              [ctx, type(e).__name__, before, after])
        labels.add("refused:" + type(e).__name__)
        return False
    except Exception as e:  # noqa: BLE001 - exclude lists can make the tree invalid
        if exclude and sel is not None:
            # the exclusion removed something the selection needs (a parent,
            # a collision partner): refusing is legitimate
            cut = classify(basis, work, sel, None, wpaths)[1] & \
                excluded_ids(basis, wpaths, exclude)
            if cut:
                after = w.state()
                check(after == before,
                      "C01/failed-exclude-commit-changed-state",
                      [ctx, type(e).__name__, sorted(cut)])
                labels.add("exclude-impossible")
                return False
        elif exclude:
            must, _ = classify(basis, work, sel, exclude, wpaths)
            pred = {f: (work.get(f) if f in must else basis.get(f))
                    for f in set(basis) | set(work)}
            pred = {f: v for f, v in pred.items() if v is not None}
            # an id with one path inside and one outside the exclude list has
            # its change dropped as a whole, which can leave the (path based)
            # delta of its children without a parent: refusing is legitimate
            bp_ = paths_of(basis)
            mixed = [f for f in set(basis) | set(wpaths)
                     if len({inside(exclude, p) for p in
                             (bp_.get(f), wpaths.get(f)) if p is not None}) == 2]
            if mixed or not snap_valid(pred):
                after = w.state()
                check(after == before,
                      "C01/failed-exclude-commit-changed-state",
                      [ctx, type(e).__name__])
                labels.add("exclude-impossible")
                return False
        if type(e).__name__.startswith("InconsistentDelta"):
            # The path-based partial delta could not be applied (e.g. a new
            # entry takes the name of a deleted sibling whose deletion is not
            # part of the selection). Breezy refuses with an internal error;
            # the property only requires that a raising commit changes nothing.
            after = w.state()
            check(after == before, "C01/raising-commit-changed-state",
                  [ctx, type(e).__name__, before, after])
            labels.add("raised:InconsistentDelta")
            return False
        raise
    new = snap_real(w.wt().branch.repository.revision_tree(rid))
    must, may = classify(basis, work, sel, exclude, wpaths)
    ids = set(basis) | set(work) | set(new) | set(wpaths)
    forced = set()
    cut_out = excluded_ids(basis, wpaths, exclude) \
        if (exclude and sel is not None) else set()
    if may is None:
        # exclude list: decided exactly for every id
        for f in sorted(ids):
            want = work.get(f) if f in must else basis.get(f)
            check(new.get(f) == want,
                  "C01/exclude-commit-%s" % ("lost-included-change" if f in must
                                             else "recorded-excluded-change"),
                  [ctx, f, basis.get(f), work.get(f), new.get(f)])
        may = must
    else:
        for f in sorted(ids):
            n_, b_, w_ = new.get(f), basis.get(f), work.get(f)
            if f in must:
                check(n_ == w_, "C01/selected-id-not-taken-from-working-tree",
                      [ctx, f, b_, w_, n_])
            elif f in may:
                check(n_ in (b_, w_), "C01/collision-partner-neither-basis-nor-working",
                      [ctx, f, b_, w_, n_])
                if n_ != b_:
                    forced.add(f)
            else:
                check(n_ == b_, "C01/excluded-id-changed-by-selected-commit"
                      if f in cut_out else "C01/unselected-id-changed",
                      [ctx, f, b_, w_, n_])
    check(snap_valid(new), "C01/committed-tree-invalid", [ctx, new])
    try:
        after = w.state()
    except AssertionError as e:
        if "Could not find target parent in wt" in str(e) and missing_before:
            # open finding: see known_findings.json
            check(False, "C01/tree-status-asserts-after-partial-commit-inside-"
                  "missing-directory", [ctx, str(e)[:200]])
        raise
    check(after["tip"] == [before["tip"][0] + 1, rid.decode()],
          "C01/tip-or-revno-wrong-after-commit", [ctx, before["tip"], after["tip"]])
    rev = w.wt().branch.repository.get_revision(rid)
    check([p.decode() for p in rev.parent_ids] == [before["tip"][1]],
          "C01/parents-wrong", [ctx, rev.parent_ids])
    # the tree afterwards: committed deletions of missing files are unversioned
    wt_now = w.wt()
    with wt_now.lock_read():
        still = {f: wt_now.is_versioned(wpaths[f]) for f in w.missing
                 if f in wpaths}
    for f, s in sorted(still.items()):
        # same open finding as above, seen from another side: a child row is
        # still versioned although its (missing) parent directory was
        # unversioned by the commit
        p = w.model[f]["parent"] if f in w.model else None
        while s and p is not None:
            check(still.get(p, True),
                  "C01/tree-status-asserts-after-partial-commit-inside-"
                  "missing-directory", [ctx, f, p, "child versioned, parent not"])
            p = w.model[p]["parent"] if p in w.model else None
    for f in sorted(w.missing, key=lambda x: wpaths.get(x, "")):
        if f not in w.model:
            w.missing.discard(f)
            continue
        if f in must:
            check(not still[f], "C01/committed-missing-file-still-versioned",
                  [ctx, f])
        elif f not in may and not exclude and f in basis:
            # (a never-committed, missing "added" entry carries nothing)
            check(still[f], "C01/unselected-missing-file-was-unversioned",
                  [ctx, f])
        if not still[f]:
            for x in [f] + tm.descendants(w.model, f):
                w.missing.discard(x)
            tm.apply_op(w.model, ["delete", f])
    # selected paths are clean afterwards, unrelated pending changes still there
    pend_after = after["pending"]
    for f in must:
        check(f not in pend_after or f in w.missing,
              "C01/selected-id-still-pending-after-commit",
              [ctx, f, pend_after.get(f)])
    for f, chg in before["pending"].items():
        if f not in may and f not in missing_before:
            # (ids whose file is missing on disk are exempt: committing the
            # deletion of their missing parent directory unversions them too)
            # same change apart from the path strings (an ancestor directory's
            # rename may have been committed meanwhile)
            got = pend_after.get(f)
            check(got is not None and got[1:] == chg[1:],
                  "C01/unselected-pending-change-lost-or-altered",
                  [ctx, f, chg, pend_after.get(f)])
    # labels
    pend_ids = set(before["pending"])
    if sel is not None and pend_ids - may:
        labels.add("partial-with-unselected-pending")
    if sel is not None:
        bp, wp = paths_of(basis), wpaths
        for f in must:
            b, w_ = bp.get(f), wp.get(f)
            if b is not None and w_ is not None and b != w_ and \
                    inside(sel, b) != inside(sel, w_):
                labels.add("rename-across-selection")
    if exclude and any(f not in must for f in pend_ids):
        labels.add("exclude-hits-change")
    if forced:
        labels.add("forced-partner")
    if sel is None and not exclude and pend_ids:
        labels.add("full-commit")
    if sel is not None and exclude and cut_out & pend_ids:
        labels.add("selection+exclude")
    if sel == [] and pend_ids:
        labels.add("empty-selection")
    return True


def run(case, env):
    w = build_world(case, env)
    w.keep = bool(case.get("keep_tree"))
    labels = set()
    n = 0
    for rnd_ in case["rounds"]:
        n += 1
        do_edits(w, rnd_["edits"])
        check_commit(w, rnd_, n, labels)
    interesting = labels - {"full-commit"}
    if not labels:
        return trivial()
    return ok("+".join(sorted(interesting)) if interesting else "full-commit")


# ------------------------------------------------------------------ faults

class Injected(Exception):
    pass


def run_fault(case, env):
    """The last round's commit is run with one injected failure."""
    from vf.seam import ft
    from breezy import errors
    from dromedary import errors as derr
    w = build_world(case, env, lightweight=True)
    labels = set()
    n = 0
    for rnd_ in case["rounds"][:-1]:
        n += 1
        do_edits(w, rnd_["edits"])
        check_commit(w, rnd_, n, labels)
    rnd_ = case["rounds"][-1]
    n += 1
    do_edits(w, rnd_["edits"])
    before = w.state()
    if not before["pending"]:
        return trivial()
    fault = case["fault"]
    kw = commit_kwargs(rnd_, n)
    kw["allow_pointless"] = True
    kw["strict"] = False
    # record run on a copy? no: record by counting during a dry classification:
    # the repository operations of this commit are recorded with the fault
    # index far away, on a throw-away copy of the whole scenario directory
    copy = w.dir + ".copy"
    shutil.copytree(w.dir, copy, symlinks=True)
    try:
        # the lightweight checkout refers to the branch by absolute URL, so the
        # recording run happens in the original and the faulty run in a restored
        # copy of it
        wt = w.wt()
        # (recorded under the same locking regime as the faulty run, so that
        # the operation numbers mean the same in both)
        if fault.get("outer_lock"):
            wt.lock_write()
        try:
            with ft.session(mode="record") as c:
                try:
                    wt.commit("c%d" % n, **kw)
                    recorded = True
                except refusals():
                    recorded = False
                except Exception as e:  # noqa: BLE001
                    if not type(e).__name__.startswith("InconsistentDelta"):
                        raise
                    recorded = False  # see check_commit: unexpressible selection
        finally:
            if fault.get("outer_lock"):
                wt.unlock()
        log = [x for x in c.log if "/repository/" in x[2] and
               "/repository/lock" not in x[2]]
    finally:
        shutil.rmtree(w.dir)
        os.rename(copy, w.dir)
    if not recorded or not log:
        return trivial()
    point = fault["point"]
    reads = {"n": 0}
    wt = w.wt()
    exc = None
    commit_point = None
    for i, x in enumerate(log):
        if x[2].endswith("/pack-names"):
            commit_point = x[0]
            break
    if point == "transport":
        target = log[fault["k"] % len(log)][0]
        sess = dict(mode="fault", fault_at=target,
                    fault_exc=derr.TransportError("injected"))
        strict_region = commit_point is None or target <= commit_point
    else:
        sess = dict(mode="record")
        strict_region = True
        if point == "message":
            def cb(commit_obj):
                raise Injected("message callback")
            kw["message_callback"] = cb
            kw.pop("message", None)
        elif point == "read":
            orig = wt.get_file_with_stat
            k = fault["k"]

            def failing(*a, **kws):
                reads["n"] += 1
                if reads["n"] > k % 4:
                    raise Injected("read of working file")
                return orig(*a, **kws)
            wt.get_file_with_stat = failing
        elif point == "changes":
            # the k-th change the tree reports is never delivered
            orig_ic = wt.iter_changes
            k = fault["k"]

            def failing_ic(*a, **kws):
                for i, chg in enumerate(orig_ic(*a, **kws)):
                    if i >= k % 3:
                        raise Injected("iter_changes")
                    yield chg
            wt.iter_changes = failing_ic
    # outer_lock: the caller holds its own write lock around the commit (as
    # every command does), so nothing is cleaned up by an unlock between the
    # failed commit and the next one
    outer = bool(fault.get("outer_lock"))
    followed_up = None
    if outer:
        wt.lock_write()
    try:
        with ft.session(**sess) as c:
            try:
                if "message_callback" in kw:
                    wt.commit(**kw)
                else:
                    wt.commit("c%d" % n, **kw)
            except (Injected, derr.TransportError, errors.BzrError) as e:
                exc = e
        fired = c.fired if point == "transport" else exc is not None
        if outer and fired and exc is not None and strict_region and \
                wt.branch.last_revision().decode() == before["tip"][1]:
            for attr in ("get_file_with_stat", "iter_changes"):
                wt.__dict__.pop(attr, None)
            try:
                followed_up = wt.commit(
                    "after", rev_id=b"after-fault", timestamp=bz.T0 + 99,
                    timezone=0, committer=bz.COMMITTER, allow_pointless=True)
            except errors.BzrError as e:
                check(False, "C01/commit-after-failed-commit-under-the-same-"
                      "lock-refused", [fault, repr(exc)[:200], repr(e)[:300]])
    finally:
        if outer:
            wt.unlock()
    after = w.state()
    ctx = {"fault": fault, "exc": repr(exc)[:200], "strict": strict_region}
    if followed_up is not None:
        # the failed commit left nothing, the second one is the only new thing
        check(after["tip"] == [before["tip"][0] + 1, "after-fault"],
              "C01/tip-wrong-after-failed-and-repeated-commit",
              [ctx, before["tip"], after["tip"]])
        sig = "C01/failed-commit-left-a-revision"
        if point == "transport" and commit_point is not None and \
                target == commit_point:
            # open finding, own class: the write of pack-names itself failed;
            # the pack is already in packs/ and in the collection's memory, and
            # the next commit under the same lock lists it
            sig = ("C01/failed-pack-names-write-publishes-the-revision-with-"
                   "the-next-commit-under-the-same-lock")
        check(after["revs"] == sorted(before["revs"] + ["after-fault"]),
              sig, [ctx, after["revs"]])
        check(isinstance(exc, (Injected, derr.TransportError)),
              "C01/failure-masked-by-another-error", [ctx, repr(exc)[:300]])
        new = snap_real(w.wt().branch.repository.revision_tree(followed_up))
        work = snap_model(w.model, w.missing)
        check(new == work, "C01/commit-after-failed-commit-differs-from-tree",
              [ctx, {f: (new.get(f), work.get(f))
                     for f in set(new) | set(work) if new.get(f) != work.get(f)}])
        return ok("fault:%s+same-lock" % point)
    if not fired or exc is None:
        # the injection point was not reached (e.g. no file needed reading)
        check(after["tip"][0] == before["tip"][0] + 1,
              "C01/commit-without-fault-did-not-advance", ctx)
        return trivial()
    if strict_region:
        check(after["tip"] == before["tip"], "C01/failed-commit-moved-the-tip",
              [ctx, before["tip"], after["tip"]])
        check(after["revs"] == before["revs"],
              "C01/failed-commit-left-a-revision", [ctx, after["revs"]])
        check(after["packs"]["pack-names"] == before["packs"]["pack-names"],
              "C01/failed-commit-changed-pack-names", ctx)
        # the write group was aborted: the error that reaches the caller is
        # the one that happened (not "must end write group before unlock").
        # (Files left in upload/ are not asserted: the property speaks about
        # visible revisions, and an abort after a transport error legitimately
        # cannot always clean up.)
        check(isinstance(exc, (Injected, derr.TransportError)),
              "C01/failure-masked-by-another-error", [ctx, repr(exc)[:300]])
        check(after["pending"] == before["pending"],
              "C01/failed-commit-changed-pending-changes",
              [ctx, before["pending"], after["pending"]])
    else:
        check(after["tip"] == before["tip"] or
              after["tip"][1] in after["revs"],
              "C01/tip-names-a-missing-revision-after-late-failure", ctx)
    # a following ordinary commit succeeds and records the working tree
    if after["tip"] == before["tip"]:
        rid = w.wt().commit("after", rev_id=b"after-fault", timestamp=bz.T0 + 99,
                            timezone=0, committer=bz.COMMITTER,
                            allow_pointless=True)
        new = snap_real(w.wt().branch.repository.revision_tree(rid))
        work = snap_model(w.model, w.missing)
        check(new == work, "C01/commit-after-failed-commit-differs-from-tree",
              [ctx, {f: (new.get(f), work.get(f))
                     for f in set(new) | set(work) if new.get(f) != work.get(f)}])
    texts_written = any("upload" in x[2] or "packs" in x[2] for x in c.log)
    return ok("fault:%s%s" % (point, "+after-text-insert" if texts_written or
                              point != "transport" else ""))


# ------------------------------------------------------------------ generator

def _draw_edit(draw, model, missing, ids, dirpaths):
    """One edit applicable to the model; mutates model/missing."""
    present = sorted(f for f in model if f != tm.ROOT_ID and f not in missing)
    kind = draw(st.sampled_from(
        ["tm", "tm", "tm", "tm", "tm", "rmdisk", "unversion"]))
    if kind == "rmdisk" and present:
        f = draw(st.sampled_from(present))
        missing.add(f)
        missing.update(tm.descendants(model, f))
        return ["rmdisk", f]
    if kind == "unversion" and present:
        f = draw(st.sampled_from(present))
        tm.apply_op(model, ["delete", f])
        return ["unversion", f]
    for _ in range(3):
        op = tm.draw_op(draw, model, ids, symlinks=True, execs=True,
                        odd_names=True)
        if op is None:
            continue
        touched = [x for x in (op[1], op[2] if op[0] in ("add", "rename")
                               else None) if x in model]
        if any(x in missing for x in touched):
            continue
        if op[0] == "delete" and any(d in missing
                                     for d in tm.descendants(model, op[1])):
            continue
        # never put a file or symlink where a directory has been (it may
        # still be a directory with children in the basis tree: the dirstate
        # comparison in bzrformats asserts on that shape - trusted base)
        if op[0] == "add" and op[4] != "directory":
            pp = tm.path_of(model, op[2])
            if ((pp + "/" + op[3]) if pp else op[3]) in dirpaths:
                continue
        if op[0] == "rename" and model[op[1]]["kind"] != "directory":
            pp = tm.path_of(model, op[2])
            if ((pp + "/" + op[3]) if pp else op[3]) in dirpaths:
                continue
        tm.apply_op(model, op)
        dirpaths.update(tm.path_of(model, f) for f in tm.dirs(model))
        return op
    return None


@st.composite
def cases(draw, rounds_max=3, fault=False):
    ids = tm.IdSource()
    model = tm.new_model()
    base = tm.draw_ops(draw, model, ids, n_min=2, n_max=8,
                       kinds=["add", "add", "add", "add_dir"], symlinks=True,
                       execs=True, odd_names=True)
    missing = set()
    basis = tm.clone(model)
    dirpaths = {tm.path_of(model, f) for f in tm.dirs(model)}
    rounds = []
    for _ in range(draw(st.integers(1, rounds_max))):
        edits = []
        for _ in range(draw(st.integers(1, 6))):
            e = _draw_edit(draw, model, missing, ids, dirpaths)
            if e is not None:
                edits.append(e)
        bsnap = snap_model(basis)
        wsnap = snap_model(model, missing)
        allpaths = sorted((set(paths_of(bsnap).values()) |
                           set(paths_of(wsnap).values())) - {""})
        # missing files still have a working path that can be named
        allpaths = sorted(set(allpaths) | {
            tm.path_of(model, f) for f in missing if f in model})
        mode = draw(st.sampled_from(["sel", "sel", "sel", "sel", "sel", "sel",
                                     "all", "all", "exclude", "exclude",
                                     "sel+exclude", "sel+exclude", "none"]))
        sel, exclude = None, None
        if allpaths and mode in ("sel", "sel+exclude"):
            sel = draw(st.lists(st.sampled_from(allpaths), min_size=1,
                                max_size=3, unique=True))
        if allpaths and mode in ("exclude", "sel+exclude"):
            exclude = draw(st.lists(st.sampled_from(allpaths), min_size=1,
                                    max_size=2, unique=True))
        if mode == "none":
            sel = []        # "an empty list means commit no files"
        rounds.append({"edits": edits, "sel": sel, "exclude": exclude,
                       "allow_pointless": draw(st.sampled_from(
                           [True, True, True, False])),
                       "strict": draw(st.sampled_from([False] * 5 + [True])),
                       "verbose": draw(st.sampled_from([False, False, True]))})
        # the generator cannot know what a partial commit leaves pending, so
        # later rounds are drawn against the working model only; the oracle
        # recomputes the basis from the real tree each round.
        if mode == "all":
            basis = tm.clone(model)
            for f in sorted(missing):
                if f in basis:
                    tm.apply_op(basis, ["delete", f])
    case = {"format": draw(st.sampled_from(["2a", "2a", "pack-0.92"])),
            "base": base, "rounds": rounds,
            "keep_tree": draw(st.sampled_from([False, True]))}
    if fault:
        case["fault"] = {"point": draw(st.sampled_from(
            ["transport", "transport", "transport", "message", "read",
             "changes"])),
            "k": draw(st.sampled_from(list(range(40)))),
            "outer_lock": draw(st.sampled_from([False, False, True]))}
        case["rounds"][-1]["sel"] = draw(st.sampled_from(
            [None, case["rounds"][-1]["sel"]]))
        case["rounds"][-1]["exclude"] = None
    return case


# ------------------------------------------------------------------ merge commits

def run_merge(case, env):
    """A commit that records a merge: the new revision must equal the working
    tree as it stands (merge result plus later edits), with both parents."""
    from breezy import errors
    w = build_world(case, env)
    other_path = w.dir + "/other"
    wt = w.wt()
    other = wt.branch.controldir.sprout(other_path).open_workingtree()
    # edits on the other branch (same ids), committed there
    om = tm.clone(w.model)
    with other.lock_write():
        for op in case["other_edits"]:
            bz.apply_ops_wt(other, om, [op])
        bz.age_files(other_path)
        other.commit("other", rev_id=b"other-1", timestamp=bz.T0 + 5,
                     timezone=0, committer=bz.COMMITTER, allow_pointless=True)
    # edits on this branch, committed
    do_edits(w, case["this_edits"])
    w.wt().commit("this", rev_id=b"this-1", timestamp=bz.T0 + 6, timezone=0,
                  committer=bz.COMMITTER, allow_pointless=True)
    wt = w.wt()
    try:
        wt.merge_from_branch(other.branch)
    except errors.BzrError as e:
        return rejected("merge-setup:" + type(e).__name__)
    if wt.conflicts():
        return rejected("merge-setup:conflicts")
    if len(wt.get_parent_ids()) < 2:
        return trivial()
    # further edits on top of the merge result (mode flips, rewrites, a file
    # put back to what this branch had, an entry unversioned or renamed) on
    # entries that exist now
    repo = w.wt().branch.repository
    this_tree = repo.revision_tree(b"this-1")
    this_snap = snap_real(this_tree)
    this_paths = paths_of(this_snap)
    done = []
    for i, (kind, pick) in enumerate(case["post"]):
        wt = w.wt()
        real = snap_real(wt)
        rp = paths_of(real)
        files = sorted(f for f, e in real.items() if e[2] == "file")
        links = sorted(f for f, e in real.items() if e[2] == "symlink")
        pool = links if kind == "retarget" else (
            files + links if kind in ("unversion", "rename") else files)
        if not pool:
            continue
        f = pool[pick % len(pool)]
        ap = os.path.join(w.path, rp[f])
        if kind == "chmod":
            os.chmod(ap, 0o644 if os.stat(ap).st_mode & 0o100 else 0o755)
        elif kind == "rewrite-same":
            with open(ap, "rb") as fh:
                data = fh.read()
            with open(ap, "wb") as fh:
                fh.write(data)
        elif kind == "revert":
            # content and mode of this branch's own last revision: the entry
            # no longer differs from the basis although a parent changed it
            if f not in this_snap or this_snap[f][2] != "file":
                continue
            with this_tree.lock_read():
                data = this_tree.get_file_text(this_paths[f])
            with open(ap, "wb") as fh:
                fh.write(data)
            os.chmod(ap, 0o755 if this_snap[f][4] else 0o644)
        elif kind == "unversion":
            # (for an entry the merge brought in: "the add was reverted")
            wt.unversion([rp[f]])
        elif kind == "rename":
            new_name = rp[f] + ".r%d" % i
            if os.path.lexists(os.path.join(w.path, new_name)):
                continue
            wt.rename_one(rp[f], new_name)
        elif kind == "retarget":
            os.unlink(ap)
            os.symlink("post-merge-%d" % i, ap)
        else:
            with open(ap, "ab") as fh:
                fh.write(b"post-merge %d\n" % i)
        done.append(kind)
    bz.age_files(w.path)
    want_parents = [w.wt().branch.last_revision(), b"other-1"]
    if case.get("ghost"):
        # a merged revision that is not in the repository
        w.wt().add_parent_tree_id(b"ghost-rev", allow_leftmost_as_ghost=False)
        want_parents.append(b"ghost-rev")
    work = snap_real(w.wt())
    # documented refusals of a merge commit: nothing may change
    probe = case.get("probe")
    if probe:
        from breezy.bzr import conflicts as _c
        from breezy.commit import CannotCommitSelectedFileMerge
        some = sorted(p for p in paths_of(work).values() if p)[:1] or ["x"]
        before = w.state()
        parents_before = w.wt().get_parent_ids()
        kw = {}
        if probe == "partial":
            kw["specific_files"] = some
        elif probe == "exclude":
            kw["exclude"] = some
        else:
            w.wt().set_conflicts([_c.TextConflict(some[0])])
            before = w.state()
        try:
            w.wt().commit("refused", rev_id=b"refused-1", timestamp=bz.T0 + 7,
                          timezone=0, committer=bz.COMMITTER, **kw)
            check(False, "C01/merge-commit-with-%s-accepted" % probe, [some])
        except (CannotCommitSelectedFileMerge, errors.ConflictsInTree) as e:
            check(isinstance(e, errors.ConflictsInTree) ==
                  (probe == "conflicts"),
                  "C01/merge-commit-refused-for-another-reason",
                  [probe, type(e).__name__])
        check(w.state() == before and
              w.wt().get_parent_ids() == parents_before,
              "C01/refused-merge-commit-changed-state",
              [probe, before, w.state()])
        if probe == "conflicts":
            w.wt().set_conflicts([])
    rid = w.wt().commit("merge", rev_id=b"merge-1", timestamp=bz.T0 + 7,
                        timezone=0, committer=bz.COMMITTER)
    repo = w.wt().branch.repository
    new = snap_real(repo.revision_tree(rid))
    check(new == work, "C01/merge-commit-differs-from-working-tree",
          [done, {f: [work.get(f), new.get(f)] for f in set(new) | set(work)
                  if new.get(f) != work.get(f)}])
    check(list(repo.get_revision(rid).parent_ids) == want_parents,
          "C01/merge-commit-parents-wrong",
          [repo.get_revision(rid).parent_ids, want_parents])
    check(not w.pending(), "C01/tree-reports-changes-after-merge-commit",
          w.pending())
    check(w.wt().get_parent_ids() == [rid],
          "C01/tree-parents-wrong-after-merge-commit", w.wt().get_parent_ids())
    extra = sorted(set(done) & {"revert", "unversion", "rename", "retarget"})
    return ok("merge-commit" + ("+post-merge-edits" if done else "") +
              "".join("+" + x for x in extra) +
              ("+ghost-parent" if case.get("ghost") else "") +
              ("+refusal-probe" if probe else ""))


@st.composite
def merge_cases(draw):
    ids = tm.IdSource()
    model = tm.new_model()
    base = tm.draw_ops(draw, model, ids, n_min=3, n_max=8,
                       kinds=["add", "add", "add", "add_dir"], symlinks=True,
                       execs=True, odd_names=False)
    om = tm.clone(model)
    oids = tm.IdSource(prefix="o")
    other_edits = tm.draw_ops(draw, om, oids, n_min=1, n_max=4, symlinks=True,
                              execs=True, odd_names=False,
                              kinds=["modify", "modify", "chmod", "chmod", "add",
                                     "add", "retarget", "rename"])
    tmodel = tm.clone(model)
    tids = tm.IdSource(prefix="t")
    # this side edits other files only (no conflicts): draw, then drop edits of
    # ids the other side touched
    touched = {op[1] for op in other_edits}
    this_edits = []
    dropped = set()
    for op in tm.draw_ops(draw, tmodel, tids, n_min=0, n_max=3, symlinks=False,
                          execs=True, odd_names=False,
                          kinds=["modify", "chmod", "add"]):
        clash = op[0] == "add" and (op[2] in dropped or any(
            o[0] == "add" and o[2] == op[2] and o[3] == op[3]
            for o in other_edits))
        if op[1] in touched or op[1] in dropped or clash:
            dropped.add(op[1])
            continue
        this_edits.append(op)
    post = draw(st.lists(st.tuples(
        st.sampled_from(["chmod", "chmod", "rewrite-same", "append", "revert",
                         "revert", "unversion", "rename", "retarget"]),
        st.sampled_from(list(range(6)))).map(list), max_size=3))
    return {"format": draw(st.sampled_from(["2a", "2a", "pack-0.92"])),
            "base": base, "other_edits": other_edits, "this_edits": this_edits,
            "post": post,
            "ghost": draw(st.sampled_from([False, False, False, True])),
            "probe": draw(st.sampled_from([None, None, None, "partial",
                                           "exclude", "conflicts"]))}


def kinds(tier):
    return [
        Kind("commit", run, strategy=cases(3 if tier == "quick" else 4),
             examples={"quick": 520, "thorough": 12000}),
        Kind("merge-commit", run_merge, strategy=merge_cases(),
             examples={"quick": 240, "thorough": 5000}),
        Kind("fault", run_fault, strategy=cases(2, fault=True),
             examples={"quick": 240, "thorough": 5000}),
    ]
