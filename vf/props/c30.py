"""C30 - a smart server (or client) never waits for bytes beyond the current
message: while a well-formed message is being read, next_read_size() never
exceeds what is left of it, reading stops exactly at its end, and completion is
reported exactly there - at the decoders, at SmartServerPipeStreamMedium and at
the client response readers, under arbitrary short reads."""

from hypothesis import strategies as st

from vf.api import Kind, b2s, check, ok, s2b, trivial, violation
from vf.lib import c29_wire as W

PROPERTY = "C30"
LEVEL = "exploration"
TECHNIQUE = ("invariant over the read loop: every requested read size is checked "
             "against the bytes left of the current message, on the bare "
             "decoders, on the real pipe server medium (with real and recording "
             "request verbs) and on the real client readers, fed from a pipe "
             "that holds exactly one message, delivers generated short reads and "
             "traps any read past the end")
RULE = ("messages: protocol 1/2/3 requests (recording verbs with arbitrary "
        "arguments / bodies / readv arrays / v3 streams incl. failing ones, and "
        "the real verbs hello, has, get, put, append, readv on a memory "
        "transport) and responses (success / failure x none / bytes / v2,v3 "
        "stream / stream ending in an error), optionally followed by a second "
        "message that must still be unread; partial-read pattern: a cycled list "
        "of caps (1..4 bytes, 1..41 bytes or unlimited) applied to every read. "
        "Non-trivial: the message has a body or stream and at least 3 reads were "
        "cut short. Distinct by case hash.")
ASSUMPTIONS = [
    "a read of n bytes on a pipe may block until n bytes arrived, so asking for "
    "more than the current message still has is the failure, whatever the pipe "
    "object of the harness returns",
    "messages are the well-formed ones of C29 (same argument alphabet rules); a "
    "version 1/2 request has a body iff its verb takes one",
    "the server's answers are read with the harness' reference parser "
    "(network-protocol.txt grammar) and compared with a 6-verb model of the "
    "memory transport",
]
LEVEL_TEXT = ("Sampled messages x short-read patterns; for each the complete read "
              "loop is observed (every size asked, every byte delivered). The "
              "message and pattern spaces are unbounded, hence exploration.")
LEVEL_NOTE = ("Trusts the harness pipe (delivers min(asked, left, cap) bytes and "
              "traps reads past the message) and the reference response parser.")
REGISTERED = True
NONTRIVIAL_FLOOR = {"quick": 600, "thorough": 15000}

FILE_F = bytes(range(256)) * 2 + b"tail\n"


def _bt():
    from dromedary.memory import MemoryTransport
    t = MemoryTransport("memory:///")
    t.put_bytes("f", FILE_F)
    return t


def _cap(pattern, i, n):
    if not pattern:
        return n
    return min(n, 1 + pattern[i % len(pattern)])


# ---------------------------------------------------------------- (a) decoders

def _drive(who, data, pattern, next_read_size, accept, finished, case,
           zero_when_done=True):
    """The read loop of a careful medium: ask, deliver at most that much."""
    pos = 0
    i = 0
    short = 0
    total = len(data)
    while pos < total:
        n = next_read_size()
        left = total - pos
        detail = {"case": case, "offset": pos, "asked": n, "left": left}
        check(n != 0, "C30/%s-reports-completion-before-message-end" % who,
              detail)
        check(n > 0, "C30/%s-negative-read-size" % who, detail)
        check(not finished(),
              "C30/%s-finished-flag-before-message-end" % who, detail)
        check(n <= left, "C30/%s-asks-for-more-than-message-has-left" % who,
              detail)
        k = _cap(pattern, i, n)
        i += 1
        if k < n:
            short += 1
        accept(data[pos:pos + k])
        pos += k
    check(finished(), "C30/%s-not-finished-at-message-end" % who,
          {"case": case, "next_read_size": next_read_size()})
    if zero_when_done:
        check(next_read_size() == 0,
              "C30/%s-asks-for-bytes-after-message-end" % who,
              {"case": case, "asked": next_read_size()})
    return short


def run_decoder(case, env):
    from breezy.bzr.smart import message, protocol, request
    W.install_verbs()
    msg = case["msg"]
    pattern = case["reads"]
    v = msg["v"]
    out = []
    if case["side"] == "request":
        enc = W.encode_request(msg)[0]
        del W.REC[:]
        if v in (1, 2):
            if v == 2:
                check(enc.startswith(W.V2_REQ),
                      "C30/request-without-version-marker", [msg])
                enc = enc[len(W.V2_REQ):]
            cls = (protocol.SmartServerRequestProtocolOne if v == 1
                   else protocol.SmartServerRequestProtocolTwo)
            p = cls(_bt(), out.append)
            who = "server-v%d" % v
            short = _drive(who, enc, pattern, p.next_read_size,
                           p.accept_bytes, lambda: p._finished, case)
            check(p.unused_data == b"" and p.in_buffer == b"",
                  "C30/%s-holds-bytes-after-exact-reads" % who, [case])
        else:
            marker = case.get("marker", False)
            if not marker:
                enc = enc[len(W.V3_MARKER):]
            rh = request.SmartServerRequestHandler(
                _bt(), request.request_handlers, "/")
            dec = protocol.ProtocolThreeDecoder(
                message.ConventionalRequestHandler(
                    rh, protocol.ProtocolThreeResponder(out.append)),
                expect_version_marker=marker)
            short = _drive(
                "server-v3", enc, pattern, dec.next_read_size,
                dec.accept_bytes,
                lambda: dec.state_accept == dec._state_accept_reading_unused,
                case)
            check(dec.unused_data == b"",
                  "C30/server-v3-holds-bytes-after-exact-reads", [case])
        check(b"".join(out) != b"", "C30/no-response-after-complete-request",
              [case])
        got = W.rec_summary(W.REC, False)
        want = W.rec_summary(W.expected_rec(msg), False)
        check(got == want, "C30/request-decoded-wrongly-under-short-reads",
              [case, repr(got)[:800], repr(want)[:800]])
    else:
        enc = W.encode_response(msg)
        shape = W.resp_shape(msg)
        if v == 3:
            h = message.ConventionalResponseHandler()
            dec = protocol.ProtocolThreeDecoder(h, expect_version_marker=True)
            stub = _Stub()
            h.setProtoAndMediumRequest(dec, stub)
            short = _drive(
                "client-v3", enc, pattern, dec.next_read_size,
                dec.accept_bytes,
                lambda: dec.state_accept == dec._state_accept_reading_unused,
                case)
            got = W.read_with_handler(h, shape, stub)
            check(W.same_response(got, W.expected_response(msg)),
                  "C30/response-decoded-wrongly-under-short-reads",
                  [case, repr(got)[:800]])
        else:
            spans, end, body_start = W.response_spans(msg, enc)
            if body_start is None or shape == "none" or not msg["ok"]:
                return trivial()
            data = enc[body_start:]
            if shape == "bytes":
                d = protocol.LengthPrefixedBodyDecoder()
                who = "length-prefixed-body-decoder"
            else:
                d = protocol.ChunkedBodyDecoder()
                who = "chunked-body-decoder"
            short = _drive(who, data, pattern, d.next_read_size,
                           d.accept_bytes, lambda: d.finished_reading, case,
                           zero_when_done=False)
            check(d.unused_data == b"",
                  "C30/%s-holds-bytes-after-exact-reads" % who, [case])
    return _label(case["side"] + "-decoder", msg, short)


class _Stub:
    def __init__(self):
        self._state = "reading"

    def read_bytes(self, n):
        return b""

    def finished_reading(self):
        self._state = "done"


def _label(where, msg, short):
    if msg.get("body") is None or short < 3:
        return trivial()
    body = msg["body"]
    k = body["t"]
    if k == "stream" and body.get("err") is not None:
        k = "stream-err"
    return ok("%s/v%d/%s" % (where, msg["v"], k))


# ------------------------------------------------------- (b) pipe server medium

REAL_VERBS = ("hello", "has", "get", "put", "append", "readv")


def _model(msg, files):
    """Expected answer of a real verb on the model of the backing transport
    -> dict(ok, args, body) ; updates files."""
    verb = msg["verb"]
    args = [s2b(a) for a in msg["args"]]
    body = W.req_body_bytes(msg)
    if verb == "hello":
        return {"ok": True, "args": (b"ok", b"2"), "body": None}
    path = args[0].decode("ascii")
    if "%2f" in path.lower():
        # refused by the path check (F27): some failure answer
        return {"ok": False, "args": None, "body": None}
    if verb == "has":
        return {"ok": True, "args": (b"yes",) if path in files else (b"no",),
                "body": None}
    if verb == "get":
        if path in files:
            return {"ok": True, "args": (b"ok",), "body": files[path]}
        return {"ok": False, "args": None, "body": None}
    if verb == "put":
        files[path] = body
        return {"ok": True, "args": (b"ok",), "body": None}
    if verb == "append":
        old = files.get(path, b"")
        files[path] = old + body
        return {"ok": True, "args": (b"appended", b"%d" % len(old)),
                "body": None}
    if verb == "readv":
        if path not in files:
            return {"ok": False, "args": None, "body": None}
        data = files[path]
        if any(s + n > len(data) for s, n in msg["body"]["o"]):
            # a range past the end of the (rewritten) file: a short-read
            # failure, or the available part - not this property's business
            return {"ok": None, "args": None, "body": None}
        return {"ok": True, "args": (b"readv",),
                "body": b"".join(data[s:s + n] for s, n in msg["body"]["o"])}
    raise ValueError(verb)


def _resp_shape_of(msg):
    if msg["verb"] in ("get", "readv", "body"):
        return "bytes"
    return "none"


def _parse_answer(msg, data, pos):
    """Reference parse of the server's answer to msg at data[pos:]."""
    v = msg["v"]
    if v == 3:
        r = W.parse_v3_response(data, pos)
        body = b"".join(r["chunks"]) if r["chunks"] else None
        return {"ok": r["ok"], "args": r["args"], "body": body,
                "end": r["end"]}
    shape = _resp_shape_of(msg)
    if v == 1:
        # no status flag: decide the way the v1 client does
        line = data[pos:data.index(b"\n", pos)]
        first = line.split(b"\x01")[0]
        failed = b2s(first) in W.V1_ERROR_CODES or first == b"error"
        r = W.parse_v12_response(data, pos, 1, "none" if failed else shape)
        r["ok"] = not failed
    else:
        r = W.parse_v12_response(data, pos, 2, shape)
    return {"ok": r["ok"], "args": r["args"], "body": r["body"],
            "end": r["end"]}


def _early_failure(msg):
    """v1/v2 request with a body whose verb fails before the body is read."""
    return (msg["v"] in (1, 2) and msg.get("body") is not None and
            msg["verb"] in ("put", "append", "readv") and
            "%2f" in msg["args"][0].lower())


def run_pipe_server(case, env):
    from breezy.bzr.smart import medium
    W.install_verbs()
    msgs = case["msgs"]
    encs = [W.encode_request(m)[0] for m in msgs]
    wire = b"".join(encs)
    pipe = W.PatternPipe(wire, case["reads"], limit=0)
    sink = W.Sink()
    bt = _bt()
    files = {"f": FILE_F}
    m = medium.SmartServerPipeStreamMedium(pipe, sink, bt, timeout=4.0)
    short = 0
    for i, msg in enumerate(msgs):
        start = pipe.pos
        pipe.limit = start + len(encs[i])
        pipe.short = 0
        n_out = len(sink.getvalue())
        del W.REC[:]
        who = "pipe-server-v%d" % msg["v"]
        try:
            proto = m._build_protocol()
            m._serve_one_request_unguarded(proto)
        except W.ReadPastEnd as e:
            return violation("C30/%s-reads-after-request-end" % who,
                             {"case": case, "message": i, "read": str(e)})
        check(pipe.overask is None,
              "C30/%s-asks-for-more-than-request-has-left" % who,
              {"case": case, "message": i, "offset_asked_left": pipe.overask})
        if pipe.pos != pipe.limit:
            sig = "C30/%s-completes-before-request-end" % who
            if _early_failure(msg):
                sig = "C30/v12-early-error-response-leaves-request-body-unread"
            return violation(sig, {"case": case, "message": i,
                                   "consumed": pipe.pos - start,
                                   "request_length": len(encs[i]),
                                   "answer": b2s(sink.getvalue()[n_out:][:200])})
        check(not m.finished and m._push_back_buffer is None,
              "C30/%s-medium-state-wrong-after-request" % who,
              [case, i, m.finished, repr(m._push_back_buffer)[:100]])
        answer = sink.getvalue()[n_out:]
        check(answer != b"", "C30/%s-no-response-written" % who, [case, i])
        try:
            got = _parse_answer(msg, answer, 0)
        except W.WireError as e:
            return violation("C30/%s-response-unparsable" % who,
                             {"case": case, "message": i, "error": str(e),
                              "answer": b2s(answer[:300])})
        check(got["end"] == len(answer), "C30/%s-response-has-extra-bytes" % who,
              [case, i, b2s(answer[:300])])
        if msg["verb"] in REAL_VERBS:
            want = _model(msg, files)
            good = want["ok"] is None or got["ok"] == want["ok"] and (
                want["args"] is None or (got["args"] == want["args"] and
                                         (got["body"] or b"") ==
                                         (want["body"] or b"")))
            check(good, "C30/%s-wrong-answer-under-short-reads" % who,
                  {"case": case, "message": i, "got": repr(got)[:600],
                   "want": repr(want)[:600]})
        elif msg["verb"] != "unknown":
            rec = W.rec_summary(W.REC, False)
            want = W.rec_summary(W.expected_rec(msg), False)
            check(rec == want,
                  "C30/%s-request-decoded-wrongly-under-short-reads" % who,
                  [case, i, repr(rec)[:800], repr(want)[:800]])
        if i == 0:
            short = pipe.short
    for name, content in sorted(files.items()):
        check(bt.has(name) and bt.get_bytes(name) == content,
              "C30/pipe-server-backing-file-content-wrong",
              [case, name])
    return _label("pipe-server", msgs[0], short)


# ------------------------------------------------------- (c) pipe client

def run_pipe_client(case, env):
    msgs = case["msgs"]
    encs = [W.encode_response(m) for m in msgs]
    wire = b"".join(encs)
    pipe = W.PatternPipe(wire, case["reads"], limit=0)
    med = W.pipe_client_medium(pipe)
    short = 0
    for i, msg in enumerate(msgs):
        start = pipe.pos
        pipe.limit = start + len(encs[i])
        pipe.short = 0
        who = "pipe-client-v%d" % msg["v"]
        try:
            got = W.client_read(msg["v"], med, W.resp_shape(msg))
        except W.ReadPastEnd as e:
            return violation("C30/%s-reads-after-response-end" % who,
                             {"case": case, "message": i, "read": str(e)})
        check(pipe.overask is None,
              "C30/%s-asks-for-more-than-response-has-left" % who,
              {"case": case, "message": i, "offset_asked_left": pipe.overask})
        check(pipe.pos == pipe.limit and med._push_back_buffer is None,
              "C30/%s-completes-before-response-end" % who,
              {"case": case, "message": i, "consumed": pipe.pos - start,
               "length": len(encs[i])})
        check(got["_state"] == "done",
              "C30/%s-request-not-finished-at-response-end" % who, [case, i])
        check(W.same_response(got, W.expected_response(msg)),
              "C30/%s-response-decoded-wrongly-under-short-reads" % who,
              [case, i, repr(got)[:800]])
        if i == 0:
            short = pipe.short
    return _label("pipe-client", msgs[0], short)


# ---------------------------------------------------------------- strategies

@st.composite
def real_request(draw, tier, early=False):
    v = draw(st.sampled_from([1, 2, 3]))
    verb = draw(st.sampled_from(REAL_VERBS))
    path = draw(st.sampled_from(["f", "f", "g", "h"]))
    msg = {"v": v, "verb": verb, "args": [], "body": None}
    if v == 3:
        msg["hdr"] = {"Software version": "vf 1.0"}
    if early:
        verb = msg["verb"] = draw(st.sampled_from(["put", "append", "readv"]))
        path = draw(st.sampled_from(["a%2Fb", "%2fetc", "x%2f..%2Fy"]))
    if verb == "hello":
        return msg
    msg["args"] = [path]
    if verb in ("put", "append"):
        msg["args"].append(draw(st.sampled_from(["", "0644", "0600"])))
        msg["body"] = {"t": "bytes", "d": draw(W.bytes_strategy(
            W.sizes(tier)["body"], W.sizes(tier)["big"]))}
    elif verb == "readv":
        if not early:
            msg["args"] = ["f"]
        offs = draw(st.lists(st.tuples(st.integers(0, 400),
                                       st.integers(0, 116)).map(list),
                             min_size=1, max_size=6))
        msg["body"] = {"t": "readv", "o": offs}
    return msg


@st.composite
def any_request(draw, tier):
    k = draw(st.sampled_from(["rec"] * 16 + ["real"] * 14 + ["unknown"] +
                             ["early"]))
    if k == "early":
        return draw(real_request(tier, early=True))
    if k == "real":
        return draw(real_request(tier))
    if k == "unknown":
        m = draw(W.request_msg(tier, allow_unknown=True))
        if m["v"] != 3:
            m["body"] = None
        return m
    return draw(W.request_msg(tier))


@st.composite
def gen_decoder_case(draw, tier):
    side = draw(st.sampled_from(["request", "response", "response"]))
    if side == "request":
        msg = draw(W.request_msg(tier))
    else:
        msg = _decodable(draw(W.response_msg(tier)))
    case = {"side": side, "msg": msg, "reads": draw(W.read_pattern())}
    if side == "request" and msg["v"] == 3:
        case["marker"] = draw(st.booleans())
    return case


@st.composite
def gen_server_case(draw, tier):
    msgs = [draw(any_request(tier))]
    if draw(st.integers(0, 2)) == 0:
        msgs.append(draw(any_request(tier)))
    return {"msgs": msgs, "reads": draw(W.read_pattern())}


def _decodable(m):
    """A v3 body stream that fails before its first chunk is not a message the
    client can read at all (C29 finding, nothing to do with read sizes): move
    the failure behind the first chunk."""
    body = m.get("body") or {}
    if m["v"] == 3 and (body.get("err") or {}).get("at") == 0:
        if not body["c"]:
            body["c"] = ["first"]
        body["err"]["at"] = 1
    return m


@st.composite
def gen_client_case(draw, tier):
    msgs = [_decodable(draw(W.response_msg(tier)))]
    if draw(st.integers(0, 2)) == 0:
        msgs.append(_decodable(draw(W.response_msg(tier))))
    return {"msgs": msgs, "reads": draw(W.read_pattern())}


def kinds(tier):
    return [
        Kind("decoders", run_decoder, strategy=gen_decoder_case(tier),
             examples={"quick": 2000, "thorough": 80000}),
        Kind("pipe-server", run_pipe_server, strategy=gen_server_case(tier),
             examples={"quick": 1800, "thorough": 70000}),
        Kind("pipe-client", run_pipe_client, strategy=gen_client_case(tier),
             examples={"quick": 1200, "thorough": 50000}),
    ]
