"""C29 - smart protocol messages survive the wire unchanged: every request /
response of protocol versions 1, 2 and 3 encoded by the real encoder is decoded
by the real decoder of the other side into the same arguments, body, stream
chunks and error, whatever the split of the bytes into reads, and the bytes
after the message are kept for (and decode as) the next message."""

import os
import subprocess
import sys

from hypothesis import strategies as st

from vf.api import Kind, b2s, check, ok, rejected, s2b, trivial, violation
from vf.lib import c29_wire as W

W.HUGE_BODIES = True     # bodies around the encoder's 1 MiB write buffer

PROPERTY = "C29"
LEVEL = "exploration"
TECHNIQUE = ("round trip real encoder -> real decoder over generated "
             "segmentations, metamorphic comparison with the unsegmented "
             "decode, exact unused-data accounting, second message decoded "
             "from the left-over bytes; coverage-guided fuzzing (atheris) of "
             "the same oracle in the thorough tier")
RULE = ("requests: protocol 1/2/3 x (recording verb, 0-5 argument strings incl. "
        "empty, long and framing look-alikes; v3 also ints/nested lists and a "
        "headers dict) x body in {none, bytes, readv offsets, v3 stream of 0-6 "
        "chunks, v3 stream failing after j chunks}, decoded by "
        "SmartServerRequestProtocolOne/Two / ProtocolThreeDecoder + "
        "ConventionalRequestHandler fed directly or through a socket-style server "
        "medium (_build_protocol, push-back); responses: success/failure x body in "
        "{none, bytes, v2/v3 stream, stream ending in an error (failure chunk or "
        "a raised registered error)} decoded by the client classes over a pipe "
        "medium with short reads, a socket-style medium, or the body decoders / "
        "ProtocolThreeDecoder fed directly. Followed by 0-40 junk bytes or a "
        "second complete message. Segmentation: every k-th byte, absolute cut "
        "points and cut points placed inside framing regions located by a "
        "reference parser. Non-trivial: the message has a body or stream and at "
        "least one cut lies inside a length prefix / chunk header / status part "
        "/ trailer or right before the terminator. Distinct by case hash.")
ASSUMPTIONS = [
    "argument strings of protocol 1/2 contain neither 0x01 nor newline (the "
    "tuple encoding of those versions cannot carry them by definition)",
    "a version 1 response is a failure iff its first argument is one of the "
    "error names the version 1 client lists (that version has no status flag)",
    "version 1/2 failure responses carry no body (those clients stop reading at "
    "the failure status) and version 1/2 requests with a body use a verb the "
    "server knows to take one",
    "the recording verbs are added to the request registry through its public "
    "register() call; the reference parser (network-protocol.txt grammar) is "
    "only used to place and classify cut points",
]
LEVEL_TEXT = ("Sampled round trips: each case is one or two messages and one "
              "segmentation; the decoded value is compared with the sent one and "
              "with the unsegmented decode, and the left-over bytes are checked "
              "exactly. The space (message shapes x byte contents x cut sets) is "
              "unbounded, hence exploration.")
LEVEL_NOTE = ("Trusts the harness pipes/media that hand out the segments and the "
              "40-line table of error tuples expected for raised stream errors.")
REGISTERED = True
NONTRIVIAL_FLOOR = {"quick": 800, "thorough": 20000}


def _bt():
    from dromedary.memory import MemoryTransport
    return MemoryTransport("memory:///")


# ---------------------------------------------------------------- requests

def _req_marker(version):
    return {1: b"", 2: W.V2_REQ, 3: W.V3_MARKER}[version]


class _ServerRun:
    """Result of feeding bytes to a server side decoder."""

    def __init__(self):
        self.rec = []
        self.out = b""
        self.events = []
        self.unused = b""
        self.finished = None


def _feed_direct(msg, segs, strip_marker):
    """Real server-side decoder of msg's version fed with segs."""
    from breezy.bzr.smart import message, protocol, request
    res = _ServerRun()
    out = []
    del W.REC[:]
    v = msg["v"]
    if v in (1, 2):
        cls = (protocol.SmartServerRequestProtocolOne if v == 1
               else protocol.SmartServerRequestProtocolTwo)
        p = cls(_bt(), out.append)
        for s in segs:
            p.accept_bytes(s)
        res.unused = p.unused_data
        res.finished = p.next_read_size() == 0
        res.in_buffer = p.in_buffer
    else:
        events = res.events

        class RecHandler(request.SmartServerRequestHandler):
            def post_body_error_received(self, error_args):
                W.REC.append(("error", tuple(error_args)))
                return request.SmartServerRequestHandler \
                    .post_body_error_received(self, error_args)

        class RecConv(message.ConventionalRequestHandler):
            def headers_received(self, headers):
                events.append(("H", headers))
                return message.ConventionalRequestHandler.headers_received(
                    self, headers)

            def byte_part_received(self, byte):
                events.append(("o", byte))
                return message.ConventionalRequestHandler.byte_part_received(
                    self, byte)

            def bytes_part_received(self, b):
                events.append(("b", b))
                return message.ConventionalRequestHandler.bytes_part_received(
                    self, b)

            def structure_part_received(self, s):
                events.append(("s", s))
                return message.ConventionalRequestHandler \
                    .structure_part_received(self, s)

            def end_received(self):
                events.append(("e",))
                return message.ConventionalRequestHandler.end_received(self)

        rh = RecHandler(_bt(), request.request_handlers, "/")
        responder = protocol.ProtocolThreeResponder(out.append)
        dec = protocol.ProtocolThreeDecoder(
            RecConv(rh, responder), expect_version_marker=not strip_marker)
        for s in segs:
            dec.accept_bytes(s)
        res.unused = dec.unused_data
        res.finished = dec.next_read_size() == 0
    res.rec = list(W.REC)
    res.out = b"".join(out)
    return res


def _check_request_decoded(msg, run, tag, errors_visible=True):
    """run.rec / run.events against what the case says was sent."""
    exact = msg["v"] == 3
    got = W.rec_summary(run.rec, exact)
    if msg["verb"] == "unknown":
        check(got == [], "C29/unknown-verb-reached-a-handler", [msg, got])
        return
    want = W.expected_rec(msg)
    body = msg.get("body")
    if body is not None and body["t"] == "stream" and \
            body.get("err") is not None and errors_visible:
        # (the stock request handler ignores the post-body error, so it is
        # only observable where the harness supplies the handler)
        want = want[:-1] + [("error", (b"error",)), ("end",)]
    want = W.rec_summary(want, exact)
    if got != want:
        ga = [e for e in got if e[0] == "args"]
        wa = [e for e in want if e[0] == "args"]
        if ga != wa:
            what = "arguments"
        elif [e for e in got if e[0] == "error"] != \
                [e for e in want if e[0] == "error"]:
            what = "stream-error"
        else:
            what = "body"
        raise_sig = "C29/request-v%d-%s-%s-differ" % (msg["v"], tag, what)
        check(False, raise_sig, {"msg": msg, "got": repr(got)[:1500],
                                 "want": repr(want)[:1500]})
    if body is not None and body["t"] == "readv":
        from breezy.bzr.smart import vfs
        raw = b"".join(e[1] for e in run.rec if e[0] == "chunk")
        offs = vfs.ReadvRequest(_bt())._deserialise_offsets(raw)
        check(offs == [tuple(o) for o in body["o"]],
              "C29/request-readv-offsets-differ", [msg, offs])
    if msg["v"] == 3 and run.events:
        hdr = {s2b(k): s2b(v) for k, v in msg.get("hdr", {}).items()}
        check(run.events[0] == ("H", hdr), "C29/request-v3-headers-differ",
              [msg, repr(run.events[0])[:600]])


def _strip(msg, data, strip_marker):
    m = _req_marker(msg["v"])
    if msg["v"] == 1 or not strip_marker:
        return data, 0
    check(data.startswith(m), "C29/request-without-version-marker",
          [msg, b2s(data[:40])])
    return data[len(m):], len(m)


def _req_label(msg, mode, n_struct):
    if msg.get("body") is None or not n_struct:
        return None
    body = msg["body"]
    k = body["t"]
    if k == "stream" and body.get("err") is not None:
        k = "stream-err"
    return "req/v%d/%s/%s" % (msg["v"], k, mode)


def run_request(case, env):
    W.install_verbs()
    msgs = case["msgs"]
    m1 = msgs[0]
    encs = [W.encode_request(m)[0] for m in msgs]
    tail = encs[1] if len(msgs) > 1 else s2b(case.get("junk", ""))
    wire = encs[0] + tail
    spans, end = W.request_spans(m1, encs[0])
    if len(msgs) > 1 and spans is not None:
        sp2, _ = W.request_spans(msgs[1], encs[1])
        if sp2:
            spans = spans + [(a + len(encs[0]), b + len(encs[0]))
                             for a, b in sp2]
    mode = case["mode"]
    if mode == "direct":
        # the medium consumes the version line of v2/v3 requests before it
        # builds the protocol object; do the same here (v3: optionally let a
        # marker-expecting decoder see it)
        strip = True if m1["v"] == 2 else not case.get("marker", False)
        data, off = _strip(m1, wire, strip)
        sp = [(a - off, b - off) for a, b in (spans or []) if a - off >= 0]
        cuts = W.resolve_cuts(len(data), sp, case["cuts"])
        base = _feed_direct(m1, [_strip(m1, encs[0], strip)[0]], strip)
        run = _feed_direct(m1, W.segments(data, cuts), strip)
        check(base.finished, "C29/request-decoder-not-finished-at-message-end",
              [m1])
        _check_request_decoded(m1, base, "unsegmented")
        _check_request_decoded(m1, run, "segmented")
        check(run.out == base.out, "C29/response-depends-on-segmentation",
              [case, b2s(run.out[:300]), b2s(base.out[:300])])
        check(run.events == base.events,
              "C29/request-v3-parts-depend-on-segmentation",
              [case, repr(run.events)[:800], repr(base.events)[:800]])
        if run.unused != tail:
            sig = "C29/request-v%d-unused-data-wrong" % m1["v"]
            if m1["verb"] == "unknown" and m1["v"] != 3:
                sig = "C29/v12-unknown-verb-drops-bytes-read-with-request-line"
            check(False, sig, {"case": case, "unused": b2s(run.unused[:200]),
                               "tail": b2s(tail[:200]), "cuts": cuts[:50]})
        if len(msgs) > 1:
            m2 = msgs[1]
            strip2 = True
            d2, _ = _strip(m2, run.unused, strip2)
            second = _feed_direct(m2, [d2], strip2)
            check(second.finished,
                  "C29/second-request-not-decoded-from-unused-data", [case])
            _check_request_decoded(m2, second, "second")
            check(second.unused == b"", "C29/second-request-unused-data-wrong",
                  [case, b2s(second.unused[:200])])
    else:
        sp = spans or []
        cuts = W.resolve_cuts(len(wire), sp, case["cuts"])
        base = _serve_medium([encs[0]], [m1], b"")
        runs = _serve_medium(W.segments(wire, cuts), msgs, tail
                             if len(msgs) == 1 else None, encs)
        _check_request_decoded(m1, base[0], "unsegmented", False)
        for m, r in zip(msgs, runs):
            _check_request_decoded(m, r, "medium", False)
        check(runs[0].out == base[0].out,
              "C29/response-depends-on-segmentation",
              [case, b2s(runs[0].out[:300]), b2s(base[0].out[:300])])
    n_struct = W.structural_cuts(cuts, sp)
    label = _req_label(m1, mode, n_struct)
    if m1["verb"] == "unknown":
        label = "req/v%d/unknown-verb/%s" % (m1["v"], mode) if tail else None
    return ok(label) if label else trivial()


def _serve_medium(segs, msgs, junk, encs=None):
    """SmartServerSocketStreamMedium over the segments: one _build_protocol +
    _serve_one_request_unguarded per message (what serve() does); after each
    request the bytes not yet handed to a protocol object must be exactly
    what follows it on the wire."""
    m = W.socketlike_server_medium(segs, _bt())
    runs = []
    for i, msg in enumerate(msgs):
        del W.REC[:]
        del m.out[:]
        proto = m._build_protocol()
        m._serve_one_request_unguarded(proto)
        r = _ServerRun()
        r.rec = list(W.REC)
        r.out = b"".join(m.out)
        check(not m.finished,
              "C29/server-medium-ran-out-of-bytes-inside-a-complete-request",
              [msgs, i])
        left = (m._push_back_buffer or b"") + b"".join(m.segs)
        if encs is not None and i + 1 < len(msgs):
            want_left = b"".join(encs[i + 1:])
        elif i == len(msgs) - 1:
            want_left = junk or b""
        else:
            want_left = None
        if want_left is not None and left != want_left:
            sig = "C29/server-medium-v%d-left-over-bytes-wrong" % msg["v"]
            if msg["verb"] == "unknown" and msg["v"] != 3:
                sig = "C29/v12-unknown-verb-drops-bytes-read-with-request-line"
            check(False, sig, {"msgs": msgs, "after": i,
                               "left": b2s(left[:200]),
                               "want": b2s(want_left[:200])})
        runs.append(r)
    return runs


# ---------------------------------------------------------------- responses

class _StubRequest:
    """Medium request of a decoder that is fed directly: nothing to read."""

    def __init__(self):
        self.finished = 0
        self._state = "reading"

    def read_bytes(self, n):
        return b""

    def finished_reading(self):
        self.finished += 1
        self._state = "done"


def _v3_direct(segs, shape):
    from breezy.bzr.smart import message, protocol
    h = message.ConventionalResponseHandler()
    dec = protocol.ProtocolThreeDecoder(h, expect_version_marker=True)
    req = _StubRequest()
    h.setProtoAndMediumRequest(dec, req)
    for s in segs:
        dec.accept_bytes(s)
    got = W.read_with_handler(h, shape, req)
    return got, dec.unused_data


def _body_direct(segs, shape):
    """LengthPrefixedBodyDecoder / ChunkedBodyDecoder fed directly."""
    from breezy.bzr.smart import protocol, request
    got = {}
    if shape == "bytes":
        d = protocol.LengthPrefixedBodyDecoder()
        for s in segs:
            d.accept_bytes(s)
        got["body"] = d.read_pending_data()
    else:
        d = protocol.ChunkedBodyDecoder()
        chunks = []
        for s in segs:
            d.accept_bytes(s)
            for c in iter(d.read_next_chunk, None):
                if isinstance(c, request.FailedSmartServerResponse):
                    got["stream_err"] = tuple(c.args)
                else:
                    chunks.append(c)
        got["chunks"] = chunks
    return got, d.unused_data, d.finished_reading


def _resp_label(msg, mode, n_struct):
    if msg.get("body") is None or not n_struct:
        return None
    body = msg["body"]
    k = body["t"]
    if k == "stream" and body.get("err") is not None:
        k = "stream-" + body["err"]["how"]
    return "resp/v%d/%s/%s" % (msg["v"], k, mode)


def _cmp_response(got, want, msg, tag, extra=None):
    if W.same_response(got, want):
        return
    g = {k: v for k, v in got.items() if not k.startswith("_")}
    if g.get("status") != want.get("status"):
        what = "status"
    elif g.get("args") != want.get("args"):
        what = "arguments"
    elif g.get("stream_err") != want.get("stream_err"):
        what = "stream-error"
    else:
        what = "body"
    check(False, "C29/response-v%d-%s-%s-differ" % (msg["v"], tag, what),
          {"msg": msg, "got": repr(g)[:1500], "want": repr(want)[:1500],
           "extra": extra})


def run_response(case, env):
    from breezy.bzr.smart import protocol
    try:
        return _run_response(case, env)
    except protocol.SmartMessageHandlerError as e:
        # one class is named: a v3 body stream that fails before its first
        # chunk puts the error status right after the response status
        early = [m for m in case["msgs"] if m["v"] == 3 and
                 (m.get("body") or {}).get("err") and
                 m["body"]["err"]["at"] == 0]
        if early and "Unexpected byte part received" in str(e):
            return violation(
                "C29/v3-response-stream-error-before-first-chunk-rejected-by-"
                "client", {"msg": early[0], "error": str(e)[-400:]})
        raise


def _run_response(case, env):
    msgs = case["msgs"]
    m1 = msgs[0]
    encs = [W.encode_response(m) for m in msgs]
    wants = [W.expected_response(m) for m in msgs]
    shapes = [W.resp_shape(m) for m in msgs]
    mode = case["mode"]
    spans, end, body_start = W.response_spans(m1, encs[0])
    if mode == "direct" and m1["v"] != 3 and (
            body_start is None or shapes[0] == "none" or not m1["ok"]):
        mode = "pipe"
    if mode == "socket":
        tail = encs[1] if len(msgs) > 1 else b""
    else:
        tail = encs[1] if len(msgs) > 1 else s2b(case.get("junk", ""))
    wire = encs[0] + tail
    sp = list(spans or [])
    if len(msgs) > 1 and spans is not None:
        sp2 = W.response_spans(msgs[1], encs[1])[0]
        if sp2:
            sp += [(a + len(encs[0]), b + len(encs[0])) for a, b in sp2]

    if mode == "pipe":
        cuts = W.resolve_cuts(len(wire), sp, case["cuts"])
        base = W.client_read(m1["v"], W.pipe_client_medium(
            W.SegPipe(encs[0], [])), shapes[0])
        _cmp_response(base, wants[0], m1, "unsegmented")
        pipe = W.SegPipe(wire, cuts)
        med = W.pipe_client_medium(pipe)
        got = W.client_read(m1["v"], med, shapes[0])
        _cmp_response(got, wants[0], m1, "segmented", cuts[:40])
        check(got["_state"] == "done",
              "C29/client-request-not-finished-after-response", [case])
        left = (med._push_back_buffer or b"") + pipe.rest()
        check(left == tail, "C29/response-v%d-left-over-bytes-wrong" % m1["v"],
              {"case": case, "left": b2s(left[:200]), "tail": b2s(tail[:200])})
        if len(msgs) > 1:
            got2 = W.client_read(msgs[1]["v"], med, shapes[1])
            _cmp_response(got2, wants[1], msgs[1], "second")
            left = (med._push_back_buffer or b"") + pipe.rest()
            check(left == b"", "C29/bytes-left-after-second-response",
                  [case, b2s(left[:200])])
    elif mode == "socket":
        cuts = W.resolve_cuts(len(wire), sp, case["cuts"],
                              must=[len(encs[0])])
        base = W.client_read(m1["v"], W.socketlike_client_medium([encs[0]]),
                             shapes[0])
        _cmp_response(base, wants[0], m1, "unsegmented")
        segs = W.segments(wire, cuts)
        n2 = len(W.segments(tail, [c - len(encs[0]) for c in cuts
                                   if c > len(encs[0])])) if tail else 0
        med = W.socketlike_client_medium(segs)
        got = W.client_read(m1["v"], med, shapes[0])
        _cmp_response(got, wants[0], m1, "socket", cuts[:40])
        check(got["_state"] == "done",
              "C29/client-request-not-finished-after-response", [case])
        check(med._push_back_buffer is None and len(med.segs) == n2,
              "C29/socket-client-consumed-wrong-amount",
              [case, len(med.segs), n2, repr(med._push_back_buffer)[:200]])
        if len(msgs) > 1:
            got2 = W.client_read(msgs[1]["v"], med, shapes[1])
            _cmp_response(got2, wants[1], msgs[1], "second")
            check(med._push_back_buffer is None and not med.segs,
                  "C29/bytes-left-after-second-response", [case])
    elif m1["v"] == 3:
        cuts = W.resolve_cuts(len(wire), sp, case["cuts"])
        base, bun = _v3_direct([encs[0]], shapes[0])
        _cmp_response(base, wants[0], m1, "unsegmented")
        got, unused = _v3_direct(W.segments(wire, cuts), shapes[0])
        _cmp_response(got, wants[0], m1, "segmented", cuts[:40])
        check(unused == tail, "C29/response-v3-unused-data-wrong",
              {"case": case, "unused": b2s(unused[:200]),
               "tail": b2s(tail[:200]), "cuts": cuts[:40]})
        if len(msgs) > 1 and msgs[1]["v"] == 3:
            got2, un2 = _v3_direct([unused], shapes[1])
            _cmp_response(got2, wants[1], msgs[1], "second")
            check(un2 == b"", "C29/bytes-left-after-second-response", [case])
    else:
        data = wire[body_start:]
        sp = [(a - body_start, b - body_start) for a, b in sp
              if a - body_start >= 0]
        cuts = W.resolve_cuts(len(data), sp, case["cuts"])
        want = {k: v for k, v in wants[0].items()
                if k in ("body", "chunks", "stream_err")}
        b0, u0, f0 = _body_direct([encs[0][body_start:]], shapes[0])
        check(f0, "C29/body-decoder-not-finished-at-body-end", [m1])
        _cmp_response(b0, want, m1, "body-decoder-unsegmented")
        b1, u1, f1 = _body_direct(W.segments(data, cuts), shapes[0])
        check(f1, "C29/body-decoder-not-finished-at-body-end", [case])
        _cmp_response(b1, want, m1, "body-decoder", cuts[:40])
        check(u1 == tail, "C29/body-decoder-v%d-%s-unused-data-wrong" % (
            m1["v"], shapes[0]),
            {"case": case, "unused": b2s(u1[:200]), "tail": b2s(tail[:200]),
             "cuts": cuts[:40]})
    n_struct = W.structural_cuts(cuts, sp)
    label = _resp_label(m1, mode, n_struct)
    return ok(label) if label else trivial()


# ------------------------------------------------- v1/v2: no request streams

def enum_refused(tier):
    for v in (1, 2):
        for chunks in ([], ["a"], ["a", "bc", ""]):
            yield {"v": v, "args": ["x", ""], "c": chunks}


def run_refused(case, env):
    """Protocol 1/2 cannot carry a request body stream: the requester must
    raise UnknownSmartMethod (documented) instead of writing something."""
    from breezy.bzr.smart import protocol
    from dromedary import errors as te
    mr = W.CollectRequest()
    cls = (protocol.SmartClientRequestProtocolOne if case["v"] == 1
           else protocol.SmartClientRequestProtocolTwo)
    try:
        cls(mr).call_with_body_stream(
            (W.VERB_BODY,) + tuple(s2b(a) for a in case["args"]),
            iter([s2b(c) for c in case["c"]]))
    except te.UnknownSmartMethod as e:
        check(e.verb == W.VERB_BODY, "C29/v12-stream-refusal-names-wrong-verb",
              [case, repr(e.verb)])
        check(b"".join(mr.buf) == b"",
              "C29/v12-stream-refusal-after-writing-bytes",
              [case, b2s(b"".join(mr.buf))])
        return rejected("v1/v2 request body stream", label=None)
    return violation("C29/v12-request-body-stream-not-refused", case)


# ---------------------------------------------------------------- strategies

@st.composite
def gen_request_case(draw, tier):
    mode = draw(st.sampled_from(["direct", "direct", "medium"]))
    unknown = draw(st.integers(0, 40)) == 0
    m1 = draw(W.request_msg(tier, allow_unknown=unknown))
    case = {"msgs": [m1], "mode": mode, "cuts": draw(W.cut_spec())}
    if m1["v"] == 3:
        case["marker"] = draw(st.booleans())
    t = draw(st.sampled_from(["none", "junk", "junk", "msg", "msg"]))
    if t == "msg":
        case["msgs"].append(draw(W.request_msg(tier)))
    elif t == "junk":
        case["junk"] = draw(W.bytes_strategy(40))
    return case


@st.composite
def gen_response_case(draw, tier):
    mode = draw(st.sampled_from(["direct", "pipe", "pipe", "socket"]))
    m1 = draw(W.response_msg(tier))
    case = {"msgs": [m1], "mode": mode, "cuts": draw(W.cut_spec())}
    t = draw(st.sampled_from(["none", "junk", "junk", "msg", "msg"]))
    if t == "msg":
        case["msgs"].append(draw(W.response_msg(tier)))
    elif t == "junk":
        case["junk"] = draw(W.bytes_strategy(40))
    return case


# ---------------------------------------------------------------- atheris

FUZZ_RUNS = 250000


def enum_fuzz(tier):
    if tier != "thorough":
        return
    for i in range(4):
        yield {"campaign": i}


def run_fuzz(case, env):
    """Coverage-guided campaign (atheris) over the same structured cases and
    the same oracle, in a child process (libFuzzer owns its process)."""
    deps = os.path.join(os.path.dirname(os.path.dirname(os.path.dirname(
        os.path.abspath(__file__)))), ".deps")
    if not os.path.isdir(os.path.join(deps, "atheris")):
        return rejected("atheris unavailable (campaign skipped)")
    d = env.newdir("fuzz")
    cmd = [sys.executable, "-m", "vf.lib.c29_fuzz", d,
           str(env.seed * 100 + case["campaign"]), str(FUZZ_RUNS)]
    root = os.path.dirname(os.path.dirname(os.path.dirname(
        os.path.abspath(__file__))))
    r = subprocess.run(cmd, cwd=root, stdout=subprocess.PIPE,
                       stderr=subprocess.STDOUT, text=True, timeout=280)
    out = r.stdout or ""
    res = os.path.join(d, "result.json")
    if os.path.exists(res):
        import json
        with open(res) as f:
            data = json.load(f)
        if data.get("skipped"):
            return rejected("atheris unavailable (campaign skipped)")
        if data.get("violation"):
            return violation(data["violation"]["signature"],
                             data["violation"])
        if data.get("harness"):
            raise RuntimeError("fuzz child: harness error: %s" % (
                str(data["harness"])[-1500:],))
        if "runs" not in data:
            raise RuntimeError("fuzz child: unreadable result %r" % (data,))
        return ok("atheris-campaign", n=max(1, data.get("runs", 1)),
                  nt=data.get("nontrivial", 0))
    raise RuntimeError("fuzz child gave no result (rc=%s): %s" % (
        r.returncode, out[-1500:]))


def kinds(tier):
    ks = [
        Kind("requests", run_request, strategy=gen_request_case(tier),
             examples={"quick": 3000, "thorough": 150000}),
        Kind("responses", run_response, strategy=gen_response_case(tier),
             examples={"quick": 3000, "thorough": 150000}),
        Kind("v12-stream-refused", run_refused, enumerate=enum_refused,
             exhaustive=False, hash_cases=False, max_shards=1),
    ]
    if tier == "thorough":
        ks.append(Kind("atheris", run_fuzz, enumerate=enum_fuzz,
                       hash_cases=False, max_shards=4))
    return ks
