"""C51 - rebase plans replay exactly the branch's own revisions onto the new
base, in an order in which every new parent already exists, and survive being
saved and loaded."""

import os

from hypothesis import strategies as st

from vf.api import Kind, check, ok, rejected, trivial, violation
from vf.lib import graphmodel as gm

PROPERTY = "C51"
LEVEL = "exploration"
TECHNIQUE = ("Hypothesis over revision DAGs with diverged (stop, onto) pairs; "
             "plan built with the calls cmd_rebase makes; key set, parent "
             "order and persistence compared with independent graph code")
RULE = ("generated: DAG of 3-16 revisions with merges (one root, sometimes "
        "two), (stop, onto) drawn from the diverged pairs of the graph (both "
        "sides own >= 1 revision; a small share of other pairs), x "
        "skip_full_merged x optional start revision; plan via graph."
        "find_difference + generate_simple_plan + rebase_todo; separately "
        "generate_transpose_plan for generated renames; every plan through "
        "marshall/unmarshall and a share through RebaseState1 on a real "
        "working tree. Non-trivial: the branch side (revisions of stop not in "
        "onto) contains a merge; distinct by case hash.")
ASSUMPTIONS = [
    "vcsgraph Graph (trusted base) answers heads / find_lca / "
    "find_difference / topo order",
    "revision ids contain no whitespace; histories have no ghosts",
    "the revision id generator handed to the planner returns a fresh id per "
    "old revision (as regenerate_default_revid does)",
]
NONTRIVIAL_FLOOR = {"quick": 300, "thorough": 5000}

NULL = b"null:"


def enc(s):
    return s.encode("ascii")


def _graphs(case):
    """(own graph {str: tuple}, vcsgraph Graph over bytes with null:)."""
    from vcsgraph.graph import DictParentsProvider, Graph
    g = {r: tuple(ps) for r, ps in case["graph"]}
    pm = {enc(r): (tuple(enc(p) for p in ps) if ps else (NULL,))
          for r, ps in g.items()}
    return g, pm, Graph(DictParentsProvider(pm))


class FakeRepo:
    def __init__(self, pm):
        self.present = set(pm)

    def has_revision(self, r):
        return r in self.present

    def get_parent_map(self, keys):
        raise AssertionError("not used")


def _check_marshal(case, info, plan):
    from breezy.plugins.rewrite import rebase as R
    text = R.marshall_rebase_plan(info, plan)
    check(isinstance(text, bytes), "C51/marshalled-plan-not-bytes", [case])
    back = R.unmarshall_rebase_plan(text)
    check(back[0] == info, "C51/plan-reload-last-revision-info-differs",
          [case, repr(back[0]), repr(info)])
    check(back[1] == plan, "C51/plan-reload-differs",
          [case, repr(back[1]), repr(plan)])
    check(list(back[1].items()) == list(plan.items()),
          "C51/plan-reload-order-differs", [case])
    for k, (n, ps) in back[1].items():
        check(isinstance(ps, tuple), "C51/plan-reload-parents-not-tuple",
              [case, repr(ps)])


def _check_state_file(case, env, plan):
    """RebaseState1.write_plan / read_plan on a real working tree."""
    from breezy import controldir
    from breezy.plugins.rewrite import rebase as R
    d = env.newdir("c51")
    fmt = controldir.format_registry.make_controldir("2a")
    wt = controldir.ControlDir.create_standalone_workingtree(d, format=fmt)
    with wt.lock_write():
        rev = wt.commit("base", rev_id=b"base-1", allow_pointless=True)
        state = R.RebaseState1(wt)
        check(not state.has_plan(), "C51/fresh-tree-has-a-plan", [case])
        state.write_plan(plan)
        check(state.has_plan() == bool(True),
              "C51/written-plan-not-reported", [case])
    from breezy import workingtree
    wt2 = workingtree.WorkingTree.open(d)
    with wt2.lock_write():
        state2 = R.RebaseState1(wt2)
        info, back = state2.read_plan()
        check(info == (1, rev), "C51/state-file-last-revision-info-differs",
              [case, repr(info)])
        check(back == plan and list(back.items()) == list(plan.items()),
              "C51/state-file-plan-differs", [case, repr(back), repr(plan)])
        state2.write_active_revid(b"some-rev")
        check(state2.read_active_revid() == b"some-rev",
              "C51/active-revid-differs", [case])
        state2.remove_plan()
        check(not state2.has_plan(), "C51/removed-plan-still-there", [case])


def run_simple(case, env):
    from breezy.errors import UnrelatedBranches
    from breezy.plugins.rewrite import rebase as R
    g, pm, graph = _graphs(case)
    stop, onto = case["stop"], case["onto"]
    anc_stop = gm.ancestry(g, stop)
    anc_onto = gm.ancestry(g, onto)
    ours = anc_stop - anc_onto
    theirs = anc_onto - anc_stop
    our_new, onto_unique = graph.find_difference(enc(stop), enc(onto))
    check(set(our_new) == {enc(r) for r in ours} and
          set(onto_unique) == {enc(r) for r in theirs},
          "C51/find_difference-differs-from-ancestry-difference",
          [case, sorted(our_new), sorted(ours)])
    if not ours or not theirs:
        # cmd_rebase pulls or reports "nothing to rebase" here
        return trivial()
    skip = case["skip"]
    start = case["start"]
    calls = []

    def gen(old, parents):
        calls.append(old)
        return b"new-" + old

    try:
        plan = R.generate_simple_plan(
            set(our_new), None if start is None else enc(start),
            None if case.get("stop_none") else enc(stop),
            enc(onto), graph, gen, skip)
    except UnrelatedBranches:
        check(not (anc_stop & anc_onto), "C51/related-branches-refused",
              [case])
        return rejected("UnrelatedBranches")
    if start is None:
        check(anc_stop & anc_onto, "C51/unrelated-branches-planned", [case])
    merges = {r for r in ours if len(g[r]) > 1}
    keys = {k.decode() for k in plan}
    oursb = {enc(r) for r in ours}
    check(keys <= ours, "C51/plan-rewrites-revisions-outside-the-branch",
          [case, sorted(keys - ours)])
    if start is None and not skip:
        check(keys == ours, "C51/plan-misses-branch-revisions",
              [case, sorted(ours - keys)])
    elif start is None:
        missing = ours - keys
        for r in sorted(missing):
            check(r in merges, "C51/skip-full-merged-drops-a-non-merge",
                  [case, r])
            # ... and only a merge that brings nothing but already merged
            # revisions to one line of the branch
            unmerged = [h for h in gm.heads(g, list(g[r]))
                        if h not in anc_onto]
            check(len(unmerged) <= 1,
                  "C51/skip-full-merged-drops-a-merge-of-unmerged-lines",
                  [case, r, unmerged])
    else:
        check(start in keys or start in merges and skip,
              "C51/plan-misses-start-revision", [case])
        check(stop in keys or stop in merges and skip,
              "C51/plan-misses-stop-revision", [case])
    # new ids: what the generator returned, one per key, fresh and distinct
    newids = [v[0] for v in plan.values()]
    check(len(set(newids)) == len(newids), "C51/new-revision-ids-not-distinct",
          [case])
    check(not (set(newids) & set(pm)), "C51/new-revision-id-not-fresh",
          [case])
    for old, (new, ps) in plan.items():
        check(new == b"new-" + old, "C51/plan-does-not-record-generated-id",
              [case, old, new])
        check(isinstance(ps, tuple) and len(ps) >= 1 and
              len(set(ps)) == len(ps),
              "C51/new-parents-malformed", [case, old, repr(ps)])
    # order: iterating rebase_todo, new parents are the new base (or its
    # ancestors) or revisions rewritten earlier
    repo = FakeRepo(pm)
    todo = list(R.rebase_todo(repo, plan))
    check(sorted(todo) == sorted(plan), "C51/rebase_todo-not-the-plan-keys",
          [case, repr(todo)])
    allowed = {enc(r) for r in anc_onto}
    not_rewritten = oursb - set(plan)
    done = set()
    for old in todo:
        new, ps = plan[old]
        for p in ps:
            if p in allowed or p in done:
                continue
            if p in not_rewritten and (skip or start is not None):
                # a branch revision the plan leaves alone stays a parent
                continue
            check(False, "C51/new-parent-neither-base-nor-rewritten-earlier",
                  [case, old.decode(), p.decode(),
                   [t.decode() for t in todo]])
        check(enc(onto) in ps or any(p in done for p in ps) or
              (skip or start is not None),
              "C51/rewritten-revision-not-attached-to-new-base",
              [case, old.decode(), repr(ps)])
        done.add(new)
    # the plan connects: every rewritten revision descends from onto
    if start is None and not skip:
        newg = {new: ps for (new, ps) in plan.values()}
        for new in newg:
            seen = set()
            stack = [new]
            hit = False
            while stack:
                x = stack.pop()
                if x == enc(onto):
                    hit = True
                    break
                if x in seen:
                    continue
                seen.add(x)
                stack.extend(newg.get(x, ()))
            check(hit, "C51/rewritten-revision-does-not-descend-from-onto",
                  [case, new.decode()])
    # progress: once the first k are rewritten only the rest is still to do
    k = case["progress"] % (len(todo) + 1)
    for old in todo[:k]:
        repo.present.add(plan[old][0])
    rest = list(R.rebase_todo(repo, plan))
    check(rest == todo[k:], "C51/rebase_todo-after-progress-differs",
          [case, k, repr(rest), repr(todo[k:])])
    # persistence
    info = (case["revno"], enc(stop))
    _check_marshal(case, info, plan)
    _check_marshal(case, info, {})
    # a plan is a plain mapping: any sub-plan survives as well
    sub = dict(list(plan.items())[:case["progress"] % (len(plan) + 1)])
    _check_marshal(case, (case["revno"] * 1000003, enc(onto)), sub)
    if case["statefile"]:
        _check_state_file(case, env, plan)
    if not merges:
        return trivial()
    lab = "merge-in-branch"
    if skip:
        lab += "+skip-full-merged"
        if ours - keys:
            lab += "(skipped)"
    if start is not None:
        lab += "+start"
    return ok(lab)


def run_transpose(case, env):
    from breezy.plugins.rewrite import rebase as R
    g, pm, graph = _graphs(case)
    renames = {enc(k): enc(v) for k, v in case["renames"].items()}
    # the replacement revisions exist with the parents of what they replace
    pm2 = dict(pm)
    for old, new in renames.items():
        pm2[new] = pm[old]
    from vcsgraph.graph import DictParentsProvider, Graph
    graph = Graph(DictParentsProvider(pm2))
    ancestry = [(enc(r), pm[enc(r)]) for r, ps in case["graph"]]

    def gen(old, parents):
        return b"new-" + old

    plan = R.generate_transpose_plan(ancestry, renames, graph, gen)
    ch = gm.children(g)
    want = set()
    stack = [k.decode() for k in renames]
    while stack:
        x = stack.pop()
        for c in ch.get(x, ()):
            if c not in want:
                want.add(c)
                stack.append(c)
    want -= {k.decode() for k in renames}
    keys = {k.decode() for k in plan}
    check(keys - want == set(),
          "C51/transpose-rewrites-revisions-not-descending-from-renames",
          [case, sorted(keys - want)])
    check(want - keys == set(), "C51/transpose-misses-descendants",
          [case, sorted(want - keys)])

    def image(p):
        if p in renames:
            return renames[p]
        if p in plan:
            return plan[p][0]
        return p
    for old, (new, ps) in plan.items():
        exp = tuple(image(p) for p in pm[old])
        check(new == b"new-" + old, "C51/transpose-new-id-differs",
              [case, old, new])
        check(ps == exp, "C51/transpose-new-parents-differ",
              [case, old.decode(), repr(ps), repr(exp)])
    _check_marshal(case, (case["revno"], enc(case["graph"][-1][0])), plan)
    merges = [r for r in want if len(g[r]) > 1]
    if not plan or not merges:
        return trivial()
    return ok("transpose:merge-among-descendants" +
              ("+several-renames" if len(renames) > 1 else ""))


# --------------------------------------------------------------- generation

@st.composite
def gen_dag(draw, n_min=3, n_max=16):
    n = draw(st.sampled_from(list(range(n_min, n_max + 1)) +
                             list(range(6, n_max + 1)) * 2))
    graph = []
    ids = []
    g = {}
    tips = []
    for i in range(n):
        r = "r%d" % i
        if i == 0:
            ps = []
        elif draw(st.sampled_from([False] * 79 + [True])):
            ps = []          # a second root
        else:
            # two or three lines of development: extend a tip or fork
            pool = tips if draw(st.booleans()) else ids[-6:]
            left = draw(st.sampled_from(pool))
            ps = [left]
            if len(ids) >= 2 and draw(st.booleans()):
                anc_left = gm.ancestry(g, left)
                others = [x for x in ids if x not in anc_left]
                if others:
                    k = draw(st.sampled_from([1, 1, 1, 2]))
                    extra = draw(st.lists(st.sampled_from(others),
                                          min_size=1, max_size=k,
                                          unique=True))
                    ps += extra
        g[r] = tuple(ps)
        ids.append(r)
        tips = [t for t in tips if t not in ps] + [r]
        graph.append([r, ps])
    return graph


@st.composite
def gen_simple(draw):
    graph = draw(gen_dag())
    g = {r: tuple(ps) for r, ps in graph}
    ids = [r for r, ps in graph]
    anc = {r: gm.ancestry(g, r) for r in ids}
    diverged = [(s, o) for s in ids for o in ids
                if s not in anc[o] and o not in anc[s]]
    withmerge = [(s, o) for (s, o) in diverged
                 if any(len(g[r]) > 1 for r in anc[s] - anc[o])]
    if withmerge and draw(st.sampled_from([True, True, True, False])):
        stop, onto = draw(st.sampled_from(withmerge))
    elif diverged and draw(st.sampled_from([True] * 9 + [False])):
        stop, onto = draw(st.sampled_from(diverged))
    else:
        stop = draw(st.sampled_from(ids))
        onto = draw(st.sampled_from(ids))
    start = None
    if draw(st.sampled_from([False] * 5 + [True])):
        ours = sorted(anc[stop] - anc[onto],
                      key=lambda r: int(r[1:]))
        if ours:
            start = draw(st.sampled_from(ours))
            if start not in anc[stop]:
                start = None
    return {"graph": graph, "stop": stop, "onto": onto, "start": start,
            "skip": draw(st.sampled_from([False, False, True])),
            "progress": draw(st.integers(0, 16)),
            "stop_none": draw(st.sampled_from([False, False, True])),
            "revno": draw(st.integers(0, 40)),
            "statefile": draw(st.sampled_from([False] * 7 + [True]))}


@st.composite
def gen_transpose(draw):
    graph = draw(gen_dag(n_min=3, n_max=14))
    ids = [r for r, ps in graph]
    k = draw(st.sampled_from([1, 1, 2]))
    olds = draw(st.lists(st.sampled_from(ids[:-1]), min_size=1, max_size=k,
                         unique=True))
    return {"graph": graph, "renames": {o: "svn-" + o for o in olds},
            "revno": draw(st.integers(0, 40))}


def kinds(tier):
    return [
        Kind("simple-plan", run_simple, strategy=gen_simple(),
             examples={"quick": 6000, "thorough": 120000}),
        Kind("transpose-plan", run_transpose, strategy=gen_transpose(),
             examples={"quick": 2000, "thorough": 40000}),
    ]


REGISTERED = True
LEVEL_TEXT = ("Plans are generated with the same calls the rebase command makes "
              "on thousands of generated DAGs with diverged (stop, onto) pairs "
              "and compared with ancestry differences, an order predicate and "
              "reload identity computed independently. Sampled graphs up to 16 "
              "revisions: exploration.")
LEVEL_NOTE = ("vcsgraph is trusted; no ghosts; with a start revision or "
              "skip_full_merged only the weaker documented predicates apply "
              "(subset of the branch's revisions; skipped ones are merges).")
