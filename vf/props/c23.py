"""C23 - checkouts and their master branches stay in step."""

import os

from hypothesis import strategies as st

from vf.api import Kind, check, ok, trivial
from vf.lib import bz

PROPERTY = "C23"
LEVEL = "exploration"
TECHNIQUE = ("Hypothesis-generated programs of commits / local commits / "
             "updates / pulls over one master and 1-3 bound checkouts on real "
             "2a branches, compared step by step with a small model of (master "
             "tip, local tips, pending merges); tip-change order observed "
             "through the public post_change_branch_tip hook")
RULE = ("program of 3-12 steps drawn from commit-in-checkout, commit-in-master "
        "(directly or through a lightweight checkout), local commit, update "
        "(also to an older revision), pull from the master, pull from an "
        "independent branch with a stop revision (through the tree or the "
        "branch alone, which leaves the tree behind), unbind/bind, over 1-3 "
        "heavyweight checkouts, optionally with a master that is itself bound; "
        "one case in six starts with unbind / branch-level pull / bind / update "
        "or commit (branch, tree and master all different). Revision numbers "
        "are compared with the left-hand history of the model graph. "
        "Non-trivial: the master moved between two "
        "operations of the same checkout (a refusal or a catching-up update "
        "happened), or a local commit was later merged back by update. Distinct "
        "by case hash.")
ASSUMPTIONS = [
    "each actor edits its own file so that update never produces content "
    "conflicts (conflict handling is C12/C17/C19 territory)",
]
LEVEL_TEXT = ("Sampled model-based exploration of operation sequences; after "
              "every step all branch tips, revision presence in both "
              "repositories, and for refusals the complete absence of change are "
              "compared with the model.")
LEVEL_NOTE = ("Local file transports, format 2a; programs bounded to 12 steps "
              "and 3 checkouts.")
REGISTERED = True
NONTRIVIAL_FLOOR = {"quick": 30, "thorough": 300}


class World:
    def __init__(self, d, n_co, double):
        from breezy import controldir
        self.d = d
        self.n = 0
        fmt = bz.fmt("2a")
        self.names = ["master"] + ["co%d" % i for i in range(n_co)]
        m = controldir.ControlDir.create_standalone_workingtree(
            d + "/master", format=fmt)
        self._write("master", "fm", "0\n")
        m.add(["fm"])
        m.commit("m0", rev_id=b"m0", timestamp=bz.T0, timezone=0,
                 committer=bz.COMMITTER)
        self.tips = {"master": "m0"}
        self.parents = {"m0": []}      # model graph of every revision made
        self.bound = {}
        for i in range(n_co):
            m.branch.create_checkout(d + "/co%d" % i, lightweight=False)
            self.tips["co%d" % i] = "m0"
            self.bound["co%d" % i] = True
        m.branch.create_checkout(d + "/light", lightweight=True)
        # an independent branch (not the master) with three revisions of its
        # own, for pulls with a stop revision
        o = m.branch.controldir.sprout(d + "/other").open_workingtree()
        prev = "m0"
        for i in (1, 2, 3):
            self._write("other", "fo", "o%d\n" % i)
            if i == 1:
                o.add(["fo"])
            o.commit("o%d" % i, rev_id=b"o%d" % i, timestamp=bz.T0, timezone=0,
                     committer=bz.COMMITTER)
            self.parents["o%d" % i] = [prev]
            prev = "o%d" % i
        self.double = double
        if double:
            g = m.branch.controldir.sprout(d + "/grand").open_branch()
            m.branch.bind(g)
        self.order = []
        self.repo_revs = None

    def _write(self, name, fn, data, mode="a"):
        with open(os.path.join(self.d, name, fn), mode) as f:
            f.write(data)
        bz.age_files(os.path.join(self.d, name))

    def wt(self, name):
        from breezy import workingtree
        return workingtree.WorkingTree.open(self.d + "/" + name)

    def branch(self, name):
        from breezy import branch as _branch
        return _branch.Branch.open(self.d + "/" + name)

    def observe(self):
        out = {}
        for n in self.names:
            b = self.branch(n)
            revno, tip = b.last_revision_info()
            with b.lock_read():
                revs = sorted(r.decode() for r in
                              b.repository.all_revision_ids())
            out[n] = {"tip": tip.decode(), "revno": revno, "revs": revs}
        return out

    def tree_state(self, name):
        wt = self.wt(name)
        with wt.lock_read():
            return {"parents": [p.decode() for p in wt.get_parent_ids()],
                    "changes": bz.iter_changes_canon(wt, wt.basis_tree())}

    def new_id(self):
        self.n += 1
        return "x%d" % self.n

    def anc(self, rev):
        from vf.lib import graphmodel as gm
        return gm.ancestry(self.parents, rev)

    def lefthand(self, rev):
        from vf.lib import graphmodel as gm
        return gm.lefthand(self.parents, rev)


def run(case, env):
    from breezy import errors
    from breezy.branch import Branch
    d = env.newdir()
    w = World(d, case["checkouts"], case["double"])
    events = []

    def hook(params):
        events.append((params.branch.base.rstrip("/").rsplit("/", 1)[-1],
                       params.new_revid.decode()))
    Branch.hooks.install_named_hook("post_change_branch_tip", hook, "vf-c23")
    labels = set()
    deferred = []
    try:
        for step in case["steps"]:
            op = step["op"]
            name = "co%d" % (step["co"] % case["checkouts"])
            before = w.observe()
            del events[:]
            rid = w.new_id()
            ctx = {"step": step, "tips": dict(w.tips), "rid": rid}
            if op in ("commit-master", "commit-light") and step.get("stop") == 2:
                # without updating first: a tree whose basis is behind its
                # branch (the branch was moved through a checkout or the other
                # tree) must refuse, and nothing changes
                where = "master" if op == "commit-master" else "light"
                basis = w.tree_state(where)["parents"][0]
                stale = basis != w.tips["master"]
                w._write(where, "fm", "s%s\n" % rid)
                ts_before = w.tree_state(where)
                try:
                    w.wt(where).commit("m", rev_id=bz.enc(rid),
                                       timestamp=bz.T0, timezone=0,
                                       committer=bz.COMMITTER)
                    check(not stale, "C23/commit-from-out-of-date-tree-accepted",
                          [ctx, basis])
                    w.parents[rid] = [w.tips["master"]]
                    w.tips["master"] = rid
                except errors.OutOfDateTree:
                    check(stale, "C23/up-to-date-tree-refused", [ctx, basis])
                    after = w.observe()
                    check(after == before,
                          "C23/refused-commit-changed-a-branch", ctx)
                    check(w.tree_state(where) == ts_before,
                          "C23/refused-commit-changed-the-tree", ctx)
                    labels.add("refused:OutOfDateTree")
                    w.wt(where).revert(backups=False)
            elif op in ("commit-master", "commit-light"):
                where = "master" if op == "commit-master" else "light"
                if op == "commit-master":
                    mw = w.wt("master")
                    mw.update()
                else:
                    w.wt("light").update()
                w._write(where, "fm", "m%s\n" % rid)
                # (a master that is itself bound is an ordinary bound branch for
                # commits made in it: grand first, then master)
                w.wt(where).commit("m", rev_id=bz.enc(rid), timestamp=bz.T0,
                                   timezone=0, committer=bz.COMMITTER)
                w.parents[rid] = [w.tips["master"]]
                w.tips["master"] = rid
                if w.double:
                    gt = w.branch("grand").last_revision().decode()
                    check(gt == rid, "C23/grand-master-not-in-step", [ctx, gt])
                    tips = [e for e in events if e[1] == rid]
                    check([e[0] for e in tips][:2] == ["grand", "master"],
                          "C23/master-not-updated-before-local", [ctx, tips])
            elif op == "commit-co":
                w._write(name, "f" + name, "c%s\n" % rid)
                tree_before = w.tree_state(name)
                in_sync = (not w.bound[name]) or \
                    w.tips[name] == w.tips["master"]
                # (a tree left behind its own branch by update -r or by a
                # branch-level pull is out of date whatever the master does)
                stale = tree_before["parents"][0] != w.tips[name]
                try:
                    w.wt(name).commit("c", rev_id=bz.enc(rid), timestamp=bz.T0,
                                      timezone=0, committer=bz.COMMITTER)
                    accepted = True
                except (errors.BoundBranchOutOfDate,
                        errors.CommitToDoubleBoundBranch,
                        errors.OutOfDateTree) as e:
                    accepted = False
                    refusal = type(e).__name__
                if w.bound[name] and w.double:
                    check(not accepted,
                          "C23/commit-to-double-bound-accepted", ctx)
                elif not in_sync:
                    check(not accepted,
                          "C23/commit-accepted-although-master-moved", ctx)
                elif stale:
                    check(not accepted,
                          "C23/commit-from-out-of-date-tree-accepted",
                          [ctx, tree_before["parents"]])
                else:
                    check(accepted, "C23/in-sync-commit-refused",
                          [ctx, None if accepted else refusal])
                if accepted:
                    w.parents[rid] = tree_before["parents"]
                    w.tips[name] = rid
                    if w.bound[name]:
                        w.tips["master"] = rid
                        tips = [e for e in events if e[1] == rid]
                        check([e[0] for e in tips][:2] == ["master", name],
                              "C23/master-not-updated-before-local", [ctx, tips])
                else:
                    labels.add("refused:" + refusal)
                    after = w.observe()
                    check(after == before, "C23/refused-commit-changed-a-branch",
                          [ctx, before, after])
                    check(w.tree_state(name) == tree_before,
                          "C23/refused-commit-changed-the-tree", ctx)
                    w.wt(name).revert(backups=False)
            elif op == "commit-local":
                w._write(name, "f" + name, "l%s\n" % rid)
                tree_before = w.tree_state(name)
                stale = tree_before["parents"][0] != w.tips[name]
                try:
                    w.wt(name).commit("l", rev_id=bz.enc(rid), local=True,
                                      timestamp=bz.T0, timezone=0,
                                      committer=bz.COMMITTER)
                    check(w.bound[name], "C23/local-commit-on-unbound-accepted",
                          ctx)
                    check(not stale,
                          "C23/commit-from-out-of-date-tree-accepted",
                          [ctx, tree_before["parents"], "local"])
                    w.parents[rid] = [w.tips[name]]
                    w.tips[name] = rid
                    labels.add("local-commit")
                except errors.LocalRequiresBoundBranch:
                    check(not w.bound[name], "C23/local-commit-refused", ctx)
                    w.wt(name).revert(backups=False)
                except errors.OutOfDateTree:
                    check(stale and w.bound[name],
                          "C23/up-to-date-tree-refused", [ctx, "local"])
                    after = w.observe()
                    check(after == before,
                          "C23/refused-commit-changed-a-branch", ctx)
                    check(w.tree_state(name) == tree_before,
                          "C23/refused-commit-changed-the-tree", ctx)
                    labels.add("refused:OutOfDateTree")
                    w.wt(name).revert(backups=False)
            elif op in ("update", "pull"):
                old_local = w.tips[name]
                mtip = w.tips["master"]
                basis_before = w.tree_state(name)["parents"][0]
                if op == "pull":
                    # model: fast-forward, already merged, or diverged
                    if old_local in w.anc(mtip):
                        want = mtip
                    elif mtip in w.anc(old_local):
                        want = old_local
                    else:
                        want = None
                    try:
                        w.wt(name).pull(w.branch("master"))
                        check(want is not None,
                              "C23/pull-accepted-although-diverged", ctx)
                    except errors.DivergedBranches:
                        check(want is None, "C23/pull-refused-a-fast-forward",
                              ctx)
                        # no tip moves (revisions may already have been fetched)
                        after = w.observe()
                        check({n: v["tip"] for n, v in after.items()} ==
                              {n: v["tip"] for n, v in before.items()},
                              "C23/refused-pull-moved-a-tip", ctx)
                        labels.add("pull-diverged")
                        continue
                    if want != old_local:
                        labels.add("catch-up")
                    w.tips[name] = want
                    if w.bound[name]:
                        # a bound branch pulls into its master first
                        check(w.branch("master").last_revision().decode() ==
                              mtip, "C23/pull-moved-the-master", ctx)
                    ts = w.tree_state(name)
                    check(ts["parents"][0] == want or
                          (want == old_local and basis_before != old_local),
                          "C23/tree-basis-not-branch-tip-after-pull", [ctx, ts])
                else:
                    pivot = w.bound[name] and old_local not in w.anc(mtip)
                    rev = None
                    if step.get("rev") and not pivot:
                        # update -r: the branch still follows the master, the
                        # tree goes to an older revision of that history
                        lh = w.lefthand(mtip if w.bound[name] else old_local)
                        rev = lh[max(0, len(lh) - 1 - step["rev"])]
                    if rev is None:
                        w.wt(name).update()
                    else:
                        w.wt(name).update(revision=bz.enc(rev))
                    if w.bound[name]:
                        if old_local != mtip:
                            labels.add("catch-up")
                        w.tips[name] = mtip
                    ts = w.tree_state(name)
                    if rev is None:
                        check(ts["parents"][0] == w.tips[name],
                              "C23/tree-basis-not-branch-tip-after-update",
                              [ctx, ts])
                    else:
                        check(ts["parents"][0] == rev,
                              "C23/tree-basis-not-the-requested-revision-"
                              "after-update", [ctx, rev, ts])
                        if rev != w.tips[name]:
                            labels.add("update-to-older-revision")
                    # local-only commits survive as pending merges
                    if w.bound[name] and old_local not in w.anc(mtip):
                        lost = old_local not in ts["parents"][1:]
                        if lost and basis_before == mtip != old_local:
                            # open finding (reported at the end of the case so
                            # that the search goes on behind it): the tree was
                            # behind its own branch and already at the
                            # master's tip - the local commits are merged into
                            # the files but not recorded as a pending merge
                            deferred.append((
                                "C23/update-forgets-local-commits-when-the-"
                                "stale-tree-is-already-at-the-master-tip",
                                [ctx, basis_before, ts]))
                        else:
                            check(not lost, "C23/local-commit-lost-by-update",
                                  [ctx, basis_before, ts])
                        labels.add("local-commit-merged-back" + (
                            "-stale-tree" if basis_before != old_local else ""))
                        # commit the merge so that the program can go on
                        mid = w.new_id()
                        if w.double:
                            # cannot commit through a doubly bound master:
                            # drop the pending merge instead
                            t = w.wt(name)
                            t.set_parent_ids([bz.enc(mtip)])
                            t.revert(backups=False)
                        else:
                            w.wt(name).commit("merge local",
                                              rev_id=bz.enc(mid),
                                              timestamp=bz.T0, timezone=0,
                                              committer=bz.COMMITTER)
                            w.parents[mid] = ts["parents"]
                            w.tips[name] = mid
                            w.tips["master"] = mid
            elif op == "pull-other":
                # pull from a branch that is not the master, up to a stop
                # revision: a bound branch takes its master along to exactly
                # that revision
                stop = "o%d" % (1 + step.get("stop", 0) % 3)
                old_local, mtip = w.tips[name], w.tips["master"]
                tips_involved = [old_local] + ([mtip] if w.bound[name] else [])
                if all(t in w.anc(stop) for t in tips_involved):
                    want = stop
                elif all(stop in w.anc(t) for t in tips_involved):
                    want = "unchanged"
                else:
                    want = None
                try:
                    if step.get("via") == "branch":
                        # the branch alone: the tree is left where it was
                        w.branch(name).pull(w.branch("other"),
                                            stop_revision=bz.enc(stop))
                    else:
                        w.wt(name).pull(w.branch("other"),
                                        stop_revision=bz.enc(stop))
                    refused = False
                except errors.DivergedBranches:
                    refused = True
                if want is None or refused:
                    # mixed relation (e.g. master behind, local diverged): the
                    # master is pulled first and may have moved before the
                    # local branch refused; not decided by the property.
                    # Resynchronise the model, but a moved tip must be the
                    # stop revision, never beyond it.
                    check(want is None or not refused,
                          "C23/pull-refused-a-fast-forward", ctx)
                    got = w.observe()
                    for n in w.names:
                        if got[n]["tip"] != w.tips[n]:
                            check(got[n]["tip"] == stop,
                                  "C23/pull-with-stop-revision-went-elsewhere",
                                  [ctx, n, got[n]["tip"], stop])
                        w.tips[n] = got[n]["tip"]
                    continue
                check(not refused, "C23/pull-refused-a-fast-forward", ctx)
                if want == stop:
                    w.tips[name] = stop
                    if w.bound[name]:
                        w.tips["master"] = stop
                    labels.add("pull-other-with-stop" + (
                        "-branch-only" if step.get("via") == "branch" else ""))
                got = w.observe()
                check(got[name]["tip"] == w.tips[name] and
                      got["master"]["tip"] == w.tips["master"],
                      "C23/pull-with-stop-revision-left-branches-out-of-step",
                      [ctx, stop, got[name]["tip"], got["master"]["tip"]])
            elif op == "unbind":
                b = w.branch(name)
                if w.bound[name]:
                    b.unbind()
                    w.bound[name] = False
            elif op == "bind":
                b = w.branch(name)
                if not w.bound[name]:
                    try:
                        b.bind(w.branch("master"))
                        w.bound[name] = True
                    except errors.DivergedBranches:
                        labels.add("bind-diverged")
            # ---- after every step: tips as modelled, revisions where expected
            got = w.observe()
            for n in w.names:
                check(got[n]["tip"] == w.tips[n], "C23/tip-differs-from-model",
                      [ctx, n, got[n]["tip"], w.tips[n]])
                check(w.tips[n] in got[n]["revs"],
                      "C23/tip-revision-missing-from-repository", [ctx, n])
                check(got[n]["revno"] == len(w.lefthand(w.tips[n])),
                      "C23/revno-is-not-the-length-of-the-left-hand-history",
                      [ctx, n, got[n]["revno"], w.lefthand(w.tips[n])])
                for r in before[n]["revs"]:
                    check(r in got[n]["revs"], "C23/revision-disappeared",
                          [ctx, n, r])
    finally:
        Branch.hooks.uninstall_named_hook("post_change_branch_tip", "vf-c23")
    if deferred:
        check(False, *deferred[0])
    if not labels:
        return trivial()
    return ok("+".join(sorted(labels)))


@st.composite
def cases(draw, max_steps=10):
    n_co = draw(st.sampled_from([1, 2, 2, 3]))
    ops = ["commit-co", "commit-co", "commit-co", "commit-master",
           "commit-master", "commit-light", "commit-local", "update", "update",
           "pull", "unbind", "bind", "pull-other"]
    steps = draw(st.lists(
        st.fixed_dictionaries({"op": st.sampled_from(ops),
                               "co": st.sampled_from([0, 1, 2]),
                               "stop": st.sampled_from([0, 1, 2]),
                               "rev": st.sampled_from([0, 0, 0, 1, 2]),
                               "via": st.sampled_from(["tree", "tree",
                                                       "branch"])}),
        min_size=3, max_size=max_steps))
    # a pull from the independent branch only fast-forwards while nothing else
    # was committed: put one first, often
    if draw(st.sampled_from([True, False])):
        steps.insert(0, {"op": "pull-other",
                         "co": draw(st.sampled_from([0, 1, 2])),
                         "stop": draw(st.sampled_from([0, 1]))})
    elif draw(st.sampled_from([True, False, False])):
        # "pathologically, all three may be different" (WorkingTree.update):
        # a checkout whose branch got revisions of its own while unbound and
        # whose tree was left behind (branch-level pull), bound again and
        # updated - often after the master moved as well
        co = draw(st.sampled_from([0, 1, 2]))
        pre = [{"op": "unbind", "co": co},
               {"op": "pull-other", "co": co, "via": "branch",
                "stop": draw(st.sampled_from([0, 1, 2]))}]
        if draw(st.booleans()):
            pre.append({"op": "commit-master", "co": 0, "stop": 0})
        # (then update - or commit: the tree may well sit on the master's
        # tip while the branch does not)
        pre += [{"op": "bind", "co": co},
                draw(st.sampled_from([{"op": "update", "co": co, "rev": 0},
                                      {"op": "update", "co": co, "rev": 0},
                                      {"op": "commit-co", "co": co}]))]
        steps[0:0] = pre
    return {"checkouts": n_co, "steps": steps,
            "double": draw(st.sampled_from([False] * 9 + [True]))}


def kinds(tier):
    return [
        Kind("program", run, strategy=cases(10 if tier == "quick" else 14),
             examples={"quick": 300, "thorough": 8000}),
    ]
