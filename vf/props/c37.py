"""C37 - conditional git ref updates honour the expected old value."""

import os

from hypothesis import strategies as st

from vf.api import Kind, Outcome, check, ok, rejected, trivial, violation
from vf.lib import c37_refs as cr
from vf.lib.c37_refs import NAMES, ZERO, sha
from vf.seam import ft

PROPERTY = "C37"
LEVEL = "exploration"
TECHNIQUE = ("model-based sequences of conditional ref updates on local and "
             "memory transports with a dulwich DiskRefsContainer differential; "
             "bounded-preemption enumeration of two-updater interleavings at "
             "every transport operation; stale-push end-to-end through "
             "fetch_refs")
RULE = ("sequential: a generated ref store (6 names incl. HEAD, a name that "
        "needs URL quoting and a nested one; each absent / loose / packed / "
        "both / symbolic to an existing or missing target, chains of 2) and "
        "1-6 calls of set_if_equals / remove_if_equals / add_if_new / "
        "set_symbolic_ref with old in {None, current, other SHA, ZERO}, "
        "optionally reopening the container between calls. Non-trivial: a call "
        "whose old is neither None nor the current value, or whose current "
        "value is packed or symbolic; distinct by case hash. two-updaters: "
        "every (initial state, pair of conditional calls) of a fixed finite "
        "list x EVERY interleaving of the two callers' transport operations "
        "with at most 2 (thorough: 6) pre-emptions; counted per schedule. "
        "fetch-refs: every (ref present/absent, intervening update kind) "
        "combination pushed through InterToLocalGitRepository.fetch_refs.")
ASSUMPTIONS = [
    "reference semantics are those documented for dulwich's RefsContainer "
    "(set_if_equals / add_if_new follow symbolic refs, remove_if_equals does "
    "not, ZERO means 'must not exist'); where the property text is silent "
    "(removing a symbolic ref expecting its target's value) both outcomes are "
    "accepted as long as a False return leaves the store unchanged",
    "two updaters are two TransportRefsContainer objects in one process, "
    "handing over at every transport operation (reads included)",
]
LEVEL_TEXT = ("Sequential semantics are sampled against an independent model "
              "and dulwich's on-disk container; the two-updater part "
              "enumerates all interleavings up to a pre-emption bound for a "
              "fixed list of call pairs, with a serialisability oracle.")
LEVEL_NOTE = ("The pre-emption bound (2 quick / 6 thorough) is exhaustive for "
              "the race window of one compare-and-write; more pre-emptions "
              "are not explored.")
REGISTERED = True
NONTRIVIAL_FLOOR = {"quick": 300, "thorough": 5000}

STALE_CACHE = "C37/cas-compares-with-stale-packed-refs-cache"
LEFT_PACKED = "C37/remove-reports-success-but-packed-ref-survives"
CAS_RACE = "C37/cas-not-atomic-across-updaters"
ADD_RACE = "C37/add-if-new-not-atomic-across-updaters"


def _j(x):
    """Detail values -> JSON-friendly (bytes keys and values as text)."""
    if isinstance(x, bytes):
        return x.decode("latin-1")
    if isinstance(x, dict):
        return {str(_j(k)): _j(v) for k, v in x.items()}
    if isinstance(x, (list, tuple, set, frozenset)):
        return [_j(v) for v in x]
    return x


def chk(cond, sig, detail=None):
    if not cond:
        check(False, sig, _j(detail))


def _known():
    from vf import runner
    return runner.load_findings()


# ------------------------------------------------------------------ sequential

def _old_value(model, op, spec):
    """Concrete expected-old value for a call."""
    if spec is None:
        return None
    if spec == "zero":
        return ZERO
    if spec == "cur":
        return model.current(NAMES[op[1]])
    return sha(spec)


def _apply(refs, model, op):
    """-> (subject result, model result, concrete call)"""
    kind = op[0]
    name = NAMES[op[1]]
    if kind == "sie":
        old = _old_value(model, op, op[2])
        return (refs.set_if_equals(name, old, sha(op[3])),
                model.set_if_equals(name, old, sha(op[3])),
                ["set_if_equals", name, old, sha(op[3])])
    if kind == "rie":
        old = _old_value(model, op, op[2])
        return (refs.remove_if_equals(name, old),
                model.remove_if_equals(name, old),
                ["remove_if_equals", name, old])
    if kind == "ain":
        return (refs.add_if_new(name, sha(op[2])),
                model.add_if_new(name, sha(op[2])),
                ["add_if_new", name, sha(op[2])])
    if kind == "sym":
        refs.set_symbolic_ref(name, NAMES[op[2]])
        model.set_symbolic_ref(name, NAMES[op[2]])
        return None, None, ["set_symbolic_ref", name, NAMES[op[2]]]
    raise ValueError(op)


def _nt_class(model, op):
    kind = op[0]
    if kind not in ("sie", "rie", "ain"):
        return None
    name = NAMES[op[1]]
    if model.is_symbolic(name):
        return "symbolic-current"
    real, _ = model.follow(name)
    if real in model.packed:
        return "packed-current"
    if kind in ("sie", "rie") and op[2] is not None and op[2] != "cur":
        old = _old_value(model, op, op[2])
        if old != model.current(name):
            return "stale-old"
    if kind == "ain" and model.resolve(name) is not None:
        return "add-existing"
    return None


def run_sequential(case, env):
    d = env.newdir()
    t = cr.new_gitdir_transport(case["transport"], d + "/g")
    model = cr.model_from_case(case)
    cr.write_state(t, model, case.get("header", True))
    dul = None
    if case["transport"] == "local":
        from dulwich.refs import DiskRefsContainer
        td = cr.new_gitdir_transport("local", d + "/dul")
        cr.write_state(td, model, case.get("header", True))
        dul = DiskRefsContainer(os.fsencode(d + "/dul"))
        dmodel_ok = True
    conts = [cr.container(t), cr.container(t)]
    label = None
    noted = []
    for i, (op, who) in enumerate(zip(case["ops"], case["who"])):
        refs = conts[who]
        if max(model.hops(n) for n in NAMES) > 4:
            # dulwich's follow() refuses chains of more than five reads
            # (SymrefLoop) as soon as the last name exists: a documented guard,
            # outside what the property quantifies over
            return rejected("symref chain deeper than dulwich's follow limit")
        if op[0] == "fresh":
            refs = conts[who] = cr.container(t)
            if dul is not None:
                dul = DiskRefsContainer(os.fsencode(d + "/dul"))
            continue
        label = label or _nt_class(model, op)
        before = model.copy()
        ambiguous = op[0] == "rie" and before.is_symbolic(NAMES[op[1]]) and \
            op[2] == "cur"
        cached = None if refs._packed_refs is None else dict(
            refs._packed_refs)          # for classifying a failure only
        got, want, call = _apply(refs, model, op)
        where = [i, call]
        loose, packed = cr.read_state(t)
        if ambiguous and got is True:
            # the text does not decide whether deleting a symbolic ref compares
            # with the target's value; a success must then delete the name
            model.loose.pop(NAMES[op[1]], None)
            model.packed.pop(NAMES[op[1]], None)
            want = True
        if got is False:
            chk((loose, packed) == before.state(),
                  "C37/%s-refused-but-changed-refs" % call[0],
                  [where, loose, packed])
        nm = NAMES[op[1]]
        if op[0] == "rie" and got is True and want is True and \
                packed.get(nm) is not None and nm not in model.packed and \
                loose == model.loose:
            # reported deleted, but the packed entry survived; note it, follow
            # the store as it is and keep checking the rest of the sequence
            noted.append((LEFT_PACKED, _j([where, {"packed": packed}])))
            model.packed[nm] = packed[nm]
            if dul is not None:
                dmodel_ok = False
        if got != want and op[0] in ("sie", "rie", "ain") and \
                cached is not None and cached != before.packed:
            # classification only: would the verdict be right for the packed
            # refs this container cached before the other one changed them?
            stale = cr.RefModel(before.loose, cached)
            w2 = getattr(stale, call[0])(*call[1:])
            if w2 == got:
                noted.append((STALE_CACHE, _j([where, {
                    "cached_packed": cached,
                    "stored_packed": before.packed, "returned": got}])))
                # follow the store as it is now
                model.loose, model.packed = dict(loose), dict(packed)
                want = got
                if dul is not None:
                    dmodel_ok = False
        chk(got == want, "C37/%s-wrong-verdict" % call[0],
              [where, {"returned": got, "expected": want,
                       "current": before.current(NAMES[op[1]])}])
        chk((loose, packed) == model.state(),
              "C37/%s-wrong-effect" % call[0],
              [where, {"loose": loose, "packed": packed,
                       "expected": model.state()}])
        # what a fresh reader resolves
        fresh = cr.container(t)
        for n in NAMES:
            try:
                v = fresh[n]
            except KeyError:
                v = None
            chk(v == model.resolve(n), "C37/resolved-value-differs",
                  [where, n, v, model.resolve(n)])
        if dul is not None and dmodel_ok:
            dname = NAMES[op[1]]
            if op[0] == "ain" and before.is_symbolic(dname) and \
                    dname in before.packed:
                # dulwich additionally refuses when the symbolic name itself
                # is packed; not part of the documented semantics
                dmodel_ok = False
                continue
            dgot = _apply_dulwich(dul, call, d + "/dul")
            dloose, dpacked = cr.read_state(td)
            # compare what is stored per name (loose over packed): dulwich
            # skips the write when the value is already there
            mine = {n: loose.get(n) or packed.get(n) for n in NAMES}
            theirs = {n: dloose.get(n) or dpacked.get(n) for n in NAMES}
            chk(dgot == got and mine == theirs,
                  "C37/%s-differs-from-dulwich" % call[0],
                  [where, {"dulwich": dgot, "breezy": got,
                           "dulwich_state": [dloose, dpacked],
                           "breezy_state": [loose, packed]}])
    if noted:
        return violation(noted[0][0], noted[0][1],
                         label="%s/%s" % (case["transport"], label or "plain"))
    return ok("%s/%s" % (case["transport"], label)) if label else trivial()


def _apply_dulwich(dul, call, root):
    fn = call[0]
    if fn == "set_if_equals":
        return dul.set_if_equals(call[1], call[2], call[3])
    if fn == "remove_if_equals":
        return dul.remove_if_equals(call[1], call[2])
    if fn == "add_if_new":
        return dul.add_if_new(call[1], call[2])
    # dulwich does not create missing parent directories for a symref
    os.makedirs(os.path.dirname(os.path.join(os.fsencode(root), call[1])),
                exist_ok=True)
    dul.set_symbolic_ref(call[1], call[2])
    return None


# ------------------------------------------------------------------ two updaters

R = 1                       # refs/heads/a
INITS = {
    "absent": ([], []),
    "loose": ([[R, "sha", 0]], []),
    "packed": ([], [[R, 0]]),
    "both": ([[R, "sha", 0]], [[R, 1]]),
    "via-HEAD": ([[0, "sym", R], [R, "sha", 0]], []),
}
# (call A, call B); old: None | "cur" | "zero" | sha index
PAIRS = [
    (["sie", "cur", 4], ["sie", "cur", 5]),
    (["sie", "cur", 4], ["rie", "cur"]),
    (["rie", "cur"], ["rie", "cur"]),
    (["ain", 4], ["ain", 5]),
    (["sie", "cur", 4], ["sie", 3, 5]),
    (["sie", None, 4], ["sie", "cur", 5]),
    (["ain", 4], ["sie", "zero", 5]),
    (["rie", None], ["sie", "cur", 5]),
]


def enum_two(tier):
    for init in sorted(INITS):
        for pi in range(len(PAIRS)):
            yield {"init": init, "pair": pi}


def _concrete(model, init, call):
    """-> (method name, args) with the expected-old value made concrete from
    the initial state; set/add calls go through HEAD in the via-HEAD state."""
    name = NAMES[0] if init == "via-HEAD" and call[0] != "rie" else NAMES[R]
    def old(spec):
        if spec is None:
            return None
        if spec == "zero":
            return ZERO
        if spec == "cur":
            return model.current(name)
        return sha(spec)
    if call[0] == "sie":
        return "set_if_equals", (name, old(call[1]), sha(call[2]))
    if call[0] == "rie":
        return "remove_if_equals", (name, old(call[1]))
    return "add_if_new", (name, sha(call[1]))


def _view(loose, packed):
    return {n: loose.get(n) or packed.get(n) for n in NAMES}


def _serial_outcomes(model, ca, cb):
    outs = []
    for first, second, swap in ((ca, cb, False), (cb, ca, True)):
        m = model.copy()
        r1 = getattr(m, first[0])(*first[1])
        r2 = getattr(m, second[0])(*second[1])
        ra, rb = (r2, r1) if swap else (r1, r2)
        outs.append((ra, rb, _view(*m.state())))
    return outs


def run_two(case, env):
    from breezy import transport as _t
    cr.patch_seam_write_stream()
    init = case["init"]
    loose, packed = INITS[init]
    model = cr.model_from_case({"loose": loose, "packed": packed})
    pa, pb = PAIRS[case["pair"]]
    ca = _concrete(model, init, pa)
    cb = _concrete(model, init, pb)
    serial = _serial_outcomes(model, ca, cb)
    bound = 2 if env.tier == "quick" else 6
    base = env.newdir()
    counter = [0]
    noted = {}

    def run_one(prefix):
        counter[0] += 1
        path = "%s/g%d" % (base, counter[0])
        os.makedirs(path)
        cr.write_state(_t.get_transport(path), model)
        conts = {"A": cr.container(ft.get_transport(path)),
                 "B": cr.container(ft.get_transport(path))}
        sch = cr.DfsScheduler(prefix)
        sch.path = path
        with ft.session(mode="schedule", scheduler=sch):
            sch.run({
                "A": lambda: getattr(conts["A"], ca[0])(*ca[1]),
                "B": lambda: getattr(conts["B"], cb[0])(*cb[1])})
        return sch

    n = 0
    overlapping = 0

    def note(sig, sch, extra):
        cost = (cr.preemptions(sch.decisions), len(sch.trace))
        if sig not in noted or cost < noted[sig][0]:
            cut = sch.path + "/"
            noted[sig] = (cost, _j(dict(extra, **{
                "calls": [ca, cb], "initial": model.state(),
                "executed_in_order": [
                    [a, op, p.split(cut, 1)[-1]]
                    for a, op, p in cr.execution_order(sch)]})))

    for sch in cr.enumerate_schedules(run_one, bound):
        n += 1
        if cr.preemptions(sch.decisions):
            overlapping += 1
        failed = False
        for a in ("A", "B"):
            e = sch.errors.get(a)
            if e is not None:
                if not isinstance(e, Exception):
                    raise e
                from vf import runner
                what, sig, detail = runner.classify_exception(PROPERTY, e)
                if what != "violation":
                    raise e
                note(sig, sch, {"actor": a, "exception": detail[-600:]})
                failed = True
        if failed:
            continue
        state = cr.read_state(_t.get_transport(sch.path))
        out = (sch.results["A"], sch.results["B"], _view(*state))
        if out in serial:
            continue
        cas = [c for c in (ca, cb) if c[0] != "add_if_new" and
               c[1][1] is not None]
        if cas:
            sig = CAS_RACE
        elif "add_if_new" in (ca[0], cb[0]):
            sig = ADD_RACE
        else:
            sig = "C37/unconditional-updates-not-serialisable"
        note(sig, sch, {"returned": [out[0], out[1]], "final": out[2],
                        "serial_outcomes": serial})
    label = "two/%s/%s+%s" % (init, pa[0], pb[0])
    known = _known()
    unknown = sorted(s for s in noted if s not in known)
    if noted:
        s0 = unknown[0] if unknown else sorted(noted)[0]
        return Outcome("violation", signature=s0, detail=noted[s0][1],
                       label=label, n=n, nt=overlapping)
    return ok(label, n=n, nt=overlapping)


# ------------------------------------------------------------------ fetch_refs

FETCH_CASES = [
    {"present": p, "intervene": i, "packed": k}
    for p in (True, False)
    for i in ("none", "set-other", "set-same", "remove", "create")
    for k in (False, True)
    if (p or i in ("none", "create")) and (p or not k) and
    not (p and i == "create")
]


def enum_fetch(tier):
    return iter(FETCH_CASES)


def run_fetch(case, env):
    """A push through InterToLocalGitRepository.fetch_refs whose view of the
    target ref is stale (another updater acted after the refs were read) must
    not clobber what that updater did."""
    from breezy import controldir, repository as _r, transport as _t
    from breezy.branchbuilder import BranchBuilder
    from breezy.git.interrepo import InterToLocalGitRepository
    from vf.lib import bz
    d = env.newdir()
    br = bz.init_branch(d + "/src", "2a")
    bb = BranchBuilder(branch=br)
    bb.start_series()
    try:
        kw = {"timezone": 0, "committer": "A <a@example.com>"}
        bb.build_snapshot(None, [
            ("add", ("", b"root-id", "directory", None)),
            ("add", ("a", b"a-id", "file", b"1\n"))], revision_id=b"r1",
            timestamp=1000000000, **kw)
        bb.build_snapshot([b"r1"], [("modify", ("a", b"2\n"))],
                          revision_id=b"r2", timestamp=1000000001, **kw)
        bb.build_snapshot([b"r1"], [("modify", ("a", b"x\n"))],
                          revision_id=b"rx", timestamp=1000000002, **kw)
    finally:
        bb.finish_series()
    cd = controldir.ControlDir.create(d + "/git", format=bz.fmt("git-bare"))
    tgt = cd.open_repository()
    inter = _r.InterRepository.get(br.repository, tgt)
    if not isinstance(inter, InterToLocalGitRepository):
        raise AssertionError("unexpected InterRepository %r" % inter)
    name = b"refs/heads/main"
    first = {b"refs/heads/other": (None, b"rx")}
    if case["present"]:
        first[name] = (None, b"r1")
    with tgt.lock_write():
        _m, _o, new0 = inter.fetch_refs(lambda old: dict(first), lossy=True)
    gx = new0[b"refs/heads/other"][0]
    g1 = new0[name][0] if case["present"] else None
    plain = _t.get_transport(d + "/git")
    if case["packed"]:
        # the target ref lives in packed-refs only
        plain.delete("refs/heads/main")
        plain.put_bytes("packed-refs", cr.packed_bytes({name: g1}, True))
    seen = {}

    def update_refs(old_refs):
        seen["old"] = old_refs.get(name)
        other = cr.container(_t.get_transport(d + "/git"))
        how = case["intervene"]
        if how in ("set-other", "create"):
            other.set_if_equals(name, None, gx)
        elif how == "set-same":
            other.set_if_equals(name, None, g1)
        elif how == "remove":
            # make sure this updater knows the packed entries (the
            # packed-survivor defect is a separate finding)
            other.get_packed_refs()
            other.remove_if_equals(name, None)
        return {name: (None, b"r2")}
    tgt2 = controldir.ControlDir.open(d + "/git").open_repository()
    inter2 = _r.InterRepository.get(br.repository, tgt2)
    with tgt2.lock_write():
        _m, _old, new = inter2.fetch_refs(update_refs, lossy=True)
    g2 = new[name][0]
    loose, packed = cr.read_state_names(plain, [name])
    final = loose.get(name) or packed.get(name)
    want = {"none": g2, "set-same": g2, "set-other": gx, "create": gx,
            "remove": None}[case["intervene"]]
    sig = "C37/fetch_refs-clobbers-concurrent-ref-update"
    if case["packed"] and case["intervene"] == "remove":
        # same root cause as STALE_CACHE: the pushing side compares with the
        # packed value it cached when it listed the refs
        sig = "C37/fetch_refs-resurrects-removed-packed-ref-from-stale-cache"
    chk(final == want, sig,
        [case, {"final": final, "expected": want, "pushed": g2,
                "concurrent": gx, "seen_old": seen.get("old")}])
    stale = case["intervene"] in ("set-other", "create", "remove")
    return ok("fetch_refs/%s%s/%s" % (
        "present" if case["present"] else "absent",
        "-packed" if case["packed"] else "", case["intervene"])) \
        if stale or case["packed"] else trivial()




@st.composite
def seq_case(draw):
    n = len(NAMES)
    loose = []
    packed = []
    for idx in range(n):
        k = draw(st.sampled_from(
            ["absent", "absent", "loose", "packed", "both", "sym"]))
        if idx == 0 and k in ("packed", "both"):
            k = "loose"              # HEAD is never packed
        if k == "sym" and idx == n - 1:
            k = "loose"
        if k in ("loose", "both"):
            loose.append([idx, "sha", draw(st.integers(0, 3))])
        if k in ("packed", "both"):
            packed.append([idx, draw(st.integers(0, 3))])
        if k == "sym":
            # only to later names: chains, no loops
            # HEAD skips one name: the longest chain has four hops (dulwich
            # refuses to follow more than five reads)
            loose.append([idx, "sym", draw(st.integers(max(idx + 1, 2),
                                                       n - 1))])
    ops = []
    focus = draw(st.integers(0, n - 1))
    for _ in range(draw(st.integers(1, 7))):
        kind = draw(st.sampled_from(["sie", "sie", "sie", "rie", "rie", "ain",
                                     "sym", "fresh"]))
        # most calls hit one name, so that sequences build on each other
        idx = focus if draw(st.integers(0, 2)) else draw(
            st.integers(0, n - 1))
        old = draw(st.sampled_from([None, "cur", "cur", "zero", 0, 1, 2, 3]))
        if kind == "sie":
            ops.append(["sie", idx, old, draw(st.integers(0, 5))])
        elif kind == "rie":
            ops.append(["rie", idx, old])
        elif kind == "ain":
            ops.append(["ain", idx, draw(st.integers(0, 5))])
        elif kind == "sym":
            if idx == n - 1:
                idx = 0
            ops.append(["sym", idx, draw(st.integers(max(idx + 1, 2),
                                                     n - 1))])
        else:
            ops.append(["fresh"])
    # two long-lived containers take turns (each keeps its packed-refs cache)
    who = [draw(st.sampled_from([0, 0, 1])) for _ in ops]
    return {"transport": draw(st.sampled_from(["local", "memory"])),
            "header": draw(st.booleans()), "loose": loose, "packed": packed,
            "ops": ops, "who": who}


def kinds(tier):
    return [
        Kind("sequential", run_sequential, strategy=seq_case(),
             examples={"quick": 3000, "thorough": 100000}),
        Kind("two-updaters", run_two, enumerate=enum_two, exhaustive=True,
             hash_cases=False),
        Kind("fetch-refs", run_fetch, enumerate=enum_fetch, exhaustive=True,
             hash_cases=False),
    ]
