"""C44 - fast-export followed by fast-import preserves history."""

import io
import os

from hypothesis import strategies as st

from vf.api import Expect, Kind, check, ok, trivial, violation
from vf.lib import bz, history
from vf.lib import c40_hist as ch

PROPERTY = "C44"
LEVEL = "exploration"
TECHNIQUE = ("round trip on generated histories: BzrFastExporter -> stream -> "
             "GenericProcessor into an empty shared repository; DAG "
             "isomorphism from the tips, per-revision tree / metadata / tag "
             "comparison")
RULE = ("roundtrip: history of 2-8 revisions (merges with up to 3 parents, "
        "renames, deletions, re-adding at deleted paths, kind changes, "
        "symlinks, exec bits, tags, multi-line / non-ASCII messages, distinct "
        "author / committer, timezones) exported with BzrFastExporter (plain "
        "format 7 of 8 cases, rich otherwise) and imported with "
        "GenericProcessor. Excluded BY CONSTRUCTION while generating (ops are "
        "left out and counted, label suffix +excluded): a revision taking "
        "again a path that a rename of the same revision vacated (swap, rename "
        "chain, rename + add at the old path) and renaming a directory that "
        "has children, and renaming a directory onto a path deleted in the "
        "same revision - the root causes of F25, each exercised on its own "
        "in the 'shapes' kind (14 hand-picked single-commit shapes x {plain "
        "commit, merge commit}), where a failure carries the shape's own "
        "signature. Non-trivial: history with a merge and a rename; distinct "
        "by case hash.")
ASSUMPTIONS = ["the python-fastimport parser (third party) is trusted"]
LEVEL_TEXT = "Sampled histories, full round trip, structural comparison."
LEVEL_NOTE = "Bounded histories (<= 8 revisions)."
REGISTERED = True
NONTRIVIAL_FLOOR = {"quick": 30, "thorough": 1000}


def _known():
    from vf import runner
    return runner.load_findings()


def export_stream(branch, plain):
    from breezy.plugins.fastimport import exporter
    out = io.BytesIO()
    exporter.BzrFastExporter(branch, out, ref=b"refs/heads/master",
                             plain_format=plain).run()
    return out.getvalue()


def import_stream(data, path, fmt):
    from breezy import branch as _b, transport as _t
    from breezy.plugins.fastimport.processors import generic_processor
    from fastimport import parser
    os.makedirs(path)
    cd = bz.fmt(fmt).initialize_on_transport(_t.get_transport(path))
    cd.create_repository(shared=True)
    proc = generic_processor.GenericProcessor(cd, params={})
    proc.process(parser.ImportParser(io.BytesIO(data)).iter_commands)
    names = sorted(n for n in os.listdir(path) if n != ".bzr")
    return [(_b.Branch.open(os.path.join(path, n)), n) for n in names]


def files_snapshot(tree):
    """{path: [kind, content/target, exec]} without directories (plain
    fast-import streams do not carry empty directories)."""
    s = bz.snapshot_tree(tree, with_ids=False, contents=True)
    return {p: v[:3] for p, v in s.items() if v[0] != "directory"}


def rev_meta(rev):
    # an author equal to the committer is not written to the stream; what
    # counts is who the revision is attributed to
    return {"message": rev.message, "committer": rev.committer,
            "authors": list(rev.get_apparent_authors()),
            "timestamp": int(rev.timestamp), "timezone": rev.timezone}


def compare(src_branch, dst_branch, tip, where):
    """Walk both DAGs from the tips pairing parents in order."""
    srepo, drepo = src_branch.repository, dst_branch.repository
    with srepo.lock_read(), drepo.lock_read():
        pairing = {}
        todo = [(tip, dst_branch.last_revision())]
        while todo:
            a, b = todo.pop()
            if a in pairing:
                check(pairing[a] == b, "C44/dag-not-isomorphic",
                      [where, a.decode(), "paired twice"])
                continue
            pairing[a] = b
            ra, rb = srepo.get_revision(a), drepo.get_revision(b)
            pa = [p for p in ra.parent_ids]
            pb = [p for p in rb.parent_ids]
            check(len(pa) == len(pb), "C44/parent-count-differs",
                  [where, a.decode(), len(pa), len(pb)])
            ma, mb = rev_meta(ra), rev_meta(rb)
            check(ma == mb, "C44/revision-metadata-differs",
                  [where, a.decode(), {k: [repr(ma[k]), repr(mb[k])]
                                       for k in ma if ma[k] != mb[k]}])
            ta = files_snapshot(srepo.revision_tree(a))
            tb = files_snapshot(drepo.revision_tree(b))
            check(ta == tb, "C44/tree-differs",
                  [where, a.decode(),
                   {k: [ta.get(k), tb.get(k)] for k in sorted(set(ta) | set(tb))
                    if ta.get(k) != tb.get(k)}])
            todo.extend(zip(pa, pb))
        src_n = len([r for r, _p in srepo.get_graph().iter_ancestry([tip])
                     if r != b"null:"])
        dst_n = len(drepo.all_revision_ids())
        check(src_n == dst_n == len(pairing), "C44/revision-count-differs",
              [where, src_n, dst_n, len(pairing)])
    return pairing


def run(case, env):
    d = env.newdir()
    spec = case["spec"]
    wt, models, idmap = history.build_wt(spec, d + "/src", "2a", tags=True)
    tip = wt.branch.last_revision()
    data = export_stream(wt.branch, case["plain"])
    try:
        branches = import_stream(data, d + "/imp", "2a")
    except ValueError as e:
        if not case["plain"] and "invalid property name b'" in str(e):
            sig = "C44/rich-stream-revision-property-names-are-bytes"
            if sig in _known():
                return violation(sig, str(e), label="rich/properties")
        raise
    check(len(branches) == 1, "C44/import-created-other-than-one-branch",
          [n for _b, n in branches])
    dst = branches[0][0]
    pairing = compare(wt.branch, dst, tip, "plain" if case["plain"] else "rich")
    src_tags = wt.branch.tags.get_tag_dict()
    dst_tags = dst.tags.get_tag_dict()
    want = {t: pairing[r] for t, r in src_tags.items() if r in pairing}
    check(dst_tags == want, "C44/tags-differ",
          [sorted(src_tags), {k: v.decode() for k, v in dst_tags.items()}])
    anc = ch.ancestry(spec, spec["revs"][-1]["id"])
    revs = {r["id"]: r for r in spec["revs"]}
    merge = any(len(revs[r]["parents"]) > 1 for r in anc)
    rename = any(op[0] == "rename" for r in anc for op in revs[r]["ops"])
    if merge and rename:
        return ok("%s/merge+rename%s" % (
            "plain" if case["plain"] else "rich",
            "+excluded" if spec.get("skipped_ops") else ""))
    return trivial()


# ------------------------------------------------------------------ shapes

BASE_OPS = [
    ["add", "f1-id", "root-id", "a", "file", "A\n", False],
    ["add", "f2-id", "root-id", "b", "file", "B\n", False],
    ["add", "f3-id", "root-id", "x", "directory", None, False],
    ["add", "f4-id", "f3-id", "y", "file", "Y\n", False],
    ["add", "f5-id", "root-id", "l", "symlink", "a", False],
    ["add", "f6-id", "root-id", "c", "file", "C\n", True],
]
SHAPES = {
    "rename-and-modify": [["rename", "f1-id", "root-id", "d"],
                          ["modify", "f1-id", "A2\n"]],
    "dir-rename-with-children": [["rename", "f3-id", "root-id", "z"]],
    "swap-files": [["rename", "f1-id", "root-id", "tmp"],
                   ["rename", "f2-id", "root-id", "a"],
                   ["rename", "f1-id", "root-id", "b"]],
    "rename-chain": [["rename", "f2-id", "root-id", "d"],
                     ["rename", "f1-id", "root-id", "b"]],
    "rename-then-add-at-old-path": [
        ["rename", "f1-id", "root-id", "d"],
        ["add", "f7-id", "root-id", "a", "file", "NEW\n", False]],
    "rename-onto-deleted-path": [["delete", "f1-id"],
                                 ["rename", "f2-id", "root-id", "a"]],
    "delete-then-add-at-same-path": [
        ["delete", "f1-id"],
        ["add", "f7-id", "root-id", "a", "file", "NEW\n", False]],
    "kind-change-file-to-symlink": [
        ["delete", "f1-id"],
        ["add", "f7-id", "root-id", "a", "symlink", "b", False]],
    "kind-change-file-to-directory": [
        ["delete", "f1-id"],
        ["add", "f7-id", "root-id", "a", "directory", None, False],
        ["add", "f8-id", "f7-id", "k", "file", "K\n", False]],
    "kind-change-symlink-to-file": [
        ["delete", "f5-id"],
        ["add", "f7-id", "root-id", "l", "file", "L\n", False]],
    "move-out-of-deleted-directory": [["rename", "f4-id", "root-id", "z"],
                                      ["delete", "f3-id"]],
    "empty-dir-rename-onto-deleted-path": [
        ["add", "f7-id", "root-id", "emptyd", "directory", None, False]],
    "exec-bit-only": [["chmod", "f1-id", True]],
    "symlink-retarget": [["retarget", "f5-id", "b"]],
}


def enum_shapes(tier):
    for name in sorted(SHAPES):
        for merge in (False, True):
            yield {"shape": name, "merge": merge}


def _shape_spec(case):
    def rev(i, parents, ops):
        return {"id": "r%d" % i, "parents": parents, "ghosts": [],
                "ops": ops, "msg": "m%d" % i, "ts": bz.T0 + i, "tz": 0,
                "committer": history.COMMITTERS[0], "props": {}}
    base_ops = [list(o) for o in BASE_OPS]
    shape_ops = [list(o) for o in SHAPES[case["shape"]]]
    if case["shape"] == "empty-dir-rename-onto-deleted-path":
        # an empty directory exists beforehand; the commit deletes file a and
        # renames the directory to a
        base_ops += shape_ops
        shape_ops = [["delete", "f1-id"],
                     ["rename", "f7-id", "root-id", "a"]]
    revs = [rev(0, [], base_ops)]
    if case["merge"]:
        # the shape sits in a merge revision (diffed against its first parent)
        revs.append(rev(1, ["r0"], [["modify", "f6-id", "C2\n"]]))
        revs.append(rev(2, ["r0", "r1"], shape_ops))
        revs.append(rev(3, ["r2"], [["modify", "f2-id", "B9\n"]]))
    else:
        revs.append(rev(1, ["r0"], shape_ops))
        revs.append(rev(2, ["r1"], [["modify", "f2-id", "B9\n"]]))
    return {"revs": revs, "tags": {"t": revs[-2]["id"]}}


def run_shape(case, env):
    """One hand-picked single-commit shape per case; a failure is reported
    under that shape's own signature (triage of F25)."""
    c = {"spec": _shape_spec(case), "plain": True}
    label = "shape/%s%s" % (case["shape"], "/in-merge" if case["merge"]
                            else "")
    try:
        run(c, env)
    except Expect as e:
        return violation("C44/shape:%s:%s" % (
            case["shape"], e.signature.split("/", 1)[1]), e.detail,
            label=label)
    return ok(label)


@st.composite
def any_case(draw):
    spec = draw(ch.spec_no_reuse(
        n_min=2, n_max=8, merges=True, symlinks=True, execs=True, tags=True,
        meta=True, ops_max=3, forbid=ch.renames_dir_with_children))
    return {"spec": spec,
            "plain": draw(st.sampled_from([True] * 7 + [False]))}


def kinds(tier):
    return [
        Kind("roundtrip", run, strategy=any_case(),
             examples={"quick": 400, "thorough": 20000}),
        Kind("shapes", run_shape, enumerate=enum_shapes, exhaustive=True,
             hash_cases=False),
    ]
