"""C52 - format upgrades and reconfigurations preserve history and trees."""

import os

from hypothesis import strategies as st

from vf.api import Kind, check, ok, trivial
from vf.lib import bz, history, treemodel as tm

PROPERTY = "C52"
LEVEL = "exploration"
TECHNIQUE = ("Hypothesis-generated histories with tags and a working tree with "
             "pending changes / pending merges in every supported source format; "
             "upgrade to each newer compatible format or a generated walk "
             "through the layout graph with Reconfigure; before/after "
             "comparison of tip, tags, per-revision testaments, tree files and "
             "pending changes")
RULE = ("history_spec (merges, symlinks, exec bits, metadata, tags) built through "
        "a real working tree in one of 8 source formats, then generated pending "
        "edits and an optional pending merge; action = upgrade to a generated "
        "compatible target format, or 1-4 reconfiguration steps (branch, tree, "
        "checkout, standalone, use-shared, stacked-on, unstacked). Non-trivial: "
        "the history has a merge and a tag and the tree has a pending rename or "
        "pending merge; or a walk of >= 2 effective transitions. Distinct by case "
        "hash.")
ASSUMPTIONS = [
    "StrictTestament3 (root entry with last-changed revision) is compared only "
    "when the root model (rich root or not) is unchanged by the action",
    "a reconfiguration that destroys the working tree is only compared at branch "
    "level afterwards (files stay on disk; tree state no longer exists)",
]
LEVEL_TEXT = ("Sampled exploration with an exact before/after oracle: nothing the "
              "property names (tip, revno, tags, every revision's testaments, file "
              "bytes and modes, reported pending changes, pending merges) may "
              "differ after an upgrade or a reconfiguration; refusals must change "
              "nothing.")
LEVEL_NOTE = ("Local transports; histories bounded to 6 revisions; formats "
              "pack-0.92, 1.9, 1.9-rich-root, rich-root-pack, 1.14, "
              "1.14-rich-root, knit, 2a; lightweight checkouts are covered only as "
              "a target of to_lightweight_checkout from a checkout.")
REGISTERED = True
NONTRIVIAL_FLOOR = {"quick": 20, "thorough": 200}

SOURCES = ["pack-0.92", "1.9", "1.9-rich-root", "rich-root-pack", "1.14",
           "1.14-rich-root", "knit", "2a"]
RICH = {"1.9-rich-root", "rich-root-pack", "1.14-rich-root", "2a"}
TARGETS = {
    "knit": ["pack-0.92", "1.9", "1.14", "2a"],
    "pack-0.92": ["1.9", "1.14", "2a"],
    "1.9": ["1.14", "2a"],
    "1.14": ["2a"],
    "rich-root-pack": ["1.9-rich-root", "1.14-rich-root", "2a"],
    "1.9-rich-root": ["1.14-rich-root", "2a"],
    "1.14-rich-root": ["2a"],
    "2a": ["development-colo"],
}


def snap_fs(root):
    out = bz.snapshot_fs(root, skip=(".bzr", ".git"))
    return {p: v for p, v in out.items()
            if not p.split("/")[0].startswith("backup.bzr")}


def observe(path, v3):
    from breezy import branch as _branch, errors, workingtree
    from breezy.bzr import testament as T
    b = _branch.Branch.open(path)
    out = {}
    with b.lock_read():
        repo = b.repository
        anc = sorted(r for r in repo.get_graph().find_unique_ancestors(
            b.last_revision(), [b"null:"]))
        classes = ["Testament", "StrictTestament"] + (
            ["StrictTestament3"] if v3 else [])
        out["testaments"] = {
            c: {r.decode(): getattr(T, c).from_revision(repo, r).as_sha1().decode()
                if isinstance(getattr(T, c).from_revision(repo, r).as_sha1(),
                              bytes)
                else getattr(T, c).from_revision(repo, r).as_sha1()
                for r in anc} for c in classes}
        revno, tip = b.last_revision_info()
        out["tip"] = [revno, tip.decode()]
        out["tags"] = {k: v.decode() for k, v in
                       b.tags.get_tag_dict().items()} if b.supports_tags() else {}
    try:
        wt = workingtree.WorkingTree.open(path)
    except errors.NoWorkingTree:
        out["tree"] = None
    else:
        with wt.lock_read():
            repo = wt.branch.repository
            parents = wt.get_parent_ids()
            out["tree"] = {
                "changes": bz.iter_changes_canon(wt, wt.basis_tree()),
                "parents": [p.decode() for p in parents],
                # pending merges stay usable: their revisions are still there
                "parents_present": [repo.has_revision(p) for p in parents],
                "conflicts": sorted(
                    (c.typestring, c.path, getattr(c, "conflict_path", None))
                    for c in wt.conflicts())}
    out["fs"] = snap_fs(path)
    return out


def diff(a, b):
    return {k: [a.get(k), b.get(k)] for k in set(a) | set(b)
            if a.get(k) != b.get(k)}


def run(case, env):
    from breezy import branch as _branch, controldir, errors
    from breezy import reconfigure as _rc, upgrade as _up
    src = case["source"]
    d = env.newdir()
    top = d + "/top"
    os.makedirs(top)
    if case["shared"]:
        bz.init_repo(top, src, shared=True)
        # the tree itself gets its own repository: standalone inside a shared one
    path = top + "/t"
    spec = case["spec"]
    wt, models, idmap = _build(spec, path, src)
    tip = spec["revs"][-1]["id"]
    # a parent branch (gives checkout / stacking something to refer to)
    parent = wt.branch.controldir.sprout(d + "/parent").open_branch()
    wt.branch.set_parent(parent.base)
    # pending changes (never committed)
    m = tm.clone(models[tip])
    with wt.lock_write():
        bz.apply_ops_wt(wt, m, case["pending"])
        if case["pending_merge"]:
            g = history.graph_of(spec, ghosts=False)
            from vf.lib import graphmodel as gm
            anc = gm.ancestry(g, tip)
            others = [r["id"] for r in spec["revs"] if r["id"] not in anc]
            if others:
                wt.set_parent_ids([bz.enc(tip), bz.enc(others[0])])
        if case.get("conflicts"):
            # unresolved conflicts are part of the tree's pending state
            from breezy.bzr import conflicts as _c
            files = sorted(p for p, v in bz.model_snapshot(m).items()
                           if v[0] == "file")
            cl = [_c.TextConflict(p) for p in files[:2]]
            if files:
                cl.append(_c.ContentsConflict(files[-1] + ".moved"))
            wt.set_conflicts(cl)
    bz.age_files(path)
    action = case["action"]
    rich = src in RICH
    labels = []
    if action["kind"] == "upgrade":
        tgt = TARGETS[src][action["target"] % len(TARGETS[src])]
        same_root = (tgt in RICH or tgt == "development-colo") == rich
        before = observe(path, v3=same_root)
        try:
            _up.upgrade(path, bz.fmt(tgt))
        except errors.BzrError as e:
            after = observe(path, v3=same_root)
            check(after == before, "C52/refused-upgrade-changed-something",
                  [src, tgt, type(e).__name__, diff(before, after)])
            return ok("upgrade-refused:%s" % type(e).__name__)
        after = observe(path, v3=same_root)
        for k in ("tip", "tags", "testaments", "tree", "fs"):
            check(after[k] == before[k], "C52/upgrade-changed-%s" % k,
                  [src, tgt, diff(before[k], after[k])
                   if isinstance(before[k], dict) and isinstance(after[k], dict)
                   else [before[k], after[k]]])
        check(os.path.isdir(os.path.join(path, "backup.bzr.~1~")) or
              os.path.isdir(os.path.join(path, "backup.bzr")),
              "C52/no-backup-after-upgrade", [src, tgt, os.listdir(path)])
        b = _branch.Branch.open(path)
        res = b.repository.check([b.last_revision()])
        labels.append("upgrade:%s->%s" % (src, tgt))
    else:
        before = observe(path, v3=True)
        effective = 0
        for step in action["steps"]:
            cd = controldir.ControlDir.open(path)
            pre = observe(path, v3=True)
            try:
                if step == "branch":
                    _rc.Reconfigure.to_branch(cd).apply(force=False)
                elif step == "tree":
                    _rc.Reconfigure.to_tree(cd).apply(force=False)
                elif step == "checkout":
                    _rc.Reconfigure.to_checkout(cd).apply(force=False)
                elif step == "lightweight":
                    _rc.Reconfigure.to_lightweight_checkout(cd).apply(
                        force=False)
                elif step == "standalone":
                    _rc.Reconfigure.to_standalone(cd).apply(force=False)
                elif step == "use-shared":
                    _rc.Reconfigure.to_use_shared(cd).apply(force=False)
                elif step == "stacked":
                    _rc.ReconfigureStackedOn().apply(cd, parent.base)
                elif step == "unstacked":
                    _rc.ReconfigureUnstacked().apply(cd)
                effective += 1
                labels.append(step)
            except (_rc.BzrDirError, errors.UncommittedChanges,
                    _branch.UnstackableBranchFormat,
                    errors.UnstackableRepositoryFormat, errors.NotStacked,
                    errors.NoRepositoryPresent, errors.UpgradeRequired,
                    errors.UnstackableLocationError,
                    errors.NotBranchError) as e:
                # NotBranchError: use-shared without a shared repository above
                if isinstance(e, errors.NotBranchError):
                    check(step == "use-shared" and not case["shared"],
                          "C52/exc:NotBranchError-from-reconfigure",
                          [src, step, str(e)[:200]])
                post = observe(path, v3=True)
                check(post == pre, "C52/refused-reconfigure-changed-something",
                      [src, step, type(e).__name__, diff(pre, post)])
                labels.append("%s-refused:%s" % (step, type(e).__name__))
                continue
            post = observe(path, v3=True)
            # (turning a tree into a plain branch removes the working files by
            # design - only allowed without uncommitted changes - and turning
            # it back re-creates them from the tip)
            keys = ["tip", "tags", "testaments"]
            if pre["tree"] is not None and post["tree"] is not None:
                keys.append("fs")
            for k in keys:
                check(post[k] == pre[k], "C52/reconfigure-%s-changed-%s" % (
                    step, k), [src, action["steps"],
                               diff(pre[k], post[k])
                               if isinstance(pre[k], dict) else [pre[k], post[k]]])
            if pre["tree"] is not None and post["tree"] is not None:
                check(post["tree"] == pre["tree"],
                      "C52/reconfigure-%s-changed-pending-changes" % step,
                      [src, action["steps"], pre["tree"], post["tree"]])
        if effective < 1:
            return trivial()
    return ok("+".join(labels)[:120])


def _build(spec, path, fmt):
    wt, models, idmap = history.build_wt(spec, path, fmt, tags=False)
    if wt.branch.supports_tags():
        for t, r in (spec.get("tags") or {}).items():
            wt.branch.tags.set_tag(t, idmap[r])
    return wt, models, idmap


@st.composite
def cases(draw):
    # the oldest formats go through the most conversion steps
    src = draw(st.sampled_from(SOURCES + ["knit", "knit", "pack-0.92"]))
    spec = draw(history.history_spec(
        n_min=2, n_max=5, merges=True, ghosts=False, symlinks=True, execs=True,
        odd_names=False, meta=True, tags=True, ops_max=3, base_max=5))
    models = history.models_of(spec)
    m = tm.clone(models[spec["revs"][-1]["id"]])
    ids = tm.IdSource(prefix="p")
    pending = tm.draw_ops(draw, m, ids, n_min=0, n_max=4, symlinks=True,
                          execs=True, odd_names=False)
    if draw(st.sampled_from([True, True, False])):
        action = {"kind": "upgrade",
                  "target": draw(st.sampled_from([0, 1, 2, 3]))}
    else:
        action = {"kind": "reconfigure", "steps": draw(st.lists(
            st.sampled_from(["branch", "tree", "checkout", "lightweight",
                             "standalone", "use-shared", "stacked",
                             "unstacked"]), min_size=1, max_size=4))}
    return {"source": src, "spec": spec, "pending": pending,
            "pending_merge": draw(st.sampled_from([False, True])),
            "conflicts": draw(st.sampled_from([False, True])),
            "shared": draw(st.sampled_from([False, True])),
            "action": action}


def kinds(tier):
    return [
        Kind("convert", run, strategy=cases(),
             examples={"quick": 200, "thorough": 4000}),
    ]
