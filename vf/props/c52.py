"""C52 - format upgrades and reconfigurations preserve history and trees."""

import errno
import os

from hypothesis import strategies as st

from vf.api import Kind, check, ok, rejected, trivial
from vf.lib import bz, history, treemodel as tm

PROPERTY = "C52"
LEVEL = "exploration"
TECHNIQUE = ("Hypothesis-generated histories with tags and a working tree with "
             "pending changes / pending merges in every supported source format; "
             "upgrade to each newer compatible format or a generated walk "
             "through the layout graph with Reconfigure; before/after "
             "comparison of tip, tags, per-revision testaments, tree files and "
             "pending changes")
RULE = ("history_spec (merges, symlinks, exec bits, metadata, tags) built through "
        "a real working tree in one of 8 source formats, then generated pending "
        "edits and an optional pending merge; kind upgrade: upgrade() to a "
        "generated compatible target format (or the default, or the same "
        "format) of a standalone tree, a tree-less branch, a shared repository "
        "with its dependent branches or a lightweight checkout, with the "
        "clean_up and dry_run options; kind reconfigure: 1-6 reconfiguration "
        "steps (branch, tree, checkout, lightweight checkout, standalone, "
        "use-shared, stacked-on, unstacked, with-trees, no-trees; bind "
        "location implicit or explicit; parent in step or behind), one third "
        "starting with a directed pair of transitions. Non-trivial: the history "
        "has a merge and a tag and the tree has a pending rename or pending "
        "merge; or a walk of >= 2 effective transitions. Distinct by case hash.")
ASSUMPTIONS = [
    "StrictTestament3 (root entry with last-changed revision) is compared only "
    "when the root model (rich root or not) is unchanged by the action",
    "the target of an upgrade is not older than the format of any component "
    "it meets (a lightweight checkout whose tree is in a newer format than the "
    "target's makes Convert.convert loop for ever: not generated, see report)",
    "a reconfiguration that destroys the working tree is only compared at branch "
    "level afterwards; when a later step creates a tree again its files must be "
    "the ones that were there when the (clean) tree was destroyed",
]
LEVEL_TEXT = ("Sampled exploration with an exact before/after oracle: nothing the "
              "property names (tip, revno, tags, every revision's testaments, file "
              "bytes and modes, reported pending changes, pending merges) may "
              "differ after an upgrade or a reconfiguration; refusals must change "
              "nothing.")
LEVEL_NOTE = ("Local transports; histories bounded to 6 revisions; formats "
              "pack-0.92, 1.9, 1.9-rich-root, rich-root-pack, 1.14, "
              "1.14-rich-root, knit, 2a; upgrade() is driven on standalone "
              "trees, tree-less branches, shared repositories (with dependents) "
              "and lightweight checkouts.")
REGISTERED = True
NONTRIVIAL_FLOOR = {"quick": 20, "thorough": 200}

SOURCES = ["pack-0.92", "1.9", "1.9-rich-root", "rich-root-pack", "1.14",
           "1.14-rich-root", "knit", "2a"]
RICH = {"1.9-rich-root", "rich-root-pack", "1.14-rich-root", "2a"}
TARGETS = {
    "knit": ["pack-0.92", "1.9", "1.14", "2a"],
    "pack-0.92": ["1.9", "1.14", "2a"],
    "1.9": ["1.14", "2a"],
    "1.14": ["2a"],
    "rich-root-pack": ["1.9-rich-root", "1.14-rich-root", "2a"],
    "1.9-rich-root": ["1.14-rich-root", "2a"],
    "1.14-rich-root": ["2a"],
    "2a": ["development-colo"],
}


def snap_fs(root):
    out = bz.snapshot_fs(root, skip=(".bzr", ".git"))
    return {p: v for p, v in out.items()
            if not p.split("/")[0].startswith("backup.bzr")}


def has_backup(root):
    return any(n.startswith("backup.bzr") for n in os.listdir(root))


def format_markers(root):
    """Bytes of the format files of a control directory."""
    out = {}
    for rel in ("branch-format", "branch/format", "repository/format",
                "checkout/format"):
        p = os.path.join(root, ".bzr", rel)
        if os.path.isfile(p):
            with open(p, "rb") as f:
                out[rel] = f.read().decode("latin-1")
    return out


def observe(path, v3, tree_path=None):
    from breezy import branch as _branch, errors, workingtree
    from breezy.bzr import testament as T
    b = _branch.Branch.open(path)
    out = {}
    with b.lock_read():
        repo = b.repository
        graph = repo.get_graph()
        tip_anc = set(graph.find_unique_ancestors(b.last_revision(),
                                                  [b"null:"]))
        # "every revision": the history of the tip and what the tags name
        anc = set(tip_anc)
        if b.supports_tags():
            for r in sorted(set(b.tags.get_tag_dict().values())):
                if r not in anc and repo.has_revision(r):
                    anc.update(graph.find_unique_ancestors(r, [b"null:"]))
        anc = sorted(anc)
        out["tip_ancestry"] = sorted(r.decode() for r in tip_anc)
        out["repo"] = repo.user_url
        classes = ["Testament", "StrictTestament"] + (
            ["StrictTestament3"] if v3 else [])
        out["testaments"] = {
            c: {r.decode(): getattr(T, c).from_revision(repo, r).as_sha1().decode()
                if isinstance(getattr(T, c).from_revision(repo, r).as_sha1(),
                              bytes)
                else getattr(T, c).from_revision(repo, r).as_sha1()
                for r in anc} for c in classes}
        revno, tip = b.last_revision_info()
        out["tip"] = [revno, tip.decode()]
        out["tags"] = {k: v.decode() for k, v in
                       b.tags.get_tag_dict().items()} if b.supports_tags() else {}
    tree_path = tree_path or path
    try:
        wt = workingtree.WorkingTree.open(tree_path)
    except errors.NoWorkingTree:
        out["tree"] = None
    else:
        with wt.lock_read():
            repo = wt.branch.repository
            parents = wt.get_parent_ids()
            out["tree"] = {
                "changes": bz.iter_changes_canon(wt, wt.basis_tree()),
                "parents": [p.decode() for p in parents],
                # pending merges stay usable: their revisions are still there
                "parents_present": [repo.has_revision(p) for p in parents],
                "conflicts": sorted(
                    (c.typestring, c.path, getattr(c, "conflict_path", None))
                    for c in wt.conflicts())}
    out["fs"] = snap_fs(tree_path)
    return out


def diff(a, b):
    return {k: [a.get(k), b.get(k)] for k in set(a) | set(b)
            if a.get(k) != b.get(k)}


def dd(a, b):
    return diff(a, b) if isinstance(a, dict) and isinstance(b, dict) else [a, b]


class World:
    pass


def build_world(case, env, layout="tree", parent_behind=False):
    """Source history + tags, a parent branch, the tree with its pending
    state.  layout: tree | branch (no working tree) | checkout (the pending
    state lives in a lightweight checkout) | shared-top."""
    from vf.lib import graphmodel as gm
    w = World()
    src = case["source"]
    w.d = d = env.newdir()
    w.top = top = d + "/top"
    os.makedirs(top)
    if case["shared"] and case["shared"] != "late":
        # the branch uses the shared repository above it
        bz.init_repo(top, src, shared=True)
    w.path = path = top + "/t"
    spec = case["spec"]
    wt, models, idmap = _build(spec, path, src)
    if case["shared"] == "late":
        # a shared repository that has none of the revisions yet: the branch
        # keeps its own repository until it is told to use the shared one
        bz.init_repo(top, src, shared=True)
    w.tip = tip = spec["revs"][-1]["id"]
    g = history.graph_of(spec, ghosts=False)
    # the revision of the pending merge: one of the history that the tip has
    # not merged, or an extra one that nothing but the tree will refer to
    extra = None
    want_merge = case["pending_merge"] and not case.get("clean") and \
        layout != "branch"
    tagged_side = None

    def side_revision(rev_id):
        revno, tipid = wt.branch.last_revision_info()
        wt.commit("side", rev_id=bz.enc(rev_id), timestamp=bz.T0 + 77777,
                  timezone=0, committer=bz.COMMITTER, allow_pointless=True)
        wt.branch.set_last_revision_info(revno, tipid)
        wt.set_parent_ids([tipid])
        return rev_id
    if want_merge:
        anc = gm.ancestry(g, tip)
        others = [r["id"] for r in spec["revs"] if r["id"] not in anc]
        extra = others[0] if others else side_revision("extra-rev")
    if case.get("side_tag"):
        # (a revision of its own: the tree's pending merge is carried along
        # by other code than what only a tag names)
        tagged_side = side_revision("tagged-side-rev")
    # a parent branch (gives checkout / stacking something to refer to); the
    # tags are set afterwards, so the parent does not have them already
    lh = gm.lefthand(g, tip)
    if parent_behind and len(lh) >= 2:
        w.parent = wt.branch.controldir.sprout(
            d + "/parent", revision_id=bz.enc(lh[-2])).open_branch()
        w.parent_in_step = False
    else:
        w.parent = wt.branch.controldir.sprout(d + "/parent").open_branch()
        w.parent_in_step = True
    wt.branch.set_parent(w.parent.base)
    if wt.branch.supports_tags():
        for t, r in (spec.get("tags") or {}).items():
            wt.branch.tags.set_tag(t, idmap[r])
        if case.get("side_tag"):
            # a tag on a revision that the tip has not merged: nothing but
            # the tag (and perhaps the tree) refers to it
            wt.branch.tags.set_tag("tside", bz.enc(tagged_side))
    w.tree_path = path
    if layout == "branch":
        wt.branch.controldir.destroy_workingtree()
        return w
    if layout == "checkout":
        # a lightweight checkout whose control directory and tree are in the
        # source format too (create_checkout would make them in the default
        # format, and a target older than that is not an upgrade of the tree:
        # Convert.convert then loops for ever - see the C52 notes)
        from breezy import transport as _t
        w.tree_path = d + "/co"
        t = _t.get_transport(w.tree_path)
        t.ensure_base()
        cd = bz.fmt(src).initialize_on_transport(t)
        cd.set_branch_reference(wt.branch)
        wt = cd.create_workingtree()
    if layout == "shared-top":
        # a second dependent branch of the shared repository
        wt.branch.controldir.sprout(top + "/b2")
    if case.get("clean"):
        return w
    # pending changes (never committed)
    m = tm.clone(models[tip])
    with wt.lock_write():
        bz.apply_ops_wt(wt, m, case["pending"])
        if extra is not None:
            wt.set_parent_ids([bz.enc(tip), bz.enc(extra)])
        if case.get("conflicts"):
            # unresolved conflicts are part of the tree's pending state
            from breezy.bzr import conflicts as _c
            files = sorted(p for p, v in bz.model_snapshot(m).items()
                           if v[0] == "file")
            cl = [_c.TextConflict(p) for p in files[:2]]
            if files:
                cl.append(_c.ContentsConflict(files[-1] + ".moved"))
            wt.set_conflicts(cl)
    bz.age_files(w.tree_path)
    return w


def _build(spec, path, fmt):
    return history.build_wt(spec, path, fmt, tags=False)


# ---------------------------------------------------------------- upgrade

def run_upgrade(case, env):
    from breezy import branch as _branch, controldir, errors
    from breezy import upgrade as _up
    src = case["source"]
    action = case["action"]
    layout = action.get("layout", "tree")
    if layout == "shared-top" and not case["shared"]:
        layout = "tree"
    w = build_world(case, env, layout)
    path = w.path
    rich = src in RICH
    opts = action.get("opts") or {}
    dry_run, clean_up = bool(opts.get("dry_run")), bool(opts.get("clean_up"))
    if opts.get("same"):
        tgt, fmt_arg, tgt_rich = src, bz.fmt(src), rich
    elif opts.get("default"):
        tgt, fmt_arg = "default", None
        # (upgrade() picks default-rich-root or default by the source)
        tgt_rich = controldir.format_registry.make_controldir(
            "default-rich-root" if rich else "default"
        ).repository_format.rich_root_data
    else:
        tgt = TARGETS[src][action["target"] % len(TARGETS[src])]
        fmt_arg = bz.fmt(tgt)
        tgt_rich = tgt in RICH or tgt == "development-colo"
    same_root = tgt_rich == rich
    url = {"tree": path, "branch": path, "checkout": w.tree_path,
           "shared-top": w.top}[layout]
    roots = sorted({url, w.tree_path, path})     # control dirs that may change
    ctx = [src, tgt, layout, sorted(k for k, v in opts.items() if v)]
    before = observe(path, v3=same_root, tree_path=w.tree_path)
    marks = {r: format_markers(r) for r in roots}
    try:
        excs = _up.upgrade(url, fmt_arg, clean_up=clean_up, dry_run=dry_run)
    except errors.BzrError as e:
        excs = [e]
    except OSError as e:
        # (the transport's OSError carries the errno in its text only)
        if layout != "shared-top" or not (
                e.errno == errno.ELOOP or
                "os error %d)" % errno.ELOOP in str(e)):
            raise
        # open finding: looking for the dependent branches of a shared
        # repository walks into the working trees below it and trips over a
        # symbolic link that points at itself
        after = observe(path, v3=same_root, tree_path=w.tree_path)
        check(after == before, "C52/refused-upgrade-changed-something",
              [ctx, "ELOOP", diff(before, after)])
        check(False, "C52/upgrade-of-shared-repository-crashes-on-a-symlink-"
              "loop-in-a-working-tree-below-it", [ctx, str(e)[:200]])
    if excs:
        # upgrade() reports the errors of the conversions it attempted: a
        # refusal (or a failed conversion) must leave everything as it was
        for e in excs:
            if not isinstance(e, errors.BzrError):
                raise e
        after = observe(path, v3=same_root, tree_path=w.tree_path)
        check(after == before, "C52/refused-upgrade-changed-something",
              [ctx, [type(e).__name__ for e in excs], diff(before, after)])
        return rejected("upgrade-error:%s" % "+".join(
            sorted({type(e).__name__ for e in excs})))
    after = observe(path, v3=same_root, tree_path=w.tree_path)
    for k in ("tip", "tags", "testaments", "tree", "fs"):
        check(after[k] == before[k], "C52/upgrade-changed-%s" % k,
              [ctx, dd(before[k], after[k])])
    if dry_run:
        check({r: format_markers(r) for r in roots} == marks,
              "C52/dry-run-upgrade-converted-something",
              [ctx, marks, {r: format_markers(r) for r in roots}])
        check(not any(has_backup(r) for r in roots),
              "C52/dry-run-upgrade-made-a-backup", ctx)
        return ok("upgrade-dry-run:%s" % layout)
    converted = {r: format_markers(r) != marks[r] for r in roots}
    if not any(converted.values()):
        # nothing needed converting (same format, or default == source)
        return ok("upgrade-up-to-date") if opts.get("same") else trivial()
    # (a lightweight checkout's branch is converted in place, in its own
    # control directory, by the conversion of the checkout; the backup is
    # made where upgrade() was pointed at, and in the dependents it found)
    for r in roots:
        if converted[r] and (r == url or layout == "shared-top"):
            check(has_backup(r) == (not clean_up),
                  "C52/no-backup-after-upgrade" if not clean_up else
                  "C52/backup-left-after-clean-up", [ctx, r, os.listdir(r)])
    b = _branch.Branch.open(path)
    b.repository.check([b.last_revision()])
    return ok("upgrade:%s->%s%s%s" % (
        src, tgt, "" if layout == "tree" else ":" + layout,
        ":clean-up" if clean_up else ""))


# ---------------------------------------------------------------- reconfigure

STEPS = ["branch", "tree", "checkout", "lightweight", "standalone",
         "use-shared", "stacked", "unstacked", "with-trees", "no-trees",
         "checkout-to", "lightweight-to"]
DIRECTED = [
    ["standalone", "use-shared"], ["use-shared", "standalone"],
    ["use-shared"], ["use-shared", "lightweight"], ["use-shared", "checkout"],
    ["branch", "tree"], ["branch", "checkout"], ["branch", "lightweight"],
    ["lightweight", "tree"], ["lightweight", "branch"],
    ["lightweight", "checkout"], ["lightweight-to", "standalone", "tree"],
    ["checkout", "lightweight", "checkout"], ["checkout-to", "branch", "tree"],
    ["stacked", "standalone", "unstacked"], ["stacked", "lightweight"],
    ["no-trees", "with-trees"], ["standalone", "lightweight", "use-shared"],
]


def run_reconfigure(case, env):
    from breezy import branch as _branch, controldir, errors
    from breezy import reconfigure as _rc
    src = case["source"]
    action = case["action"]
    w = build_world(case, env, "tree",
                    parent_behind=bool(action.get("parent_behind")))
    path, parent = w.path, w.parent
    labels = []
    effective = 0
    fs_at_destroy = None
    deferred = []
    for step in action["steps"]:
        cd = controldir.ControlDir.open(path)
        pre = observe(path, v3=True)
        try:
            if step == "branch":
                _rc.Reconfigure.to_branch(cd).apply(force=False)
            elif step == "tree":
                _rc.Reconfigure.to_tree(cd).apply(force=False)
            elif step == "checkout":
                _rc.Reconfigure.to_checkout(cd).apply(force=False)
            elif step == "checkout-to":
                _rc.Reconfigure.to_checkout(cd, parent.base).apply(force=False)
            elif step == "lightweight":
                _rc.Reconfigure.to_lightweight_checkout(cd).apply(
                    force=False)
            elif step == "lightweight-to":
                _rc.Reconfigure.to_lightweight_checkout(
                    cd, parent.base).apply(force=False)
            elif step == "standalone":
                _rc.Reconfigure.to_standalone(cd).apply(force=False)
            elif step == "use-shared":
                _rc.Reconfigure.to_use_shared(cd).apply(force=False)
            elif step == "stacked":
                try:
                    _rc.ReconfigureStackedOn().apply(cd, parent.base)
                except errors.IncompatibleRepositories as e:
                    # documented refusal of stacking across repository models;
                    # accepted only when the two repositories really differ in
                    # rich-root support (to_standalone of a lightweight
                    # checkout creates a default-format repository, whatever
                    # the format of the branch it referred to)
                    mine = _branch.Branch.open(path).repository
                    theirs = parent.repository
                    # (Repository._assert_same_model: rich-root support,
                    # serializers, tree-reference support)
                    check(mine.supports_rich_root() !=
                          theirs.supports_rich_root() or
                          getattr(mine, "_inventory_serializer", None) != getattr(
                              theirs, "_inventory_serializer", None),
                          "C52/stacking-on-a-compatible-repository-refused",
                          [src, action["steps"], str(e)[:300]])
                    raise _rc.ReconfigurationNotSupported(cd) from None
            elif step == "unstacked":
                _rc.ReconfigureUnstacked().apply(cd)
            elif step in ("with-trees", "no-trees"):
                try:
                    cd.find_repository()
                    no_repo = False
                except errors.NoRepositoryPresent:
                    no_repo = True
                try:
                    _rc.Reconfigure.set_repository_trees(
                        cd, step == "with-trees").apply(force=False)
                except AttributeError as e:
                    if not no_repo:
                        raise
                    # open finding (reported at the end of the case): a
                    # lightweight checkout with no repository above it is
                    # answered with an internal error, not with a refusal
                    deferred.append((
                        "C52/set-repository-trees-without-a-repository-"
                        "raises-AttributeError", [src, step, str(e)[:200]]))
                    raise _rc.ReconfigurationNotSupported(cd) from None
            effective += 1
            labels.append(step)
        except (_rc.BzrDirError, errors.UncommittedChanges,
                _branch.UnstackableBranchFormat,
                errors.UnstackableRepositoryFormat, errors.NotStacked,
                errors.NoRepositoryPresent, errors.UpgradeRequired,
                errors.UnstackableLocationError,
                errors.NotBranchError) as e:
            # NotBranchError: use-shared without a shared repository above
            if isinstance(e, errors.NotBranchError):
                check(step == "use-shared" and not case["shared"],
                      "C52/exc:NotBranchError-from-reconfigure",
                      [src, step, str(e)[:200]])
            if isinstance(e, _rc.UnsyncedBranches):
                check(not w.parent_in_step,
                      "C52/in-step-branches-reported-unsynced",
                      [src, action["steps"], step])
            post = observe(path, v3=True)
            if isinstance(e, (errors.UpgradeRequired, _rc.NoBindLocation)) \
                    and step in ("checkout", "checkout-to") and \
                    pre["tree"] is None and post["tree"] is not None and \
                    all(post[k] == pre[k] for k in ("tip", "tags",
                                                    "testaments")):
                # open findings (reported at the end of the case): apply()
                # binds last - that the branch format cannot be bound, or
                # that there is no location to bind to, is noticed only after
                # the working tree has been created
                deferred.append((
                    "C52/refused-reconfigure-to-checkout-left-a-new-working-"
                    "tree-behind" if isinstance(e, errors.UpgradeRequired) else
                    "C52/reconfigure-to-checkout-without-a-bind-location-left-"
                    "a-new-working-tree-behind",
                    [src, action["steps"], step]))
            else:
                check(post == pre, "C52/refused-reconfigure-changed-something",
                      [src, step, type(e).__name__, diff(pre, post)])
            labels.append("%s-refused:%s" % (step, type(e).__name__))
            continue
        post = observe(path, v3=True)
        # (turning a tree into a plain branch removes the working files by
        # design - only allowed without uncommitted changes - and turning
        # it back re-creates them from the tip)
        keys = ["tip", "tags", "testaments"]
        if pre["tree"] is not None and post["tree"] is not None:
            keys.append("fs")
        # every revision that had a testament still has it, unaltered
        # (a repository that knows more revisions may make more tags resolve)
        lost = sorted(set(pre["testaments"]["Testament"]) -
                      set(post["testaments"]["Testament"]))
        altered = {c: {r: [v, post["testaments"][c].get(r)]
                       for r, v in pre["testaments"][c].items()
                       if r not in lost and post["testaments"][c].get(r) != v}
                   for c in pre["testaments"]}
        check(not any(altered.values()),
              "C52/reconfigure-%s-changed-testaments" % step,
              [src, action["steps"], altered])
        keys.remove("testaments")
        if lost:
            from breezy import repository as _repository
            try:
                old = _repository.Repository.open(pre["repo"])
                left_behind = all(old.has_revision(bz.enc(r)) for r in lost)
            except (errors.NoRepositoryPresent, errors.NotBranchError):
                left_behind = False
            if left_behind and post["repo"] != pre["repo"] and \
                    not set(lost) & set(pre["tip_ancestry"]):
                # open finding (reported at the end of the case): the
                # repository the branch moves to is filled from the branch tip
                # (and the pending merges) only - revisions that only a tag
                # names stay behind in the repository it used before
                deferred.append((
                    "C52/reconfigure-to-another-repository-leaves-tagged-"
                    "revisions-behind", [src, action["steps"], step, lost]))
            else:
                check(False, "C52/reconfigure-%s-lost-revisions" % step,
                      [src, action["steps"], lost, pre["repo"], post["repo"]])
        for k in keys:
            check(post[k] == pre[k], "C52/reconfigure-%s-changed-%s" % (
                step, k), [src, action["steps"], dd(pre[k], post[k])])
        if pre["tree"] is not None and post["tree"] is not None:
            check(post["tree"] == pre["tree"],
                  "C52/reconfigure-%s-changed-pending-changes" % step,
                  [src, action["steps"], pre["tree"], post["tree"]])
        elif pre["tree"] is not None:
            # destroyed: it had no changes (or the step had been refused)
            check(pre["tree"]["changes"] == [] and
                  len(pre["tree"]["parents"]) <= 1,
                  "C52/reconfigure-%s-destroyed-a-tree-with-changes" % step,
                  [src, action["steps"], pre["tree"]])
            fs_at_destroy = pre["fs"]
        elif post["tree"] is not None and fs_at_destroy is not None:
            # created again: the content of the tip, as it was before
            check(post["fs"] == fs_at_destroy,
                  "C52/tree-created-by-reconfigure-%s-differs-from-the-one-"
                  "destroyed" % step,
                  [src, action["steps"], diff(fs_at_destroy, post["fs"])])
            check(post["tree"]["changes"] == [] and
                  post["tree"]["parents"] == [post["tip"][1]],
                  "C52/tree-created-by-reconfigure-%s-reports-changes" % step,
                  [src, action["steps"], post["tree"]])
            labels.append("tree-recreated")
    if deferred:
        check(False, *deferred[0])
    if effective < 1:
        return trivial()
    return ok("+".join(labels)[:160])


# ---------------------------------------------------------------- generators

@st.composite
def _base(draw):
    # the oldest formats go through the most conversion steps
    src = draw(st.sampled_from(SOURCES + ["knit", "knit", "pack-0.92"]))
    spec = draw(history.history_spec(
        n_min=2, n_max=5, merges=True, ghosts=False, symlinks=True, execs=True,
        odd_names=False, meta=True, tags=True, ops_max=3, base_max=5))
    models = history.models_of(spec)
    m = tm.clone(models[spec["revs"][-1]["id"]])
    ids = tm.IdSource(prefix="p")
    pending = tm.draw_ops(draw, m, ids, n_min=0, n_max=4, symlinks=True,
                          execs=True, odd_names=False)
    return {"source": src, "spec": spec, "pending": pending,
            "pending_merge": draw(st.sampled_from([False, True])),
            "conflicts": draw(st.sampled_from([False, True])),
            "shared": draw(st.sampled_from([False, True])),
            "side_tag": draw(st.sampled_from([False, True]))}


@st.composite
def upgrade_cases(draw):
    case = draw(_base())
    layout = draw(st.sampled_from(["tree", "tree", "tree", "branch",
                                   "checkout", "shared-top", "shared-top"]))
    if layout == "shared-top":
        case["shared"] = True
    opt = draw(st.sampled_from(["", "", "", "", "", "dry_run", "clean_up",
                                "clean_up", "default", "same"]))
    case["action"] = {"kind": "upgrade",
                      "target": draw(st.sampled_from([0, 1, 2, 3])),
                      "layout": layout,
                      "opts": {opt: True} if opt else {}}
    return case


@st.composite
def reconfigure_cases(draw):
    case = draw(_base())
    case["clean"] = draw(st.sampled_from([False, False, True]))
    steps = draw(st.lists(st.sampled_from(STEPS), min_size=1, max_size=5))
    if case["shared"] and draw(st.booleans()):
        case["shared"] = "late"
    if draw(st.sampled_from([True, False, False])):
        steps = list(draw(st.sampled_from(DIRECTED))) + steps[:3]
        if steps[0] == "use-shared":
            case["shared"] = "late"
        elif steps[0] == "no-trees" or "use-shared" in steps[:3]:
            case["shared"] = case["shared"] or True
    if case["shared"] == "late" and "use-shared" not in steps[:2] and \
            draw(st.booleans()):
        # the empty shared repository is there to be moved into
        steps.insert(draw(st.sampled_from([0, 0, 1])), "use-shared")
    case["action"] = {"kind": "reconfigure", "steps": steps[:6],
                      "parent_behind": draw(st.sampled_from(
                          [False, False, False, True]))}
    return case


def run(case, env):
    if case["action"]["kind"] == "upgrade":
        return run_upgrade(case, env)
    return run_reconfigure(case, env)


def kinds(tier):
    # (one kind, so that the saved regression cases of kind "convert" keep
    # being replayed)
    return [
        Kind("convert", run,
             strategy=st.one_of(upgrade_cases(), reconfigure_cases()),
             examples={"quick": 480, "thorough": 8000}),
    ]
