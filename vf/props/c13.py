"""C13 - applying a tree transform is all-or-nothing on the file system, and
the versioning metadata always agrees with the files on disk."""

import os
import shutil

from hypothesis import strategies as st

from vf.api import Kind, ok, rejected, trivial, violation
from vf.lib import bz
from vf.lib import c13_tt as X
from vf.lib import treemodel as tm

PROPERTY = "C13"
LEVEL = "fault_enumeration"
TECHNIQUE = ("record the OS calls made inside TreeTransform.apply(), then one "
             "run per call index with that call failing; disk and versioning "
             "snapshots compared with the pre-apply / fully applied ones")
RULE = ("generated: a committed tree (2a or git; files, directories, symlinks, "
        "exec bits) and a transform that creates, deletes (files and non-empty "
        "directories), renames, re-parents, swaps, changes kind, content and "
        "exec bits - built through the TreeTransform API from a model diff, or "
        "by WorkingTree.revert over the same uncommitted changes; for each "
        "transform EVERY index k of the rename / delete_any / chmod calls made "
        "inside apply() is failed once (EACCES, EIO for chmod). Non-trivial: "
        "transform with >= 3 file-system calls of >= 2 kinds and k strictly "
        "inside the sequence. Distinct by case hash x index.")
ASSUMPTIONS = [
    "only calls made by the transform itself fail (wrappers armed by the "
    "pre_transform hook), the failing call has no effect, and no second "
    "failure happens during rollback",
]
LEVEL_TEXT = ("For each generated transform the complete single-failure space "
              "of its apply() is enumerated: every rename into limbo or the "
              "pending-deletion directory, every rename into place, every "
              "chmod and every deferred deletion fails once, and the resulting "
              "tree is compared exactly with the untouched or the fully "
              "applied tree. Transforms themselves are sampled.")
LEVEL_NOTE = ("Exhaustive per transform, sampled over transforms; double "
              "faults and failures inside rollback are outside the property.")
REGISTERED = True
NONTRIVIAL_FLOOR = {"quick": 1200, "thorough": 10000}

SIG_F8 = "C13/deletion-failure-before-inventory-update"
SIG_F19 = "C13/exec-bit-not-rolled-back"
# reported last inside a block so that anything else found in the same
# transform is not hidden behind them (they are still reported)
REPORT_LAST = (SIG_F8, SIG_F19)


def _expected_errors():
    from breezy.transform import TransformRenameFailed
    return (TransformRenameFailed, X.InjectedFault)


class Scenario:
    """Knows how to (re)create the pre-state in a directory and how to run
    the operation that applies a transform there."""

    def __init__(self, case, env):
        self.case = case
        self.root = env.newdir("c13")
        self.pristine = os.path.join(self.root, "pristine")
        self.work = os.path.join(self.root, "work")
        wt, self.base = X.build_tree(self.pristine, case["fmt"], case["base"])
        self.final = X.apply_xops(tm.clone(self.base), case["ops"])
        if case["via"] == "revert":
            # uncommitted changes made with plain tree operations
            m = tm.clone(self.base)
            with wt.lock_write():
                bz.apply_ops_wt(wt, m, case["ops"],
                                use_ids=wt.supports_setting_file_ids())
            bz.age_files(self.pristine)
        del wt

    def fresh(self):
        shutil.rmtree(self.work, ignore_errors=True)
        shutil.copytree(self.pristine, self.work, symlinks=True)
        return self.work

    def apply(self, path, at=None):
        """-> (OSFaults, raised)"""
        from breezy import errors
        from breezy.transform import ImmortalLimbo
        wt = bz.open_tree(path)
        raised = None
        self.immortal = None
        if self.case["via"] == "revert":
            with X.OSFaults(at=at) as f:
                try:
                    with wt.lock_tree_write():
                        wt.revert(backups=bool(self.case.get("backups")))
                except _expected_errors() as e:
                    raised = e
                except errors.ImmortalPendingDeletion as e:
                    # revert's own finalize(), see below
                    raised = e
                    self.immortal = "pending-deletion"
                except ImmortalLimbo as e:
                    raised = e
                    self.immortal = "limbo"
            return f, raised
        tt = wt.transform()
        try:
            X.transform_from_diff(tt, self.base, self.final,
                                  set_ids=wt.supports_setting_file_ids())
            if at is None:
                conflicts = tt.find_raw_conflicts()
                if conflicts:
                    return None, conflicts
            with X.OSFaults(at=at) as f:
                try:
                    tt.apply()
                except _expected_errors() as e:
                    raised = e
        finally:
            try:
                tt.finalize()
            except errors.ImmortalPendingDeletion:
                # documented: the directory with the not yet discarded
                # content is left for the user to examine
                self.immortal = "pending-deletion"
            except ImmortalLimbo:
                self.immortal = "limbo"
        return f, raised

    def state(self, path):
        return bz.snapshot_fs(path), X.versioned_snapshot(path)


def diff(a, b):
    return {k: [a.get(k), b.get(k)] for k in sorted(set(a) | set(b))
            if a.get(k) != b.get(k)}


def only_exec_differs(fs0, fs1):
    if set(fs0) != set(fs1):
        return False
    for k in fs0:
        if fs0[k][:2] != fs1[k][:2]:
            return False
    return fs0 != fs1


def run_block(case, env):
    sc = Scenario(case, env)
    fs0, v0 = sc.state(sc.fresh())
    f, raised = sc.apply(sc.work)
    if f is None:
        return rejected("raw-conflicts:" + ",".join(
            sorted({c[0] for c in raised})))
    if raised is not None:
        raise raised
    log = f.log
    total = len(log)
    fs_after, v_after = sc.state(sc.work)
    if total == 0:
        return trivial()
    found = []

    def bad(k, sig, detail):
        found.append((k, sig, [case, k, [list(x[:1]) + [
            os.path.relpath(p, sc.work) for p in x[1:] if p.startswith("/")]
            for x in log], detail]))

    for k in range(total):
        name = log[k][0]
        path = sc.fresh()
        f, raised = sc.apply(path, at=k)
        fs1, v1 = sc.state(path)
        left = X.control_leftovers(path)
        if not f.fired:
            bad(k, "C13/operation-sequence-not-reproducible", [len(f.log)])
            continue
        if raised is None:
            bad(k, "C13/failure-swallowed:" + name, None)
        if name == "delete_any":
            # the transform is committed on disk: metadata must follow
            if fs1 != fs_after:
                bad(k, "C13/deletion-failure-disk-not-in-transformed-layout",
                    diff(fs_after, fs1))
            if v1 != v_after:
                if v1 == v0:
                    bad(k, SIG_F8, diff(v_after[0], v1[0]))
                else:
                    bad(k, "C13/deletion-failure-metadata-neither-old-nor-new",
                        [diff(v_after[0], v1[0]), v1[1]])
            continue
        exec_only = False
        if fs1 != fs0:
            if only_exec_differs(fs0, fs1):
                exec_only = True
                bad(k, SIG_F19, diff(fs0, fs1))
            else:
                bad(k, "C13/pre-commit-failure-not-restored:" + name,
                    diff(fs0, fs1))
                continue
        if v1 != v0:
            bad(k, "C13/pre-commit-failure-metadata-changed:" + name,
                [diff(v0[0], v1[0]), v0[1], v1[1]])
            continue
        if left or sc.immortal:
            bad(k, "C13/limbo-left-after-finalize", [left, sc.immortal])
            continue
        # a retry without the fault gives the transformed state
        f2, raised2 = sc.apply(path)
        if f2 is None or raised2 is not None:
            bad(k, "C13/retry-after-failure-fails", repr(raised2)[:300])
            continue
        fs2, v2 = sc.state(path)
        if fs2 != fs_after or v2 != v_after:
            bad(k, "C13/retry-after-failure-differs" + (
                "-after-exec-bit-leak" if exec_only else ""),
                [diff(fs_after, fs2), diff(v_after[0], v2[0])])
    kinds = {x[0] for x in log}
    phases = set()
    for x in log:
        if x[0] == "delete_any":
            phases.add("deletions")
        elif x[0] == "chmod":
            phases.add("chmod")
        elif "pending-deletion" in x[2]:
            phases.add("pre-delete")
        elif "limbo" in x[2]:
            phases.add("to-limbo")
        else:
            phases.add("into-place")
    nt = max(0, total - 2) if total >= 3 and len(
        kinds | (phases - {"deletions", "chmod"})) >= 2 else 0
    label = "%s:%s:%s" % (case["via"], case["fmt"], "+".join(sorted(phases)))
    if found:
        rest = [x for x in found if x[1] not in REPORT_LAST]
        k, sig, detail = (rest or found)[0]
        out = violation(sig, detail, label=label if nt else None)
    else:
        out = ok(label) if nt else trivial()
    out.n = total
    out.nt = nt if nt else None
    return out


@st.composite
def gen_case(draw):
    fmt = draw(st.sampled_from(["2a", "2a", "git"]))
    # (git does not version empty directories: plain tree operations on them
    # are refused, so uncommitted changes are only staged on bzr trees)
    via = draw(st.sampled_from(["tt", "tt", "revert"])) if fmt != "git" \
        else "tt"
    ids = tm.IdSource()
    m = tm.new_model()
    kw = dict(odd_names=False, max_depth=2)
    base = []
    for _ in range(draw(st.integers(4, 9))):
        op = X.safe_op(m, tm.draw_op(
            draw, m, ids, kinds=["add", "add", "add", "add_dir"], **kw))
        if op is None:
            continue
        tm.apply_op(m, op)
        base.append(op)
    ops = []
    n = draw(st.integers(3, 8))
    for _ in range(n):
        if via == "tt" and draw(st.integers(0, 3)) == 0:
            op = X.draw_xop(draw, m)
        else:
            op = tm.draw_op(draw, m, ids, **kw)
        if op is None:
            continue
        op = X.safe_op(m, op)
        if op is None:
            continue          # would make a symlink resolve through itself
        X.apply_xop(m, op)
        ops.append(op)
    case = {"fmt": fmt, "via": via, "base": base, "ops": ops}
    if via == "revert":
        case["backups"] = draw(st.booleans())
    return case


def kinds(tier):
    return [
        Kind("fault-blocks", run_block, strategy=gen_case(),
             examples={"quick": 360, "thorough": 3000}),
    ]
