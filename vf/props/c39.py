"""C39 - diffs apply back to the text they describe: internal_diff /
unified_diff_bytes -> parse_patch -> iter_patched(_from_hunks) round trip,
re-serialisation fixpoint, statistics, and conflict detection on every
single-line perturbation of the old text."""

import io
import itertools
import re

from hypothesis import strategies as st

from vf.api import Kind, b2s, check, ok, s2b, trivial, violation

PROPERTY = "C39"
LEVEL = "exploration"
TECHNIQUE = ("round trip + re-parse fixpoint + metamorphic perturbation against "
             "an independent exact-patching reference; Hypothesis pairs and an "
             "exhaustive small-alphabet enumeration")
RULE = ("generated: old text of 0-14 lines over a 14-line alphabet (plain lines, "
        "lines that look like diff syntax '+', '-', '@@', '\\\\ No newline', CR "
        "lines, blank), new text = 0-5 edits of old or independent, optional "
        "missing final newline on either side, context 0-5, patience or difflib "
        "matcher; 'perturbed' evaluates every single-line change / insert / "
        "delete / truncation / final-newline flip of old against the diff. "
        "enumerated: all pairs of sequences of <= 3 (quick) / 5 (thorough) lines "
        "over 3 lines with both final-newline variants x context 0..3 (0..5). "
        "Labels: plain, 'path<TAB>date', with spaces, non-ASCII, /dev/null (names "
        "and timestamps must survive parse and re-serialisation). 'long': texts "
        "of 8-12 / 98-102 / 120 lines edited around lines 9/10 and 99/100 "
        "(header digit counts change), truncations at every hunk edge. "
        "Non-trivial: diff with >= 2 hunks or a no-newline marker (perturbed: "
        "additionally at least one perturbation that must conflict and one that "
        "must apply). Distinct by case hash / by construction (enumeration).")
ASSUMPTIONS = [
    "texts are sequences of lines that each end in \\n except possibly the "
    "last (what file.readlines() gives); diff text is split at \\n only",
    "the reference patcher in this module (strict positional matching, hunk "
    "start = 1-based first line as breezy's generator writes it) defines "
    "'matches its context'",
]
LEVEL_TEXT = ("Sampled pairs of texts with a generator biased to several hunks, "
              "diff-syntax look-alike lines and missing final newlines, plus a "
              "complete enumeration of all pairs of short texts over three "
              "lines; for every pair all single-line perturbations of the old "
              "text are decided against an independent exact patcher. Sampling "
              "beyond the enumerated bound, hence exploration.")
LEVEL_NOTE = ("Trusts the harness' own unified-diff reader and positional "
              "patcher (60 lines, self-checked on the unperturbed text); "
              "patiencediff and difflib are trusted only to produce *some* "
              "opcodes - a wrong diff is caught by the round trip.")
REGISTERED = True
NONTRIVIAL_FLOOR = {"quick": 2000, "thorough": 50000}

NO_NL = b"\\ No newline at end of file\n"
ALPHA = [b"a\n", b"b\n", b"c\n", b"d\n", b"+x\n", b"-y\n", b"@@ -1 +1 @@\n",
         b"\\ No newline at end of file\n", b"cr\r\n", b"x\ry\n", b" \n", b"\n",
         b"--- a\n", b"+++ b\n"]
FRESH = b"q\n"          # never part of a generated text


# ---------------------------------------------------------------- reference

def split_nl(data):
    """Split at \\n only, keeping the terminator (file.readlines())."""
    parts = data.split(b"\n")
    out = [p + b"\n" for p in parts[:-1]]
    if parts[-1]:
        out.append(parts[-1])
    return out


_HDR = re.compile(rb"@@ -(\d+)(?:,(\d+))? \+(\d+)(?:,(\d+))? @@\n\Z")


def ref_parse(d):
    """Independent reader of the unified diff written by internal_diff.
    -> list of (orig_pos, orig_range, mod_pos, mod_range, [(kind, content)])"""
    lines = split_nl(d)
    check(len(lines) >= 3 and lines[0].startswith(b"--- ")
          and lines[1].startswith(b"+++ "), "C39/diff-header-malformed", b2s(d))
    i = 2
    hunks = []
    while i < len(lines):
        if lines[i] == b"\n":
            i += 1
            check(i == len(lines), "C39/diff-blank-line-inside", b2s(d))
            break
        m = _HDR.match(lines[i])
        check(m is not None, "C39/diff-hunk-header-malformed", b2s(d))
        opos = int(m.group(1))
        orng = 1 if m.group(2) is None else int(m.group(2))
        mpos = int(m.group(3))
        mrng = 1 if m.group(4) is None else int(m.group(4))
        i += 1
        body = []
        o = n = 0
        while o < orng or n < mrng:
            check(i < len(lines), "C39/diff-hunk-shorter-than-header", b2s(d))
            ln = lines[i]
            i += 1
            kind = ln[:1]
            check(kind in (b" ", b"+", b"-"), "C39/diff-body-line-malformed",
                  b2s(d))
            content = ln[1:]
            if i < len(lines) and lines[i] == NO_NL:
                check(content.endswith(b"\n"), "C39/diff-marker-misplaced",
                      b2s(d))
                content = content[:-1]
                i += 1
            body.append((kind, content))
            if kind in (b" ", b"-"):
                o += 1
            if kind in (b" ", b"+"):
                n += 1
        check(o == orng and n == mrng, "C39/diff-hunk-ranges-disagree-with-body",
              b2s(d))
        hunks.append((opos, orng, mpos, mrng, body))
    return hunks


def ref_apply(text, hunks):
    """Exact positional patching. -> ("ok", lines) or ("conflict", reason)."""
    pos = 0
    out = []
    for opos, _orng, _mpos, _mrng, body in hunks:
        while pos + 1 < opos:
            if pos >= len(text):
                return "conflict", "eof-before-hunk"
            out.append(text[pos])
            pos += 1
        for kind, content in body:
            if kind == b"+":
                out.append(content)
                continue
            if pos >= len(text):
                return "conflict", "eof-inside-hunk"
            if text[pos] != content:
                return "conflict", "mismatch"
            if kind == b" ":
                out.append(content)
            pos += 1
    out.extend(text[pos:])
    return "ok", out


def covered(hunks):
    """0-based indexes of old lines named by a context or removal line."""
    cov = set()
    for opos, _orng, _mpos, _mrng, body in hunks:
        p = max(opos - 1, 0)
        for kind, _c in body:
            if kind != b"+":
                cov.add(p)
                p += 1
    return cov


# ---------------------------------------------------------------- subject

def _matcher(name):
    if name == "difflib":
        import difflib
        return difflib.SequenceMatcher
    import patiencediff
    return patiencediff.PatienceSequenceMatcher


# (old label, new label) as callers pass them: show_diff_trees writes
# "path<TAB>date"; a label may hold spaces and non-ASCII characters
LABELS = [
    ("old", "new"),
    ("a/dir/f.txt\t2010-01-01 00:00:00 +0000",
     "b/dir/f.txt\t2010-01-02 12:34:56 -0330"),
    ("old name with spaces", "new name with spaces\t1970-01-01 00:00:00 +0000"),
    ("d\u00e4r/\u00e4\t2010-01-01 00:00:00 +0000", "d\u00e4r/\u00e4"),
    ("/dev/null", "new@@file"),
]


def make_diff(old, new, ctx, matcher, labels=0):
    from breezy import diff
    out = io.BytesIO()
    ol, nl = LABELS[labels]
    diff.internal_diff(ol, list(old), nl, list(new), out,
                       context_lines=ctx, sequence_matcher=_matcher(matcher))
    return out.getvalue()


def _name_ts(label):
    b = label.encode("utf8")
    if b"\t" in b:
        name, ts = b.split(b"\t")
        return name, ts
    return b, None


def hunk_key(h):
    return (h.orig_pos, h.orig_range, h.mod_pos, h.mod_range, h.tail,
            [(type(ln).__name__, ln.contents) for ln in h.lines])


def _show(old, new, ctx, extra=None):
    d = {"old": [b2s(x) for x in old], "new": [b2s(x) for x in new],
         "ctx": ctx}
    if extra is not None:
        d["extra"] = extra
    return d


def roundtrip(old, new, ctx, matcher, labels=0):
    """All laws on the unperturbed pair. -> (diff bytes, ref hunks) ; d == b''
    when the texts are equal."""
    from breezy import diff, patches
    d = make_diff(old, new, ctx, matcher, labels)
    info = _show(old, new, ctx, {"labels": labels} if labels else None)
    if old == new:
        check(d == b"", "C39/equal-texts-nonempty-diff", [info, b2s(d)])
        return d, []
    check(d != b"", "C39/different-texts-empty-diff", info)
    # unified_diff_bytes is what internal_diff serialises
    ud = list(diff.unified_diff_bytes(list(old), list(new), fromfile=b"old",
                                      tofile=b"new", n=ctx,
                                      sequencematcher=_matcher(matcher)))
    check(len(ud) >= 3, "C39/unified_diff_bytes-empty-for-different-texts", info)
    rh = ref_parse(d)
    check(len(rh) >= 1, "C39/diff-without-hunks", [info, b2s(d)])
    st_, out = ref_apply(list(old), rh)
    check(st_ == "ok" and b"".join(out) == b"".join(new),
          "C39/diff-does-not-describe-new-text", [info, b2s(d), st_])
    dl = split_nl(d)
    # parse + apply with breezy's patcher
    p = patches.parse_patch(iter(dl))
    got = b"".join(patches.iter_patched_from_hunks(list(old), p.hunks))
    check(got == b"".join(new), "C39/apply-parsed-hunks-wrong-text",
          [info, b2s(d), b2s(got)])
    got2 = b"".join(patches.iter_patched(list(old), iter(dl)))
    check(got2 == b"".join(new), "C39/iter_patched-wrong-text",
          [info, b2s(d), b2s(got2)])
    # fixpoint of re-serialisation
    ser = p.as_bytes()
    p2 = patches.parse_patch(iter(split_nl(ser)))
    k1 = [hunk_key(h) for h in p.hunks]
    k2 = [hunk_key(h) for h in p2.hunks]
    check(k1 == k2, "C39/reserialised-diff-parses-to-different-hunks",
          [info, b2s(d), b2s(ser)])
    check((p2.oldname, p2.newname, p2.oldts, p2.newts) ==
          (p.oldname, p.newname, p.oldts, p.newts),
          "C39/reserialised-diff-names-differ", [info, b2s(ser)])
    want_names = _name_ts(LABELS[labels][0]) + _name_ts(LABELS[labels][1])
    check((p.oldname, p.oldts, p.newname, p.newts) == want_names,
          "C39/parsed-names-differ-from-labels",
          [info, [repr(x) for x in (p.oldname, p.oldts, p.newname, p.newts)]])
    check(p2.as_bytes() == ser, "C39/reserialisation-not-idempotent",
          [info, b2s(ser)])
    # statistics
    ins = sum(1 for h in rh for k, _c in h[4] if k == b"+")
    rem = sum(1 for h in rh for k, _c in h[4] if k == b"-")
    sv = tuple(p.stats_values())
    check(sv == (ins, rem, len(rh)), "C39/stats-differ-from-changed-line-counts",
          [info, list(sv), [ins, rem, len(rh)]])
    check(ins - rem == len(new) - len(old),
          "C39/stats-inconsistent-with-text-lengths", [info, ins, rem])
    return d, rh


def label_of(d, rh):
    multi = len(rh) >= 2
    nonl = NO_NL in split_nl(d)
    if multi and nonl:
        return "multi-hunk+no-newline"
    if multi:
        return "multi-hunk"
    if nonl:
        return "no-newline"
    return None


def perturbations(old):
    """Every single-line perturbation of old: (name, perturbed lines)."""
    n = len(old)
    last_open = bool(old) and not old[-1].endswith(b"\n")
    body_n = n - 1 if last_open else n      # lines that end in \n
    for i in range(n):
        for repl in (FRESH, b"a\n", b"b\n"):
            if i == n - 1 and last_open:
                repl = repl[:-1]
            if repl != old[i]:
                yield ("change", i, b2s(repl)), old[:i] + [repl] + old[i + 1:]
    for i in range(body_n + 1):
        for ins in (FRESH, b"a\n"):
            yield ("insert", i, b2s(ins)), old[:i] + [ins] + old[i:]
    for i in range(n):
        yield ("delete", i, None), old[:i] + old[i + 1:]
    for k in range(n):
        yield ("truncate", k, None), old[:k]
    if n:
        if last_open:
            yield ("add-final-newline", n - 1, None), \
                old[:-1] + [old[-1] + b"\n"]
        elif old[-1] != b"\n":
            yield ("drop-final-newline", n - 1, None), \
                old[:-1] + [old[-1][:-1]]


def subject_apply(via, pert, dl):
    """-> ("applied", bytes) | ("conflict", None) | ("stopiteration", repr)"""
    from breezy import patches
    try:
        if via == "hunks":
            p = patches.parse_patch(iter(dl))
            got = b"".join(patches.iter_patched_from_hunks(list(pert),
                                                           p.hunks))
        else:
            got = b"".join(patches.iter_patched(list(pert), iter(dl)))
    except patches.PatchConflict as e:
        str(e)          # the error must be usable as a report
        return "conflict", None
    except RuntimeError as e:
        # PEP 479 conversion of a StopIteration leaking out of the generator
        if not isinstance(e.__cause__, StopIteration):
            raise
        return "stopiteration", repr(e)
    return "applied", got


KNOWN_EOF = "C39/text-ends-before-hunk-start-RuntimeError"


def apply_perturbed(pert, dl, rh, info, name):
    """-> ('conflict' | 'applied', known-finding detail or None)."""
    exp, exp_out = ref_apply(pert, rh)
    known = None
    for via in ("hunks", "iter_patched"):
        res, got = subject_apply(via, pert, dl)
        det = [info, name, via, exp, exp_out if exp == "conflict" else None]
        if res == "stopiteration":
            check(exp == "conflict", "C39/StopIteration-on-matching-text", det)
            if exp_out == "eof-before-hunk":
                known = det + [got]
                continue
            check(False, "C39/text-ends-inside-hunk-RuntimeError", det + [got])
        if exp == "conflict":
            check(res == "conflict",
                  "C39/mismatching-text-patched-silently:" + exp_out,
                  det + [b2s(got or b"")])
        else:
            check(res == "applied", "C39/conflict-reported-for-matching-text",
                  det)
            check(got == b"".join(exp_out),
                  "C39/perturbed-text-patched-to-wrong-output",
                  det + [b2s(got), b2s(b"".join(exp_out))])
    return ("conflict" if exp == "conflict" else "applied"), known


def _case_texts(case):
    old = [s2b(x) for x in case["old"]]
    new = [s2b(x) for x in case["new"]]
    return old, new, case["ctx"], case.get("matcher", "patience")


def run_pair(case, env):
    old, new, ctx, matcher = _case_texts(case)
    d, rh = roundtrip(old, new, ctx, matcher, case.get("labels", 0))
    if not rh:
        return trivial()
    lab = label_of(d, rh)
    return ok(lab) if lab else trivial()


def run_perturbed(case, env):
    old, new, ctx, matcher = _case_texts(case)
    d, rh = roundtrip(old, new, ctx, matcher)
    if not rh:
        return trivial()
    dl = split_nl(d)
    info = _show(old, new, ctx, {"matcher": matcher})
    cov = covered(rh)
    n = nconf = napp = 0
    known = None
    for name, pert in perturbations(old):
        n += 1
        if name[0] == "change":
            # harness self-check of the reference: a changed covered line
            # must conflict, an uncovered one must not
            exp, _r = ref_apply(pert, rh)
            if (exp == "conflict") != (name[1] in cov):
                raise AssertionError(("reference patcher inconsistent", info,
                                      name))
        res, kn = apply_perturbed(pert, dl, rh, info, list(name))
        # an open finding must not stop the search: remember it, go on
        known = known or kn
        if res == "conflict":
            nconf += 1
        else:
            napp += 1
    lab = label_of(d, rh) or "single-hunk"
    lab = (lab + "/conflicts+applies") if (nconf and napp) else None
    if known is not None:
        return violation(KNOWN_EOF, known, label=lab)
    return ok(lab, n=n + 1)


# ---------------------------------------------------------------- enumeration

ENUM_ALPHA = [b"a\n", b"b\n", b"-a\n"]


def _enum_texts(maxlen):
    out = []
    for k in range(maxlen + 1):
        for tup in itertools.product(ENUM_ALPHA, repeat=k):
            lines = list(tup)
            out.append(lines)
            if lines:
                out.append(lines[:-1] + [lines[-1][:-1]])
    return out


def _enum_bounds(tier):
    return (3, 3) if tier == "quick" else (5, 5)


def enum_blocks(tier):
    maxlen, _ = _enum_bounds(tier)
    for i in range(len(_enum_texts(maxlen))):
        yield {"block": i, "tier": tier}


_ENUM_CACHE = {}


def run_enum_block(case, env):
    tier = case["tier"]
    maxlen, maxctx = _enum_bounds(tier)
    texts = _ENUM_CACHE.get(maxlen)
    if texts is None:
        texts = _ENUM_CACHE[maxlen] = _enum_texts(maxlen)
    old = texts[case["block"]]
    n = nt = 0
    for new in texts:
        for ctx in range(maxctx + 1):
            d, rh = roundtrip(old, new, ctx, "patience")
            n += 1
            if rh and label_of(d, rh):
                nt += 1
    return ok("enumerated-pair", n=n, nt=nt) if nt else ok(None, n=n)


# ---------------------------------------------------------------- generators

_line = st.one_of(st.sampled_from(ALPHA[:4]), st.sampled_from(ALPHA[:4]),
                  st.sampled_from(ALPHA))


@st.composite
def gen_pair(draw, max_len=14):
    sizes = [s for s in (0, 1, 2, 3, 4, 6, 8, 10, 12, 14) if s <= max_len]
    n_old = draw(st.sampled_from(sizes))
    old = draw(st.lists(_line, min_size=n_old, max_size=n_old))
    mode = draw(st.sampled_from(["edit"] * 7 + ["independent"] * 2 + ["same"]))
    if mode == "independent":
        n_new = draw(st.sampled_from(sizes))
        new = draw(st.lists(_line, min_size=n_new, max_size=n_new))
    elif mode == "same":
        new = list(old)
    else:
        new = list(old)
        for _ in range(draw(st.integers(1, 5))):
            op = draw(st.sampled_from(["replace", "insert", "delete", "dup"]))
            if op == "insert" or not new:
                i = draw(st.integers(0, len(new)))
                new.insert(i, draw(_line))
            elif op == "replace":
                i = draw(st.integers(0, len(new) - 1))
                new[i] = draw(_line)
            elif op == "delete":
                i = draw(st.integers(0, len(new) - 1))
                del new[i]
            else:
                i = draw(st.integers(0, len(new) - 1))
                new.insert(i, new[i])
        new = new[:max_len + 4]

    def finish(lines):
        lines = list(lines)
        if lines and draw(st.integers(0, 3)) == 0:
            last = lines[-1][:-1]
            lines[-1] = last if last else b"z"
        return [b2s(x) for x in lines]

    return {"old": finish(old), "new": finish(new),
            "ctx": draw(st.sampled_from([0, 0, 0, 1, 1, 1, 2, 2, 3, 4, 5, 20])),
            "matcher": draw(st.sampled_from(["patience", "patience",
                                             "difflib"])),
            "labels": draw(st.sampled_from([0, 0, 0, 1, 2, 3, 4]))}


LONG_SIZES = [8, 9, 10, 11, 12, 98, 99, 100, 101, 102, 120]


@st.composite
def gen_long(draw):
    """Texts whose hunk positions / ranges cross 9/10 and 99/100 (the number
    of digits in the hunk headers changes there)."""
    n = draw(st.sampled_from(LONG_SIZES))
    old = [b"line %03d\n" % i for i in range(n)]
    for _ in range(draw(st.integers(0, 3))):          # some repeated lines
        old[draw(st.integers(0, n - 1))] = b"same\n"
    new = list(old)
    anchors = [0, 1, 8, 9, 10, 11, 97, 98, 99, 100, 101, n - 2, n - 1, n]
    for _ in range(draw(st.integers(1, 4))):
        pos = min(max(draw(st.sampled_from(anchors)) +
                      draw(st.integers(-1, 1)), 0), len(new))
        op = draw(st.sampled_from(["insert", "insert-block", "delete",
                                   "delete-block", "replace"]))
        k = draw(st.sampled_from([1, 2, 9, 10, 11])) if "block" in op else 1
        if op.startswith("insert") or pos >= len(new):
            new[pos:pos] = [b"new %d\n" % j for j in range(k)]
        elif op.startswith("delete"):
            del new[pos:pos + k]
        else:
            new[pos] = b"changed\n"
    if draw(st.integers(0, 4)) == 0 and new:
        new[-1] = new[-1][:-1]
    if draw(st.integers(0, 6)) == 0:
        old[-1] = old[-1][:-1]
    return {"old": [b2s(x) for x in old], "new": [b2s(x) for x in new],
            "ctx": draw(st.sampled_from([0, 0, 1, 2, 3, 10])),
            "matcher": draw(st.sampled_from(["patience", "difflib"])),
            "labels": draw(st.sampled_from([0, 1]))}


def run_long(case, env):
    old, new, ctx, matcher = _case_texts(case)
    d, rh = roundtrip(old, new, ctx, matcher, case.get("labels", 0))
    if not rh:
        return trivial()
    dl = split_nl(d)
    info = _show(old[:2], new[:2], ctx, {"long": len(old)})
    # truncations around every hunk start / end
    known = None
    n = 1
    for opos, orng, _mp, _mr, _body in rh:
        for k in (opos - 2, opos - 1, opos, opos + orng - 1):
            if 0 <= k < len(old):
                _res, kn = apply_perturbed(old[:k], dl, rh, info,
                                           ["truncate", k, None])
                known = known or kn
                n += 1
    if known is not None:
        return violation(KNOWN_EOF, known, label="long")
    digits = set(len(str(x)) for h in rh for x in (h[0], h[2]))
    if len(rh) >= 2 or len(digits) >= 2:
        return ok("long/%s" % ("multi-hunk" if len(rh) >= 2 else "one-hunk"),
                  n=n)
    return ok(None, n=n)


def kinds(tier):
    return [
        Kind("enum-small", run_enum_block, enumerate=enum_blocks,
             exhaustive=True, hash_cases=False),
        Kind("pairs", run_pair, strategy=gen_pair(),
             examples={"quick": 20000, "thorough": 600000}),
        Kind("perturbed", run_perturbed, strategy=gen_pair(max_len=10),
             examples={"quick": 4000, "thorough": 150000}),
        Kind("long", run_long, strategy=gen_long(),
             examples={"quick": 1500, "thorough": 60000}),
    ]
