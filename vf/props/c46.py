"""C46 - clean-tree deletes only what was asked for.

Everything happens below one scratch directory:  <top>/tree (the working
tree) and <top>/canary (an area outside the tree that symlinks may point
to).  Deleting functions are wrapped by a guard that refuses, and records,
any attempt outside <top>/tree.
"""

import contextlib
import os
import shutil

from hypothesis import strategies as st

from vf.api import Kind, check, ok, trivial
from vf.lib import bz, c48_ref as R

PROPERTY = "C46"
LEVEL = "exploration"
TECHNIQUE = ("Hypothesis-generated layouts on real bzr and git working trees; "
             "file-system snapshot before/after incl. a canary area; reference "
             "classification of unversioned paths with the C48 matcher; "
             "enforcing guard under os.unlink / shutil.rmtree")
RULE = ("Layout of depth <= 3 over names {a, b, n, x.tmp, y~, z.o, ig, c.THIS, "
        "d.BASE, e-acute, .hid, y~z, x.tmp.keep, c.THIS.txt, z.o.d}: files, directories, symlinks (to siblings, to "
        "nothing, to directories inside the tree, to a file / directory in the "
        "canary area next to the tree) and nested branches (bzr or git), each "
        "versioned or not (a child only if its parent is); ignore file "
        "(.bzrignore / .gitignore, versioned or not) with 0-3 of {*.o, ig, "
        "*.tmp, ./b, !z.o}; options = every subset of {unknown, ignored, "
        "detritus} x dry_run. Two input classes behind open findings are "
        "removed by construction and have their own kinds: a nested branch "
        "below an unversioned directory (F9) and a bzr branch nested in a git "
        "tree. A small kind concentrates on unversioned symlinks to "
        "directories (in the tree and in the canary area) that are themselves "
        "selected for deletion. Non-trivial: the "
        "layout has >= 1 protected item (versioned path, nested branch, canary "
        "target of a symlink) inside or next to something the options select, "
        "and something was deleted; labelled by what was protected. Distinct "
        "by case hash.")
ASSUMPTIONS = [
    "the reference classification (detritus suffixes; ignore patterns decided "
    "by vf/lib/c48_ref for bzr, basename patterns matching any path component "
    "for git) is only used to decide whether a *deleted* path was in a "
    "requested category",
    "the scratch user ignore list is empty",
]
LEVEL_TEXT = ("Sampled layouts x all option subsets on real trees; safety is "
              "decided on the file system (everything below the scratch "
              "directory is snapshotted, incl. a canary area outside the tree).")
LEVEL_NOTE = ("Completeness (everything requested is deleted) is not part of "
              "the statement and is only used for the non-triviality labels; "
              "gitignore semantics are modelled for slash-free patterns only.")
REGISTERED = True
NONTRIVIAL_FLOOR = {"quick": 100, "thorough": 3000}

NAMES = ["a", "b", "n", "x.tmp", "y~", "z.o", "ig", "c.THIS", "d.BASE", "é",
         ".hid", "y~z", "x.tmp.keep", "c.THIS.txt", "z.o.d"]
IGNORES = ["*.o", "ig", "*.tmp", "./b", "!z.o"]
DETRITUS = (".THIS", ".BASE", ".OTHER", "~", ".tmp")
F9_SIG = "C46/nested-branch-below-unknown-dir"


# ---------------------------------------------------------------- generation

@st.composite
def gen_case(draw, fmt="2a", f9=False, linkdir=False, foreign=False):
    entries = []
    git = fmt == "git"

    def fill(parent, depth, parent_versioned, below_unversioned):
        n = draw(st.integers(1, 4 if depth else 5))
        names = draw(st.lists(st.sampled_from(NAMES), min_size=n, max_size=n,
                              unique=True))
        for name in names:
            path = (parent + "/" + name) if parent else name
            kind = draw(st.sampled_from(
                ["file", "file", "file", "dir", "dir", "symlink", "branch"]
                if depth < 2 else ["file", "file", "symlink"]))
            versioned = parent_versioned and draw(st.integers(0, 9)) < 4
            up = "../" * (depth + 1)
            if kind == "branch":
                ok_here = not below_unversioned
                if f9:
                    ok_here = below_unversioned
                if not ok_here:
                    kind = "file"
                else:
                    # a git tree only protects nested git repositories (open
                    # finding): other formats there only in their own kind
                    nf = draw(st.sampled_from([fmt, fmt, "git"]))
                    if git:
                        nf = "2a" if foreign else "git"
                    entries.append([path, "branch", False, nf])
                    continue
            if kind == "file":
                entries.append([path, "file", versioned, "content of " + path])
            elif kind == "symlink":
                top_level_unversioned = not versioned and not below_unversioned
                # (no link to itself: a loop is not a usable tree entry)
                targets = ["a" if name != "a" else "b", "nowhere",
                           up + "canary/cfile"]
                dir_targets = [up + "canary/cdir"] + (
                    [] if git else [up + "tree", "."])
                if linkdir and top_level_unversioned:
                    targets = dir_targets
                else:
                    targets = targets + dir_targets
                if git and versioned:
                    # git's add follows a link to a nested repository and
                    # wants to record a tree reference: keep versioned links
                    # away from sibling names
                    targets = ["nowhere", up + "canary/cfile",
                               up + "canary/cdir"]
                entries.append([path, "symlink", versioned,
                                draw(st.sampled_from(targets))])
            else:
                entries.append([path, "dir", versioned, None])
                if versioned and git:
                    # git versions a directory through a file inside it
                    entries.append([path + "/keep", "file", True, "keep"])
                fill(path, depth + 1, versioned,
                     below_unversioned or not versioned)

    fill("", 0, True, False)
    if not f9 and not foreign and draw(st.integers(0, 2)) == 0:
        # a branch nested one level down, inside a versioned directory (the
        # nested-tree test must look at the path, not at the basename)
        entries.append(["vdir", "dir", True, None])
        entries.append(["vdir/keep", "file", True, "keep"])
        entries.append(["vdir/sub", "dir", not git, None])
        if git:
            entries.append(["vdir/sub/keep", "file", True, "keep"])
        entries.append(["vdir/sub/nestedrepo", "branch", False,
                        "git" if git else draw(st.sampled_from([fmt, "git"]))])
    if f9 and not any(e[1] == "branch" for e in entries):
        entries.append(["unk9", "dir", False, None])
        entries.append(["unk9/sub", "dir", False, None])
        entries.append(["unk9/sub/nested", "branch", False, fmt])
    if foreign and not any(e[1] == "branch" for e in entries):
        entries.append(["nested-bzr", "branch", False, "2a"])
    if linkdir and not any(
            e[1] == "symlink" and e[3].endswith(("cdir", "tree", "."))
            and not e[2] for e in entries):
        entries.append(["lnk", "symlink", False, "../canary/cdir"])
    opts = {k: draw(st.booleans()) for k in ("unknown", "ignored", "detritus")}
    opts["dry_run"] = draw(st.integers(0, 5)) == 0
    if f9 or linkdir or foreign:
        opts.update(unknown=True, dry_run=False)
    return {"fmt": fmt, "entries": entries,
            "ignore": draw(st.lists(st.sampled_from(
                [p for p in IGNORES if not (git and p.startswith("./"))]),
                max_size=3, unique=True)),
            "ignore_versioned": draw(st.booleans()), "opts": opts}


# ---------------------------------------------------------------- reference

def is_detritus(p):
    return p.endswith(DETRITUS)


def _glob(pat, s):
    return R._match(R.tokens(pat), s, True)


def classify(case, e, is_dir_chain):
    """Category of the unversioned path e ('detritus' only if requested)."""
    opts = case["opts"]
    if opts["detritus"] and is_detritus(e):
        return "detritus"
    pats = case["ignore"]
    if case["fmt"] == "git":
        # slash-free gitignore patterns match any component; '!' re-includes
        # (last matching pattern wins); a matched directory ignores its content
        verdict = False
        parts = e.split("/")
        for pat in pats:
            neg = pat.startswith("!")
            body = pat[1:] if neg else pat
            if body.startswith("./"):
                hit = e == body[2:] or e.startswith(body[2:] + "/")
                body = None
            else:
                hit = any(_glob(body, c) for c in parts)
            if hit:
                verdict = not neg
        if any(p.startswith("!") for p in pats):
            return None      # exclusion below an ignored directory: unspecified
        return "ignored" if verdict else "unknown"
    status, _ = R.ref_ignored(pats, e)
    if status == "unspecified":
        return None
    return "ignored" if status == "ignored" else "unknown"


# ---------------------------------------------------------------- fs helpers

def snapshot(top, tree_root):
    """{relpath: [kind, content/target]} of everything below top, except the
    tree's own control directory. Symlinks are not followed."""
    out = {}
    skip = {os.path.join(tree_root, ".bzr"), os.path.join(tree_root, ".git")}
    for d, ds, fs in os.walk(top):
        ds[:] = [x for x in ds if os.path.join(d, x) not in skip]
        for name in sorted(ds + fs):
            p = os.path.join(d, name)
            rel = os.path.relpath(p, top)
            if os.path.islink(p):
                out[rel] = ["symlink", os.readlink(p)]
            elif os.path.isdir(p):
                out[rel] = ["dir", None]
            else:
                with open(p, "rb") as f:
                    out[rel] = ["file", bz.sha1(f.read())]
    return out


class Guard:
    """Refuses deletions outside <top>/tree and records the attempt."""

    def __init__(self, tree_root):
        self.root = os.path.realpath(tree_root)
        self.attempts = []

    def inside(self, path):
        path = os.fsdecode(path)
        parent = os.path.realpath(os.path.dirname(os.path.abspath(path)))
        full = os.path.join(parent, os.path.basename(path))
        return full.startswith(self.root + os.sep)

    @contextlib.contextmanager
    def active(self):
        real = {"unlink": os.unlink, "remove": os.remove, "rmdir": os.rmdir,
                "rmtree": shutil.rmtree}
        guard = self

        def wrap(name):
            fn = real[name]

            def w(path, *a, **kw):
                if kw.get("dir_fd") is None and not guard.inside(path):
                    guard.attempts.append([name, os.fsdecode(path)])
                    raise PermissionError(13, "verif guard: outside the tree",
                                          os.fsdecode(path))
                return fn(path, *a, **kw)
            return w

        os.unlink = wrap("unlink")
        os.remove = wrap("remove")
        os.rmdir = wrap("rmdir")
        shutil.rmtree = wrap("rmtree")
        try:
            yield
        finally:
            os.unlink = real["unlink"]
            os.remove = real["remove"]
            os.rmdir = real["rmdir"]
            shutil.rmtree = real["rmtree"]


# ---------------------------------------------------------------- run

def run(case, env):
    from breezy import clean_tree
    fmt = case["fmt"]
    top = env.newdir("c")
    root = os.path.join(top, "tree")
    canary = os.path.join(top, "canary")
    os.makedirs(os.path.join(canary, "cdir", "deep"))
    for p, c in (("cfile", "canary file"), ("cdir/inner", "inner"),
                 ("cdir/deep/x.tmp", "deep detritus")):
        with open(os.path.join(canary, p), "w") as f:
            f.write(c)
    wt = bz.init_tree(root, fmt)
    ignfile = ".gitignore" if fmt == "git" else ".bzrignore"
    entries = [list(e) for e in case["entries"]]
    for path, kind, versioned, extra in entries:
        ap = os.path.join(root, path)
        check(os.path.realpath(os.path.dirname(ap)).startswith(
            os.path.realpath(root)), "C46/harness-entry-outside-tree", path)
        if kind == "dir":
            os.mkdir(ap)
        elif kind == "file":
            with open(ap, "w") as f:
                f.write(extra)
        elif kind == "symlink":
            target = os.path.normpath(os.path.join(os.path.dirname(ap), extra))
            check(target.startswith(top + os.sep),
                  "C46/harness-symlink-leaves-scratch", [path, extra])
            os.symlink(extra, ap)
        else:
            nested = bz.init_tree(ap, extra)
            with open(os.path.join(ap, "nested-file"), "w") as f:
                f.write("nested " + path)
            nested.add(["nested-file"])
    with open(os.path.join(root, ignfile), "w") as f:
        f.write("".join(p + "\n" for p in case["ignore"]))
    to_add = [e[0] for e in entries if e[2] and not (fmt == "git" and
                                                     e[1] == "dir")]
    if case["ignore_versioned"]:
        to_add.append(ignfile)
    for p in to_add:
        wt.add([p])
    versioned = set(to_add)
    now = _versioned_now(root)
    check(versioned <= now, "C46/harness-add-failed",
          sorted(versioned - now))
    versioned |= now

    before = snapshot(top, root)
    guard = Guard(root)
    opts = case["opts"]
    error = None
    try:
        with guard.active():
            clean_tree.clean_tree(root, unknown=opts["unknown"],
                                  ignored=opts["ignored"],
                                  detritus=opts["detritus"],
                                  dry_run=opts["dry_run"], no_prompt=True)
    except OSError as e:
        error = e
    after = snapshot(top, root)
    detail = {"case": case}
    deleted = sorted(set(before) - set(after))
    changed = sorted(p for p in before if p in after and before[p] != after[p])
    added = sorted(set(after) - set(before))
    detail["deleted"] = deleted

    # -- nothing outside the tree, nothing created or modified
    check(not guard.attempts, "C46/deletion-attempted-outside-the-tree",
          dict(detail, attempts=guard.attempts))
    outside = [p for p in deleted + changed + added
               if not p.startswith("tree/")]
    check(not outside, "C46/path-outside-the-tree-deleted-or-changed",
          dict(detail, outside=outside))
    check(not changed and not added, "C46/clean-tree-modifies-or-creates-files",
          dict(detail, changed=changed, added=added))
    # -- dry run
    if opts["dry_run"]:
        check(not deleted, "C46/dry-run-deletes", detail)
    rel_deleted = [p[len("tree/"):] for p in deleted]
    # -- versioned paths and their ancestors
    for p in rel_deleted:
        for v in versioned:
            if v == p or v.startswith(p + "/"):
                check(False, "C46/versioned-path-or-ancestor-deleted",
                      dict(detail, path=p, versioned=v))
    # -- nested branches
    kinds = {e[0]: e for e in entries}
    for e in entries:
        if e[1] != "branch":
            continue
        hit = [p for p in rel_deleted
               if p == e[0] or p.startswith(e[0] + "/") or
               e[0].startswith(p + "/")]
        if hit:
            below_unknown = _has_unversioned_ancestor(e[0], versioned)
            sig = F9_SIG if below_unknown else "C46/nested-branch-deleted"
            if not below_unknown and fmt == "git" and e[3] != "git":
                sig = "C46/git-tree-deletes-nested-bzr-branch"
            check(False, sig, dict(detail, branch=e[0], hit=hit[:5]))
    # -- only requested categories
    wanted = {k for k in ("unknown", "ignored", "detritus") if opts[k]}
    for p in rel_deleted:
        if fmt == "git":
            if before["tree/" + p][0] == "dir":
                continue
            top_e = p
        else:
            top_e = _top_unversioned(p, versioned)
        cls = classify(case, top_e, None)
        if cls is not None and cls not in wanted:
            check(False, "C46/deletes-%s-path-not-requested" % cls,
                  dict(detail, path=p, decided_by=top_e, requested=sorted(
                      wanted)))
    # -- an internal error (after the safety checks, so that a crash that
    # also deleted too much is reported as such)
    if error is not None:
        raise error
    # -- non-triviality
    if not rel_deleted:
        return trivial()
    prot = set()
    if versioned:
        prot.add("versioned")
    if any(e[1] == "branch" for e in entries):
        prot.add("nested-branch")
    if any(e[1] == "symlink" and "canary" in e[3] for e in entries):
        prot.add("canary-link")
    if not prot:
        return trivial()
    return ok("%s:deleted-next-to-%s" % (fmt, "+".join(sorted(prot))))


def _versioned_now(root):
    from breezy import workingtree
    wt = workingtree.WorkingTree.open(root)
    with wt.lock_read():
        out = {p for p in wt.all_versioned_paths() if p}
    return out


def _has_unversioned_ancestor(path, versioned):
    parts = path.split("/")
    return any("/".join(parts[:i]) not in versioned
               for i in range(1, len(parts)))


def _top_unversioned(path, versioned):
    parts = path.split("/")
    for i in range(1, len(parts) + 1):
        p = "/".join(parts[:i])
        if p not in versioned:
            return p
    return path


def kinds(tier):
    return [
        Kind("bzr", run, strategy=gen_case("2a"),
             examples={"quick": 350, "thorough": 10000}),
        Kind("git", run, strategy=gen_case("git"),
             examples={"quick": 150, "thorough": 5000}),
        Kind("f9-nested-branch-below-unknown-dir", run,
             strategy=gen_case("2a", f9=True),
             examples={"quick": 24, "thorough": 300}),
        Kind("git-tree-nested-bzr-branch", run,
             strategy=gen_case("git", foreign=True),
             examples={"quick": 24, "thorough": 300}),
        Kind("unknown-symlink-to-directory", run,
             strategy=gen_case("2a", linkdir=True),
             examples={"quick": 40, "thorough": 600}),
    ]
