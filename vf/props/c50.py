"""C50 - command-line splitting inverts shell-style quoting: quote-join-split
round trip against an independent quoter, and nothing lost / nothing invented
for arbitrary command lines."""

import itertools

from hypothesis import strategies as st

from vf.api import Kind, check, ok, trivial

PROPERTY = "C50"
LEVEL = "exploration"
TECHNIQUE = ("round trip through an independent reference quoter + conservation "
             "laws on arbitrary input; Hypothesis and exhaustive enumeration of "
             "short strings / short argument lists (block cases)")
RULE = ("round trip: lists of 0-6 arguments of 0-10 characters over {a, b, e-acute, "
        "space, tab, \", ', backslash}, single quotes enabled or not, each "
        "argument wrapped by the reference quoter in \" (or ' when enabled; "
        "letter/backslash-only arguments sometimes bare, arguments without white "
        "space sometimes unquoted with backslash-escaped quote characters), joined by 1-3 spaces with optional "
        "leading/trailing spaces. arbitrary: every string over {a, b, space, \", ', "
        "backslash} of length <= 6 (quick) / 8 (thorough) plus generated ones up "
        "to 14 characters. enum-args: every single argument of length <= 5 (6) and "
        "every pair of arguments of length <= 2 (3) over {a, space, \", ', "
        "backslash}. Non-trivial: an argument with a backslash next to a quote "
        "character or at its end, or an empty argument; for arbitrary strings a "
        "backslash next to a quote or an unbalanced quote. Distinct by case hash / "
        "by construction.")
ASSUMPTIONS = [
    "the documented quoting rules are those of the MSDN CommandLineToArgvW page "
    "the module cites: 2N backslashes + quote -> N backslashes and the quote "
    "acts, 2N+1 -> N backslashes and a literal quote, backslashes elsewhere are "
    "literal; with single quotes enabled ' is a quote character as well",
]
LEVEL_TEXT = ("Complete for all command lines up to 6 (8) characters over the six "
              "characters that drive the state machine and for all short argument "
              "lists; longer inputs are sampled. The splitter's state depends only "
              "on the character class, so the enumerated alphabet covers every "
              "transition; hence exploration with exhaustive sub-domains.")
LEVEL_NOTE = ("Trusts the 15-line reference quoter and the classification of "
              "backslash runs (before a quote character or not) used by the "
              "conservation law.")
REGISTERED = True
NONTRIVIAL_FLOOR = {"quick": 5000, "thorough": 100000}

BS = "\\"


# ---------------------------------------------------------------- reference

def quote(arg, qc, qchars):
    """Wrap arg in the quote character qc following the documented rules."""
    out = [qc]
    i = 0
    n = len(arg)
    while i < n:
        nb = 0
        while i < n and arg[i] == BS:
            nb += 1
            i += 1
        if i == n:
            out.append(BS * (2 * nb))       # run before the closing quote
            break
        c = arg[i]
        if c == qc:
            out.append(BS * (2 * nb + 1) + c)
        elif c in qchars:
            out.append(BS * (2 * nb) + c)
        else:
            out.append(BS * nb + c)
        i += 1
    out.append(qc)
    return "".join(out)


def escape_bare(arg, qchars):
    """The other documented way to protect a quote character: leave the word
    unquoted and put a backslash before each quote character (a run of n
    backslashes before it becomes 2n+1); all other backslashes stay as they
    are. Only for non-empty words without white space."""
    out = []
    i = 0
    n = len(arg)
    while i < n:
        nb = 0
        while i < n and arg[i] == BS:
            nb += 1
            i += 1
        if i == n:
            out.append(BS * nb)
            break
        c = arg[i]
        if c in qchars:
            out.append(BS * (2 * nb + 1) + c)
        else:
            out.append(BS * nb + c)
        i += 1
    return "".join(out)


def literal_chars(s, qchars):
    """Characters of s that are outside the quoting syntax: everything but
    whitespace, quote characters and backslash runs directly before a quote
    character."""
    out = []
    i = 0
    n = len(s)
    while i < n:
        c = s[i]
        if c == BS:
            j = i
            while j < n and s[j] == BS:
                j += 1
            if j < n and s[j] in qchars:
                pass                          # escaping syntax
            else:
                out.append(BS * (j - i))
            i = j
            continue
        if not c.isspace() and c not in qchars:
            out.append(c)
        i += 1
    return "".join(out)


def is_subsequence(small, big):
    it = iter(big)
    return all(ch in it for ch in small)


def qchars_of(sq):
    return "\"'" if sq else "\""


def interesting_arg(a, qchars):
    if a == "" or a.endswith(BS):
        return True
    for i, c in enumerate(a):
        if c in qchars and ((i > 0 and a[i - 1] == BS) or
                            (i + 1 < len(a) and a[i + 1] == BS)):
            return True
    return False


# ---------------------------------------------------------------- laws

def subject_tokens(line, sq):
    from breezy import cmdline
    toks = list(cmdline.Splitter(line, single_quotes_allowed=sq))
    got = cmdline.split(line, sq)
    check(got == [t for _q, t in toks], "C50/split-differs-from-Splitter",
          [line, sq, got, toks])
    return toks


def law_roundtrip(args, sq, qcs=None, seps=None, lead="", trail="",
                  bare=None, esc=None):
    qchars = qchars_of(sq)
    pieces = []
    expect_q = []
    for i, a in enumerate(args):
        qc = qcs[i] if qcs else "\""
        if qc not in qchars:
            qc = "\""
        # a word without quote characters or white space needs no quoting; a
        # backslash that is not followed by a quote character is literal, also
        # at the end of an unquoted word
        if esc and esc[i] and a and not any(ch.isspace() for ch in a):
            pieces.append(escape_bare(a, qchars))
            expect_q.append(False)
        elif bare and bare[i] and a and all(ch in "abé\\" for ch in a):
            pieces.append(a)
            expect_q.append(False)
        else:
            pieces.append(quote(a, qc, qchars))
            expect_q.append(True)
    line = lead
    for i, p in enumerate(pieces):
        if i:
            line += seps[i - 1] if seps else " "
        line += p
    line += trail
    toks = subject_tokens(line, sq)
    got = [t for _q, t in toks]
    check(got == list(args), "C50/quoted-args-not-split-back",
          {"args": list(args), "sq": sq, "line": line, "got": got})
    check([q for q, _t in toks] == expect_q,
          "C50/quoted-flag-wrong-for-wholly-quoted-arg",
          {"args": list(args), "sq": sq, "line": line, "tokens": toks})
    return line


def law_conservation(s, sq):
    qchars = qchars_of(sq)
    toks = subject_tokens(s, sq)
    joined = "".join(t for _q, t in toks)
    check(is_subsequence(joined, s), "C50/split-invents-characters",
          {"line": s, "sq": sq, "tokens": toks})
    lit = literal_chars(s, qchars)
    check(is_subsequence(lit, joined), "C50/split-loses-literal-characters",
          {"line": s, "sq": sq, "tokens": toks, "literal": lit})
    for q, t in toks:
        check(t != "" or q, "C50/empty-unquoted-token",
              {"line": s, "sq": sq, "tokens": toks})
    # what was split out can be quoted and split again (round trip instance)
    args = [t for _q, t in toks]
    line2 = " ".join(quote(a, "\"", qchars) for a in args)
    from breezy import cmdline
    again = cmdline.split(line2, sq)
    check(again == args, "C50/requoted-tokens-not-split-back",
          {"line": s, "sq": sq, "tokens": args, "requoted": line2,
           "got": again})
    return toks


def interesting_line(s, qchars):
    nq = sum(1 for c in s if c in qchars)
    if nq == 0:
        return False
    for i, c in enumerate(s):
        if c in qchars and i > 0 and s[i - 1] == BS:
            return True
    return nq % 2 == 1


# ---------------------------------------------------------------- runs

def run_roundtrip(case, env):
    args = case["args"]
    sq = case["sq"]
    x = _expand(case)
    law_roundtrip(args, sq, x["qcs"], x["seps"], case["lead"], case["trail"],
                  x["bare"], x["esc"])
    qchars = qchars_of(sq)
    bs = any(a != "" and interesting_arg(a, qchars) for a in args)
    empty = any(a == "" for a in args)
    if bs and empty:
        return ok("backslash-next-to-quote-or-at-end+empty-arg")
    if bs:
        return ok("backslash-next-to-quote-or-at-end")
    if empty:
        return ok("empty-arg")
    return trivial()


def run_arbitrary(case, env):
    s = case["line"]
    sq = case["sq"]
    law_conservation(s, sq)
    if interesting_line(s, qchars_of(sq)):
        return ok("escaped-or-unbalanced-quote")
    return trivial()


LINE_ALPHA = "ab \"'" + BS
ARG_ALPHA = "a \"'" + BS


def _line_bound(tier):
    return 6 if tier == "quick" else 8


def enum_line_blocks(tier):
    top = _line_bound(tier)
    yield {"len": [0, 1], "prefix": ""}
    for length in range(2, top + 1):
        for pre in itertools.product(LINE_ALPHA, repeat=2):
            yield {"len": [length], "prefix": "".join(pre)}


def run_line_block(case, env):
    n = nt = 0
    pre = case["prefix"]
    for length in case["len"]:
        for tail in itertools.product(LINE_ALPHA, repeat=length - len(pre)):
            s = pre + "".join(tail)
            for sq in (False, True):
                law_conservation(s, sq)
                n += 1
                if interesting_line(s, qchars_of(sq)):
                    nt += 1
    return ok("escaped-or-unbalanced-quote", n=n, nt=nt) if nt else ok(None, n=n)


def _arg_bounds(tier):
    return (5, 2) if tier == "quick" else (6, 3)


def _all_args(maxlen):
    out = []
    for k in range(maxlen + 1):
        out.extend("".join(t) for t in itertools.product(ARG_ALPHA, repeat=k))
    return out


def enum_arg_blocks(tier):
    single, pair = _arg_bounds(tier)
    for k in range(single + 1):
        if k < 2:
            yield {"what": "single", "len": k, "prefix": ""}
        else:
            for c in ARG_ALPHA:
                yield {"what": "single", "len": k, "prefix": c}
    for i in range(len(_all_args(pair))):
        yield {"what": "pair", "first": i, "max": pair}


def run_arg_block(case, env):
    n = nt = 0

    def one(args):
        nonlocal n, nt
        for sq in (False, True):
            qchars = qchars_of(sq)
            for qc in qchars:
                law_roundtrip(args, sq, [qc] * len(args))
                n += 1
                if any(interesting_arg(a, qchars) for a in args):
                    nt += 1
            # unquoted words with backslash-escaped quote characters (where
            # a word allows it), alone and next to a quoted neighbour
            for esc in ([True] * len(args), [True, False], [False, True]):
                if len(esc) != len(args):
                    continue
                law_roundtrip(args, sq, ["\""] * len(args), esc=esc)
                n += 1

    if case["what"] == "single":
        pre = case["prefix"]
        for tail in itertools.product(ARG_ALPHA,
                                      repeat=case["len"] - len(pre)):
            one([pre + "".join(tail)])
    else:
        allargs = _all_args(case["max"])
        first = allargs[case["first"]]
        for second in allargs:
            one([first, second])
    return ok("enumerated-args", n=n, nt=nt) if nt else ok(None, n=n)


# ---------------------------------------------------------------- generators

_ALPHABET = "abé \t\"'" + BS
_WEIGHTED = _ALPHABET + BS * 3 + "\"\"'"
_TEXT = st.text(alphabet=st.sampled_from(_WEIGHTED), max_size=10)
_SEPS = [" ", " ", "  ", "   "]


def _expand(case):
    """Decode the compact generated case into explicit per-argument choices."""
    n = len(case["args"])
    qm, sm, bm = case["qmask"], case["sepcode"], case["baremask"]
    return {
        "qcs": ["'" if (qm >> i) & 1 else "\"" for i in range(n)],
        "seps": [_SEPS[(sm >> (2 * i)) & 3] for i in range(max(0, n - 1))],
        "bare": [bool((bm >> i) & 1) for i in range(n)],
        "esc": [bool((case.get("escmask", 0) >> i) & 1) for i in range(n)],
    }


gen_roundtrip = st.fixed_dictionaries({
    "args": st.lists(st.one_of(_TEXT, _TEXT, _TEXT, st.just("")), max_size=6),
    "sq": st.booleans(),
    "qmask": st.integers(0, 63),
    "sepcode": st.integers(0, 1023),
    "baremask": st.integers(0, 63),
    "escmask": st.sampled_from([0, 0, 1, 2, 5, 21, 42, 63]),
    "lead": st.sampled_from(["", "", " ", "  "]),
    "trail": st.sampled_from(["", "", " ", "  "]),
})

gen_line = st.fixed_dictionaries({
    "line": st.text(alphabet=st.sampled_from(_WEIGHTED), max_size=14),
    "sq": st.booleans(),
})


def kinds(tier):
    return [
        Kind("enum-lines", run_line_block, enumerate=enum_line_blocks,
             exhaustive=True, hash_cases=False),
        Kind("enum-args", run_arg_block, enumerate=enum_arg_blocks,
             exhaustive=True, hash_cases=False),
        Kind("roundtrip", run_roundtrip, strategy=gen_roundtrip,
             examples={"quick": 20000, "thorough": 1500000}),
        Kind("arbitrary", run_arbitrary, strategy=gen_line,
             examples={"quick": 15000, "thorough": 1000000}),
    ]
